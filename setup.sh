#!/bin/sh
# Offline setup: nothing to build (TLA+ specs are interpreted by TLC, the harness is Python).  Verifies the tools.
set -e
cd "$(dirname "$0")"
java -version >/dev/null 2>&1
test -f /opt/veriftools/tla/tla2tools.jar
/venv/bin/python -c "import pint, os; assert os.path.realpath(pint.__file__).startswith('/repo/'), pint.__file__"
mkdir -p evidence replays
echo "setup ok"
