---------------------------- MODULE PintRegistry ----------------------------
(* Top-level state machine of a unit registry: one action per public mutating call   *)
(* (enable_contexts, disable_contexts, with-blocks entered / left normally or by an   *)
(* exception, define, default_system assignment) and one per read-only query.         *)
(* Declarative state: <<active, extra, defsys>> (+ frames of open with-blocks).       *)
(* History state: asked (which queries were put, in which order) and hist (log).      *)
(* Obs(state) = the answers to a fixed probe set, *defined on the declarative state   *)
(* only*: that is the content of C13 (caches are transparent); C12 (scoped, stack-    *)
(* like, atomic, no residue) are the action properties at the end.                    *)
(* Serves C11 (set-valued context conversion), C12, C13 and the base-unit part of C14.*)
EXTENDS Registry

CONSTANTS CtxPool,          \* context name -> [rules : set of [src, dst, coef, pexp], redefs : Seq([unit, scale, ref]), default : Rat or NoParam]
          BaseReg,          \* the registry without any context (prefixed units included as derived units)
          Systems,          \* system name -> [old |-> root unit, new |-> unit replacing it]  (one rule per system)
          NoParam,
          KwVals,           \* keyword values offered to enable()
          MaxOps,
          CtxPairs,         \* pairs <<c1, c2>> of contexts offered to the two-name forms enable_contexts(c1, c2) / context(c1, c2)
          Alphabet          \* which kinds of operation the bounded instance offers

VARIABLES active,   \* Seq([ctx, p])  head = most recently enabled; p = effective parameter or NoParam
          frames,   \* Seq([n, obs, ex, sys])   open with-blocks
          extra,    \* set of unit names defined after construction
          defsys,   \* default system: a system name or "none"
          asked,    \* history only: sequence of probe keys asked so far
          hist      \* Seq of [op, res, stack, sys, obs] -- generator configs only (hidden by VIEW in law configs)
vars == <<active, frames, extra, defsys, asked, hist>>
Declarative == <<active, extra, defsys>>

\* ---- validity of a context against the registry (what redefinition checks) ----
ValidRedef(reg, r) == /\ r.unit \in DOMAIN reg.units /\ ~reg.units[r.unit].base
                      /\ \A k \in DOMAIN r.ref : k \in DOMAIN reg.units
                      /\ DimDecl(reg, r.ref) = DimDecl(reg, reg.units[r.unit].ref)
Valid(c) == \A i \in 1..Len(CtxPool[c].redefs) : ValidRedef(BaseReg, CtxPool[c].redefs[i])

\* ---- effective registry: redefinitions of active contexts, most recent applied last ----
RECURSIVE ApplyRedefs(_, _)
ApplyRedefs(reg, rs) == IF rs = <<>> THEN reg
    ELSE LET r == Head(rs) IN
         ApplyRedefs([reg EXCEPT !.units[r.unit] = [base |-> FALSE, scale |-> r.scale, ref |-> r.ref]], Tail(rs))
RECURSIVE Overlay(_, _)
Overlay(reg, stack) ==           \* stack most-recent-first: apply oldest first
    IF stack = <<>> THEN reg
    ELSE ApplyRedefs(Overlay(reg, Tail(stack)), CtxPool[Head(stack).ctx].redefs)
NewUnit == [base |-> FALSE, scale |-> R(11), ref |-> Single("a", One)]        \* define("new1 = 11 a")
WithExtra(reg, ext) == [reg EXCEPT !.units = [u \in DOMAIN reg.units \cup ext |->
                      IF u \in ext THEN NewUnit ELSE reg.units[u]]]
EffectiveOf(act, ext) == Overlay(WithExtra(BaseReg, ext), act)

\* ---- rules: provider of an edge is the most recently enabled context having it ----
EdgesOf(c) == {<<r.src, r.dst>> : r \in CtxPool[c].rules}
GraphOf(act) == UNION {EdgesOf(act[i].ctx) : i \in 1..Len(act)}
Provider(act, e) == LET i == CHOOSE i \in 1..Len(act) : e \in EdgesOf(act[i].ctx) /\ \A j \in 1..(i-1) : e \notin EdgesOf(act[j].ctx)
               IN act[i]
RuleOf(c, e) == CHOOSE r \in CtxPool[c].rules : <<r.src, r.dst>> = e
\* all shortest paths, by breadth-first layers
RECURSIVE Layers(_, _, _, _)
Layers(G, front, seen, dst) ==      \* front: set of paths (sequences of nodes)
    LET hits == {p \in front : p[Len(p)] = dst} IN
    IF hits # {} THEN hits
    ELSE LET nxt == UNION { {Append(p, e[2]) : e \in {e \in G : e[1] = p[Len(p)] /\ e[2] \notin seen}} : p \in front } IN
         IF nxt = {} THEN {} ELSE Layers(G, nxt, seen \cup {p[Len(p)] : p \in nxt}, dst)
ShortestPaths(G, src, dst) == Layers(G, {<<src>>}, {src}, dst)
RECURSIVE AlongPath(_, _, _, _)
AlongPath(act, x, p, i) ==            \* apply rules along path p from position i; value in the base unit of each dimension
    IF i >= Len(p) THEN <<"ok", x>>
    ELSE LET e == <<p[i], p[i+1]>>  a == Provider(act, e)  r == RuleOf(a.ctx, e) IN
         IF r.pexp # 0 /\ a.p = NoParam THEN <<"err", Zero>>
         ELSE LET v1 == RMul(r.coef, x)
                  v2 == IF r.pexp = 1 THEN RMul(v1, a.p) ELSE IF r.pexp = -1 THEN RDiv(v1, a.p) ELSE v1
              IN AlongPath(act, v2, p, i + 1)
\* conversion of x [unit u1] to unit u2 (single units), through contexts when dimensions differ: the *set*
\* of admissible answers (several shortest paths / several enclosing contexts lending parameters)
ConvAnswers(act, ext, x, u1, u2) ==
    LET reg == EffectiveOf(act, ext) IN
    IF u1 \notin DOMAIN reg.units \/ u2 \notin DOMAIN reg.units THEN {<<"undef", Zero>>}
    ELSE LET d1 == DimDecl(reg, Single(u1, One))  d2 == DimDecl(reg, Single(u2, One)) IN
    IF d1 = d2 THEN {<<"ok", RMul(x, FactorAB(reg, Single(u1, One), Single(u2, One)))>>}
    ELSE LET paths == IF Len(act) = 0 THEN {} ELSE ShortestPaths(GraphOf(act), d1, d2) IN
         IF paths = {} THEN {<<"dimerr", Zero>>}
         ELSE { LET xb == RMul(x, FactorOfUnit(reg, u1))                 \* to base unit of d1
                    r == AlongPath(act, xb, p, 1) IN
                IF r[1] = "ok" THEN <<"ok", RDiv(r[2], FactorOfUnit(reg, u2))>> ELSE r : p \in paths }

\* ---- systems: to_base_units under the default system ----
BaseAnswer(act, ext, sys, u) ==
    LET reg == EffectiveOf(act, ext) IN
    IF u \notin DOMAIN reg.units THEN <<"undef", Zero, {}>>
    ELSE LET root == RootUnitsDecl(reg, Single(u, One))
             f == FactorDecl(reg, Single(u, One))
             dest == IF sys = "none" \/ Systems[sys].old \notin DOMAIN root THEN root
                     ELSE Rename(root, Systems[sys].old, Systems[sys].new)
         IN <<"ok", RMul(f, FactorAB(reg, root, dest)), HashKey(dest)>>       \* containers as sets of <<name, exponent>>
RootAnswer(act, ext, u) ==
    LET reg == EffectiveOf(act, ext) IN
    IF u \notin DOMAIN reg.units THEN <<"undef", Zero, {}>>
    ELSE <<"ok", FactorDecl(reg, Single(u, One)), HashKey(RootUnitsDecl(reg, Single(u, One)))>>
\* compatible-unit listing for unit u: named units of the same dimensionality (prefixed spellings excluded).  While
\* a context with rules is active the listing is enlarged along the rule graph in a way the properties do not
\* fix: the specification then answers "<any>" (no constraint).
Named(reg) == {n \in DOMAIN reg.units : "prefixed" \notin DOMAIN reg.units[n]}
CompatAnswer(act, ext, u) ==
    LET reg == EffectiveOf(act, ext) IN
    IF u \notin DOMAIN reg.units THEN {"<undef>"}
    ELSE IF GraphOf(act) # {} THEN {"<any>"}
    ELSE LET d == DimDecl(reg, Single(u, One)) IN {n \in Named(reg) : DimDecl(reg, Single(n, One)) = d}

\* ---- probes and observation ----
ConvProbes == { <<"c","a">>, <<"e","a">>, <<"a","b">>, <<"b","a">>, <<"new1","a">>, <<"kc","a">>, <<"e","kc">> }
ProbeKeys == {<<"conv", pr[1], pr[2]>> : pr \in ConvProbes}
             \cup {<<"base", "e", "">>, <<"base", "f", "">>, <<"gbase", "f", "">>, <<"gbase", "e", "">>, <<"base", "new1", "">>, <<"root", "e", "">>, <<"compat", "a", "">>, <<"compat", "b", "">>}
             \* ureg.get_base_units(unit, system=s): the answer for system s whatever the default system is
             \cup {<<"sbase", u, s>> : u \in {"e", "f"}, s \in DOMAIN Systems}
Answer(act, ext, sys, k) ==
    CASE k[1] = "conv" -> ConvAnswers(act, ext, R(3), k[2], k[3])
      [] k[1] \in {"base", "gbase"} -> {BaseAnswer(act, ext, sys, k[2])}      \* Quantity.to_base_units / ureg.get_base_units
      [] k[1] = "sbase" -> {BaseAnswer(act, ext, k[3], k[2])}
      [] k[1] = "root" -> {RootAnswer(act, ext, k[2])}
      [] k[1] = "compat" -> {CompatAnswer(act, ext, k[2])}
ObsOf(act, ext, sys) == TLCEval([k \in ProbeKeys |-> Answer(act, ext, sys, k)])
Obs == ObsOf(active, extra, defsys)

\* ---- parameters: keywords, else an enclosing rule-bearing context, else declared default ----
Inherited == {active[i].p : i \in {i \in 1..Len(active) : CtxPool[active[i].ctx].rules # {}}}
ParamChoices(c, kw) == IF kw # NoParam THEN {kw}
                       \* the enclosing context that lends its parameters may be any active one - also one that
                       \* does not carry the parameter, in which case the declared default applies
                       ELSE (Inherited \ {NoParam}) \cup {CtxPool[c].default}

Drop(s, n) == SubSeq(s, (IF n > Len(s) THEN Len(s) ELSE n) + 1, Len(s))
Log(op, res) == hist' = Append(hist, [op |-> op, res |-> res, stack |-> active', sys |-> defsys',
                                       obs |-> ObsOf(active', extra', defsys')])
Same == UNCHANGED asked

Enable(c, kw) == /\ "enable" \in Alphabet /\ Valid(c)
                 /\ \E p \in ParamChoices(c, kw) : active' = <<[ctx |-> c, p |-> p]>> \o active
                 /\ UNCHANGED <<frames, extra, defsys>> /\ Same /\ Log(<<"enable", c, kw>>, "ok")
\* a failed activation changes nothing (atomicity)
EnableFails(c, kw) == /\ "enable" \in Alphabet /\ ~Valid(c)
                      /\ UNCHANGED <<active, frames, extra, defsys>> /\ Same /\ Log(<<"enable", c, kw>>, "error")
Disable(n) == /\ "disable" \in Alphabet /\ active' = Drop(active, n)
              /\ UNCHANGED <<frames, extra, defsys>> /\ Same /\ Log(<<"disable", n>>, "ok")
WithEnter(c, kw) == /\ "with" \in Alphabet /\ Valid(c)
                    /\ \E p \in ParamChoices(c, kw) : active' = <<[ctx |-> c, p |-> p]>> \o active
                    /\ frames' = <<[n |-> 1, obs |-> Obs, ex |-> extra, sys |-> defsys, act |-> active]>> \o frames
                    /\ UNCHANGED <<extra, defsys>> /\ Same /\ Log(<<"with_enter", c, kw>>, "ok")
WithEnterFails(c, kw) == /\ "with" \in Alphabet /\ ~Valid(c)
                         /\ UNCHANGED <<active, frames, extra, defsys>> /\ Same /\ Log(<<"with_enter", c, kw>>, "error")
\* several contexts named in ONE call (enable_contexts(c1, c2) / with ureg.context(c1, c2)): activated together, the
\* last-named innermost; both take their parameters from the call and the contexts enclosing the *call* (c2 does not
\* see c1's); if either is ill-formed nothing at all is activated; the with-block's frame covers both
Enable2(c1, c2) == /\ "enable2" \in Alphabet /\ Valid(c1) /\ Valid(c2)
                   /\ \E p1 \in ParamChoices(c1, NoParam), p2 \in ParamChoices(c2, NoParam) :
                         active' = <<[ctx |-> c2, p |-> p2], [ctx |-> c1, p |-> p1]>> \o active
                   /\ UNCHANGED <<frames, extra, defsys>> /\ Same /\ Log(<<"enable2", c1, c2>>, "ok")
Enable2Fails(c1, c2) == /\ "enable2" \in Alphabet /\ ~(Valid(c1) /\ Valid(c2))
                        /\ UNCHANGED <<active, frames, extra, defsys>> /\ Same /\ Log(<<"enable2", c1, c2>>, "error")
WithEnter2(c1, c2) == /\ "with2" \in Alphabet /\ Valid(c1) /\ Valid(c2)
                      /\ \E p1 \in ParamChoices(c1, NoParam), p2 \in ParamChoices(c2, NoParam) :
                            active' = <<[ctx |-> c2, p |-> p2], [ctx |-> c1, p |-> p1]>> \o active
                      /\ frames' = <<[n |-> 2, obs |-> Obs, ex |-> extra, sys |-> defsys, act |-> active]>> \o frames
                      /\ UNCHANGED <<extra, defsys>> /\ Same /\ Log(<<"with_enter2", c1, c2>>, "ok")
WithEnter2Fails(c1, c2) == /\ "with2" \in Alphabet /\ ~(Valid(c1) /\ Valid(c2))
                           /\ UNCHANGED <<active, frames, extra, defsys>> /\ Same /\ Log(<<"with_enter2", c1, c2>>, "error")
WithExit(how) == /\ "with" \in Alphabet /\ frames # <<>>
                 /\ active' = Drop(active, Head(frames).n) /\ frames' = Tail(frames)
                 /\ UNCHANGED <<extra, defsys>> /\ Same /\ Log(<<"with_exit", how>>, "ok")
DefineNew == /\ "define" \in Alphabet /\ "new1" \notin extra /\ extra' = extra \cup {"new1"}
             /\ UNCHANGED <<active, frames, defsys>> /\ Same /\ Log(<<"define", "new1">>, "ok")
SetSystem(s) == /\ "system" \in Alphabet /\ s # defsys /\ defsys' = s
                /\ UNCHANGED <<active, frames, extra>> /\ Same /\ Log(<<"setsys", s>>, "ok")
\* a read-only question: the declarative state does not move, only the history does
Query(k) == /\ "query" \in Alphabet /\ asked' = Append(asked, k)
            /\ UNCHANGED <<active, frames, extra, defsys>> /\ Log(<<"query", k>>, "ok")

Init == active = <<>> /\ frames = <<>> /\ extra = {} /\ defsys = "none" /\ asked = <<>> /\ hist = <<>>
QueryKeys == {<<"conv", "e", "a">>, <<"conv", "kc", "a">>, <<"gbase", "f", "">>, <<"compat", "a", "">>} \cup {<<"sbase", "e", s>> : s \in DOMAIN Systems}
Next == /\ Len(hist) < MaxOps
        /\ \/ \E c \in DOMAIN CtxPool, kw \in KwVals \cup {NoParam} :
                (kw = NoParam \/ CtxPool[c].default # NoParam) /\ (Enable(c, kw) \/ EnableFails(c, kw))
           \/ \E c \in DOMAIN CtxPool : WithEnter(c, NoParam) \/ WithEnterFails(c, NoParam)
           \/ \E pr \in CtxPairs : Enable2(pr[1], pr[2]) \/ Enable2Fails(pr[1], pr[2]) \/ WithEnter2(pr[1], pr[2]) \/ WithEnter2Fails(pr[1], pr[2])
           \/ \E n \in {0, 1, 2, 3} : Disable(n)
           \/ \E how \in {"normal", "raise"} : WithExit(how)
           \/ DefineNew
           \/ \E s \in DOMAIN Systems \cup {"none"} : SetSystem(s)
           \/ \E k \in QueryKeys : Query(k)
Spec == Init /\ [][Next]_vars
View == <<active, frames, extra, defsys>>

\* ---- laws ----
\* C12 stack discipline: the stack is exactly what the operations imply (by construction of the actions) and
\* bounded by the operations performed; open frames never exceed it
\* (a two-name call pushes two)
StackDiscipline == Len(active) <= 2 * Len(hist) /\ Len(frames) <= Len(hist)
\* C12 atomic failure: a failed activation leaves every observable answer as it was
AtomicFailure == [][((\E c \in DOMAIN CtxPool, kw \in KwVals \cup {NoParam} : EnableFails(c, kw) \/ WithEnterFails(c, kw))
                       \/ (\E pr \in CtxPairs : Enable2Fails(pr[1], pr[2]) \/ WithEnter2Fails(pr[1], pr[2])))
                      => ObsOf(active', extra', defsys') = Obs /\ active' = active]_vars
\* C12 no residue: leaving a with-block whose inner activations were balanced restores every answer to what it
\* was at entry (definitions and system changes made inside persist by design and are excluded)
NoResidue == [][\A how \in {"normal", "raise"} :
                 (WithExit(how) /\ Head(frames).ex = extra /\ Head(frames).sys = defsys /\ active' = Head(frames).act)
                    => ObsOf(active', extra', defsys') = Head(frames).obs]_vars
\* C12 contexts are never modified by being activated: the pool is a constant; what an activation records is only
\* the effective parameter of *that* activation
SameContextTwice == \A i, j \in 1..Len(active) : active[i].ctx = active[j].ctx => CtxPool[active[i].ctx] = CtxPool[active[j].ctx]
\* C13 transparency: a query changes no answer; answers are a function of the declarative state
Transparent == [][(\E k \in QueryKeys : Query(k)) => ObsOf(active', extra', defsys') = Obs /\ Declarative' = Declarative]_vars
\* C11: same-dimension conversions are untouched by rules; without contexts cross-dimension is refused
SameDimUntouched == \A pr \in {<<"c", "a">>, <<"e", "a">>, <<"kc", "a">>} :
                       ConvAnswers(active, extra, R(3), pr[1], pr[2]) = ConvAnswers(<<>>, extra, R(3), pr[1], pr[2])
                       \/ \E i \in 1..Len(active) : CtxPool[active[i].ctx].redefs # <<>>
NoContextNoCrossing == active = <<>> => ConvAnswers(active, extra, R(3), "a", "b") = {<<"dimerr", Zero>>}
=============================================================================
