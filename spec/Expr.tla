-------------------------------- MODULE Expr --------------------------------
(* The expression language of ureg.parse_expression (C07) at token level.             *)
(*  - operational: ParsePint, a transcription of pint_eval._build_eval_tree with its    *)
(*    operator priorities, "index - 1" returns and implicit-operator branches;          *)
(*  - declarative: ParsePy, a recursive-descent parser for Python's grammar with        *)
(*    juxtaposition at the level of * (expr / term / factor / power / atom; ** right-   *)
(*    associative and tighter than unary minus);                                        *)
(*  - Eval: exact evaluation of a tree into <<"v", num, den, exponent of m>>.           *)
(* Dev_GroupBindsImmediately is the named deviation "a juxtaposed parenthesised group   *)
(* is combined before looking at the previous operator or a following **" (what the     *)
(* library did before the fix); registered configurations have it FALSE.                *)
EXTENDS Integers, Sequences, FiniteSets, TLC
CONSTANT Dev_GroupBindsImmediately

\* Tokens: "n2","n3" numbers, "m","s" names, ops "+","-","*","/","**", "(" , ")", "END"
Nums == {"n2","n3"}
Names == {"m"}
Atoms == Nums \cup Names
BinOps == {"+","-","*","/","//","**"}
Alphabet == Atoms \cup BinOps \cup {"(",")"}

Prio(op) == CASE op = "**" -> 3 [] op = "unary" -> 2 [] op \in {"*","/","//",""} -> 1 [] op \in {"+","-"} -> 0 [] OTHER -> -1

Err == <<"ERR">>
IsErr(r) == r[1] = Err

\* ---------- operational: transcription of pint_eval._build_eval_tree -------------
\* returns <<tree, index>> or <<Err, 0>> ; tokens has "END" appended ; 1-based index
\* tree: <<"leaf",tok>> | <<"bin",op,l,r>> (op "" = implicit) | <<"un",op,t>>
RECURSIVE Build(_,_,_,_,_)
RECURSIVE Loop(_,_,_,_,_)
Build(toks, index, depth, prev, dummy) == Loop(toks, index, depth, prev, <<>>)

\* result = <<>> means None
Loop(toks, index, depth, prev, result) ==
  LET tok == toks[index]
      \* step 1: process current token, yielding either a return value <<"ret", tree, idx>> or continue <<"cont", result', index'>> or error
      step ==
        IF tok = ")" THEN
            IF prev = "<none>" THEN <<"err">>
            ELSE IF result = <<>> THEN <<"err">>   \* assert result is not None
            ELSE IF prev = "(" THEN <<"ret", result, index>>
            ELSE <<"ret", result, index - 1>>
        ELSE IF tok = "(" THEN
            IF result # <<>> /\ ~Dev_GroupBindsImmediately THEN
                \* implicit operator with a parenthesised group: exactly like the implicit operator before an atom
                IF Prio("") <= Prio(prev) THEN <<"ret", result, index - 1>>
                ELSE LET r == Build(toks, index, depth + 1, "", 0) IN
                     IF IsErr(r) THEN <<"err">> ELSE <<"cont", <<"bin","",result,r[1]>>, r[2]>>
            ELSE
            LET r == Build(toks, index + 1, 0, "(", 0) IN
            IF IsErr(r) THEN <<"err">>
            ELSE IF toks[r[2]] # ")" THEN <<"err">>
            ELSE IF result # <<>> THEN <<"cont", <<"bin","",result,r[1]>>, r[2]>>
                 ELSE <<"cont", r[1], r[2]>>
        ELSE IF tok \in BinOps THEN
            IF result # <<>> THEN
               IF Prio(tok) <= Prio(prev) /\ tok # "**" THEN <<"ret", result, index - 1>>
               ELSE LET r == Build(toks, index + 1, depth + 1, tok, 0) IN
                    IF IsErr(r) THEN <<"err">> ELSE <<"cont", <<"bin",tok,result,r[1]>>, r[2]>>
            ELSE
               LET r == Build(toks, index + 1, depth + 1, "unary", 0) IN
               IF IsErr(r) THEN <<"err">>
               ELSE IF tok \notin {"+","-"} THEN <<"err">>   \* missing unary operator at evaluation
               ELSE <<"cont", <<"un",tok,r[1]>>, r[2]>>
        ELSE IF tok \in Atoms THEN
            IF result # <<>> THEN
               IF Prio("") <= Prio(prev) THEN <<"ret", result, index - 1>>
               ELSE LET r == Build(toks, index, depth + 1, "", 0) IN
                    IF IsErr(r) THEN <<"err">> ELSE <<"cont", <<"bin","",result,r[1]>>, r[2]>>
            ELSE <<"cont", <<"leaf",tok>>, index>>
        ELSE <<"cont", result, index>>    \* END token: nothing
  IN
  IF step[1] = "err" THEN <<Err, 0>>
  ELSE IF step[1] = "ret" THEN <<step[2], step[3]>>
  ELSE LET res2 == step[2]  idx2 == step[3] IN
       IF idx2 < 1 THEN <<Err,0>> ELSE
       IF toks[idx2] = "END" THEN
           IF prev = "(" THEN <<Err, 0>>
           ELSE IF res2 = <<>> THEN <<Err, 0>>
           ELSE IF depth > 0 \/ prev # "" THEN <<res2, idx2>> ELSE <<res2, -1>>
       ELSE IF idx2 + 1 > Len(toks) THEN <<Err, 0>>
       ELSE Loop(toks, idx2 + 1, depth, prev, res2)

ParsePint(ts) == LET r == Build(ts \o <<"END">>, 1, 0, "<none>", 0) IN IF IsErr(r) THEN Err ELSE r[1]

\* ---------- declarative: Python grammar with juxtaposition at term level -------------
\* each returns <<tree, next>> or <<Err,0>>
RECURSIVE PExpr(_,_), PTerm(_,_), PFactor(_,_), PPower(_,_), PAtom(_,_), PExprRest(_,_,_), PTermRest(_,_,_)
StartsAtom(t) == t \in Atoms \/ t = "("
PAtom(toks,i) ==
   IF toks[i] \in Atoms THEN << <<"leaf",toks[i]>>, i+1>>
   ELSE IF toks[i] = "(" THEN LET r == PExpr(toks,i+1) IN
        IF IsErr(r) THEN r ELSE IF toks[r[2]] = ")" THEN <<r[1], r[2]+1>> ELSE <<Err,0>>
   ELSE <<Err,0>>
PPower(toks,i) == LET a == PAtom(toks,i) IN
   IF IsErr(a) THEN a ELSE
   IF toks[a[2]] = "**" THEN LET f == PFactor(toks,a[2]+1) IN IF IsErr(f) THEN f ELSE << <<"bin","**",a[1],f[1]>>, f[2]>>
   ELSE a
PFactor(toks,i) == IF toks[i] \in {"+","-"} THEN LET f == PFactor(toks,i+1) IN IF IsErr(f) THEN f ELSE << <<"un",toks[i],f[1]>>, f[2]>>
                   ELSE PPower(toks,i)
PTermRest(toks,left,i) ==
   IF toks[i] \in {"*","/","//"} THEN LET f == PFactor(toks,i+1) IN IF IsErr(f) THEN f ELSE PTermRest(toks, <<"bin",toks[i],left,f[1]>>, f[2])
   ELSE IF StartsAtom(toks[i]) THEN LET f == PPower(toks,i) IN IF IsErr(f) THEN f ELSE PTermRest(toks, <<"bin","",left,f[1]>>, f[2])
   ELSE <<left,i>>
PTerm(toks,i) == LET f == PFactor(toks,i) IN IF IsErr(f) THEN f ELSE PTermRest(toks,f[1],f[2])
PExprRest(toks,left,i) ==
   IF toks[i] \in {"+","-"} THEN LET t == PTerm(toks,i+1) IN IF IsErr(t) THEN t ELSE PExprRest(toks, <<"bin",toks[i],left,t[1]>>, t[2])
   ELSE <<left,i>>
PExpr(toks,i) == LET t == PTerm(toks,i) IN IF IsErr(t) THEN t ELSE PExprRest(toks,t[1],t[2])
ParsePy(ts) == LET toks == ts \o <<"END">> r == PExpr(toks,1) IN
   IF IsErr(r) THEN Err ELSE IF toks[r[2]] = "END" THEN r[1] ELSE Err

\* normalise: implicit op "" equals "*" semantically
RECURSIVE Norm(_)
Norm(t) == IF t = Err THEN Err ELSE
           CASE t[1] = "leaf" -> t
             [] t[1] = "un" -> <<"un", t[2], Norm(t[3])>>
             [] t[1] = "bin" -> <<"bin", IF t[2] = "" THEN "*" ELSE t[2], Norm(t[3]), Norm(t[4])>>


\* ---------- evaluation: value = <<"v", num, den, mexp>> | <<"E">> (error) | <<"B">> (too big) -------------
RECURSIVE Gcd(_,_)
Gcd(a,b) == IF b = 0 THEN a ELSE Gcd(b, a % b)
Abs(x) == IF x < 0 THEN -x ELSE x
Lim == 100000
\* values are <<"v", num, den, exponent of m, isq>>; isq: a unit took part (a quantity, not a bare number)
MkV(n,d,e,q) == IF d = 0 THEN <<"E">> ELSE
              LET g == Gcd(Abs(n),Abs(d)) sg == IF d < 0 THEN -1 ELSE 1
                  nn == sg*(n \div g) dd == sg*(d \div g) IN
              IF Abs(nn) > Lim \/ dd > Lim \/ Abs(e) > 8 THEN <<"B">> ELSE <<"v",nn,dd,e,q>>
RECURSIVE IPow(_,_)
IPow(b,k) == IF k = 0 THEN 1 ELSE IF Abs(b) > Lim THEN Lim+1 ELSE b * IPow(b,k-1)
VPow(a,b) == IF b[4] # 0 THEN <<"E">>                 \* exponent must be dimensionless
             ELSE IF b[3] # 1 THEN <<"B">>             \* non-integer exponent: skip
             ELSE IF Abs(b[2]) > 5 THEN <<"B">>
             ELSE IF b[2] >= 0 THEN MkV(IPow(a[2],b[2]), IPow(a[3],b[2]), a[4]*b[2], a[5])
             ELSE IF a[2] = 0 THEN <<"E">> ELSE MkV(IPow(a[3],-b[2]), IPow(a[2],-b[2]), a[4]*b[2], a[5])
RECURSIVE Eval(_)
Eval(t) ==
  IF t = Err THEN <<"E">> ELSE
  CASE t[1] = "leaf" -> (CASE t[2] = "n2" -> <<"v",2,1,0,FALSE>> [] t[2] = "n3" -> <<"v",3,1,0,FALSE>> [] t[2] = "m" -> <<"v",1,1,1,TRUE>>)
    [] t[1] = "un" -> LET a == Eval(t[3]) IN IF a[1] # "v" THEN a ELSE IF t[2] = "-" THEN MkV(-a[2],a[3],a[4],a[5]) ELSE a
    [] t[1] = "bin" -> LET a == Eval(t[3]) b == Eval(t[4]) IN
         IF a[1] = "E" \/ b[1] = "E" THEN <<"E">> ELSE IF a[1] = "B" \/ b[1] = "B" THEN <<"B">> ELSE
         LET q == a[5] \/ b[5]  BareZero(x) == ~x[5] /\ x[2] = 0 IN
         CASE t[2] \in {"*",""} -> MkV(a[2]*b[2], a[3]*b[3], a[4]+b[4], q)
           [] t[2] = "/" -> MkV(a[2]*b[3], a[3]*b[2], a[4]-b[4], q)
           [] t[2] = "//" -> IF a[4] # b[4] \/ b[2] = 0 THEN <<"E">> ELSE MkV((a[2]*b[3]) \div (a[3]*b[2]), 1, 0, q)
           \* a bare zero is accepted by + and - whatever the other operand's units (C03)
           [] t[2] = "+" -> IF a[4] # b[4] THEN (IF BareZero(a) THEN b ELSE IF BareZero(b) THEN a ELSE <<"E">>)
                            ELSE MkV(a[2]*b[3]+b[2]*a[3], a[3]*b[3], a[4], q)
           [] t[2] = "-" -> IF a[4] # b[4] THEN (IF BareZero(a) THEN MkV(-b[2],b[3],b[4],b[5]) ELSE IF BareZero(b) THEN a ELSE <<"E">>)
                            ELSE MkV(a[2]*b[3]-b[2]*a[3], a[3]*b[3], a[4], q)
           [] t[2] = "**" -> VPow(a,b)

ValueOf(ts) == LET t == ParsePy(ts) IN IF t = Err THEN <<"E">> ELSE Eval(t)
=============================================================================
