------------------------------- MODULE Rewrite -------------------------------
(* Unit-rewriting helpers (C15): to_root_units, to_base_units, to_reduced_units,        *)
(* to_compact: post-conditions (declarative) and the library's procedures (operational). *)
EXTENDS Registry

\* ---- same physical quantity ----
SameDim(reg, a, b) == DimDecl(reg, a) = DimDecl(reg, b)
\* magnitude x in units a equals magnitude y in units b
SamePhys(reg, x, a, y, b) == SameDim(reg, a, b) /\ RMul(x, FactorDecl(reg, a)) = RMul(y, FactorDecl(reg, b))

\* ---- to_reduced_units ----
\* units n1, n2 can be merged when their dimensionalities are proportional: dim(n1) = dim(n2) ^ r
Ratio(reg, n1, n2) ==
    LET d1 == DimDecl(reg, Single(n1, One))  d2 == DimDecl(reg, Single(n2, One)) IN
    IF DOMAIN d1 = {} \/ DOMAIN d1 # DOMAIN d2 THEN Zero
    ELSE LET k == CHOOSE x \in DOMAIN d1 : TRUE  r == RDiv(d1[k], d2[k]) IN
         IF \A x \in DOMAIN d1 : d1[x] = RMul(r, d2[x]) THEN r ELSE Zero
Mergeable(reg, uc) == \E n1 \in DOMAIN uc, n2 \in DOMAIN uc : n1 # n2 /\ Ratio(reg, n1, n2) # Zero
Reduced(reg, uc) == ~Mergeable(reg, uc)
\* the library's nested loop: the first unit (in container order) that has a partner is merged into the partner
RECURSIVE ReduceOp(_, _, _)
ReduceOp(reg, uc, order) ==          \* order: sequence of names, the container's iteration order
    LET cands == {i \in 1..Len(order) : order[i] \in DOMAIN uc /\ \E j \in 1..Len(order) :
                        order[j] \in DOMAIN uc /\ order[j] # order[i] /\ Ratio(reg, order[i], order[j]) # Zero} IN
    IF cands = {} THEN uc
    ELSE LET i == CHOOSE x \in cands : \A y \in cands : x <= y
             u1 == order[i]
             js == {j \in 1..Len(order) : order[j] \in DOMAIN uc /\ order[j] # u1 /\ Ratio(reg, u1, order[j]) # Zero}
             u2 == order[CHOOSE x \in js : \A y \in js : x <= y]
             \* power = ratio of dimensionalities dim(u1) = dim(u2) ^ power: u1^e = u2^(e * power)
         IN ReduceOp(reg, Mul(Remove(uc, {u1}), Single(u2, RMul(uc[u1], Ratio(reg, u1, u2)))), order)

\* to_reduced_units: a dimensionless quantity becomes unitless, a single unit is left alone, else the loop
ReducedUnits(reg, uc, order) == IF DimDecl(reg, uc) = Empty THEN Empty
                                ELSE IF Cardinality(DOMAIN uc) = 1 THEN uc ELSE ReduceOp(reg, uc, order)

\* ---- to_compact ----
\* a magnitude is <<mant, k>> = mant * 10^k with 1 <= |mant| < 10 (mant rational)
FloorLog10(m) == m[2]
\* the multiple of three chosen for a unit of exponent p (integer, non-zero): floor(log10|m| / p / 3) * 3 for p > 0,
\* ceil for p < 0
FloorDiv(a, b) == a \div b                      \* TLC's \div floors
CeilDiv(a, b) == -((-a) \div b)
\* (for p < 0:  ceil(L / (3p)) = -floor(L / (3|p|)),  and log10|m| is not an integer off the decade boundaries, where
\*  floor(log10|m| / (3|p|)) = floor(FloorLog10 / (3|p|)))
Power3(m, p) == IF p > 0 THEN FloorDiv(FloorLog10(m), 3 * p) * 3
                ELSE -FloorDiv(FloorLog10(m), 3 * (-p)) * 3
\* bisect_left into the sorted available powers, clamped to the last one when beyond the end
Bisect(powers, x) == LET ge == {i \in 1..Len(powers) : powers[i] >= x} IN
                     IF ge = {} THEN powers[Len(powers)] ELSE powers[CHOOSE i \in ge : \A j \in ge : i <= j]
ChosenPower(m, p, powers) == Bisect(powers, Power3(m, p))
\* exponent of ten of the magnitude after moving `power` decades of prefix onto a unit of exponent p
NewLog10(m, p, power) == FloorLog10(m) - power * p
=============================================================================
