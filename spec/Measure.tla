-------------------------------- MODULE Measure --------------------------------
(* Measurements (C19): a nominal value with a standard deviation, in units.                  *)
(*                                                                                            *)
(* A measurement is [nom, lin, un]: nom the nominal value (exact rational), lin the first     *)
(* order dependence on independent standard variables (lin[v] = d(value)/d(v) * sigma_v), un   *)
(* the units (unit name -> integer exponent).  Its variance is the sum of the squares of lin,  *)
(* so correlated operands (x - x, x / x, (x + y) - y) come out right, as they must with first   *)
(* order propagation.  Plain quantities and bare numbers are measurements with lin = 0.         *)
(*                                                                                            *)
(* Parts: units and conversion (slope scales the deviation, offset moves only the nominal);    *)
(* constructor forms; arithmetic; the textual notations (value of a notation record, the text   *)
(* is rendered by the harness in every spelling); the composition of the rendered forms.        *)
EXTENDS Rat, Sequences, FiniteSets, TLC

\* ---------------------------------------------------------------- units
UnitNames == {"m", "cm", "km", "s", "K", "degC", "degF"}
Fac(u) == CASE u = "m" -> One [] u = "cm" -> <<1, 100>> [] u = "km" -> R(1000) [] u = "s" -> One
            [] u = "K" -> One [] u = "degC" -> One [] u = "degF" -> <<5, 9>>
Off(u) == CASE u = "degC" -> <<5463, 20>> [] u = "degF" -> <<45967, 180>> [] OTHER -> Zero      \* 273.15, 459.67 * 5 / 9
DimOf(u) == CASE u \in {"m", "cm", "km"} -> "L" [] u = "s" -> "T" [] OTHER -> "Th"
Dims == {"L", "T", "Th"}
NoUnits == [u \in UnitNames |-> 0]
U1(u) == [NoUnits EXCEPT ![u] = 1]
Vars == {"a", "b", "c"}
NoLin == [v \in Vars |-> Zero]
RECURSIVE SumOver(_, _)
SumOver(S, f) == IF S = {} THEN 0 ELSE LET x == CHOOSE x \in S : TRUE IN f[x] + SumOver(S \ {x}, f)
RECURSIVE RSumSq(_, _)
RSumSq(S, f) == IF S = {} THEN Zero ELSE LET x == CHOOSE x \in S : TRUE IN RAdd(RMul(f[x], f[x]), RSumSq(S \ {x}, f))
Variance(m) == RSumSq(Vars, m.lin)
DimExp(un, d) == SumOver({u \in UnitNames : DimOf(u) = d}, un)
SameDim(x, y) == \A d \in Dims : DimExp(x.un, d) = DimExp(y.un, d)
RECURSIVE FacOf(_, _)
FacOf(S, un) == IF S = {} THEN One ELSE LET u == CHOOSE u \in S : TRUE IN RMul(RPowInt(Fac(u), un[u]), FacOf(S \ {u}, un))
Factor(un) == FacOf({u \in UnitNames : un[u] # 0}, un)              \* value of 1 [un] in root units (multiplicative units)
\* bare: a number without units (not a quantity) - it matters for addition, see AddSub
Meas(v, e, var, u) == [nom |-> v, lin |-> [NoLin EXCEPT ![var] = e], un |-> U1(u), bare |-> FALSE]
Plain(v, u) == [nom |-> v, lin |-> NoLin, un |-> U1(u), bare |-> FALSE]
Bare(v) == [nom |-> v, lin |-> NoLin, un |-> NoUnits, bare |-> TRUE]
Err(k) == [err |-> k]
IsErr(x) == "err" \in DOMAIN x

\* ---------------------------------------------------------------- conversion
\* a measurement in a single unit to another single unit: the nominal value converts like a plain quantity (offsets included),
\* the deviation is scaled by the slope of that conversion
ConvertTo(m, u0, u1) ==
    IF DimOf(u0) # DimOf(u1) THEN Err("dimerr")
    ELSE LET slope == RDiv(Fac(u0), Fac(u1)) IN
         [nom |-> RDiv(RSub(RAdd(RMul(m.nom, Fac(u0)), Off(u0)), Off(u1)), Fac(u1)),
          lin |-> [v \in Vars |-> RMul(m.lin[v], slope)], un |-> U1(u1), bare |-> FALSE]
\* multiplicative containers: y expressed in the units of x
InUnitsOf(y, x) == LET k == RDiv(Factor(y.un), Factor(x.un)) IN [nom |-> RMul(y.nom, k), lin |-> [v \in Vars |-> RMul(y.lin[v], k)], un |-> x.un, bare |-> y.bare]

\* ---------------------------------------------------------------- arithmetic (unit rules of plain quantities, first order propagation)
\* two quantities: the result is in the units of the left one; a quantity and a bare number: the quantity must be dimensionless and is
\* reduced to no units first, whichever side it is on
AddSub(x, y, s) ==
    LET IsBareZero(z) == z.bare /\ RIsZero(z.nom) /\ z.lin = NoLin IN
    IF x.bare # y.bare /\ IsBareZero(IF x.bare THEN x ELSE y)
    THEN \* adding or subtracting a bare zero is allowed for every quantity, which keeps its units
         IF y.bare THEN x ELSE [nom |-> RMul(R(s), y.nom), lin |-> [v \in Vars |-> RMul(R(s), y.lin[v])], un |-> y.un, bare |-> FALSE]
    ELSE IF ~SameDim(x, y) THEN Err("dimerr")
    ELSE LET ref == IF x.bare # y.bare THEN [x EXCEPT !.un = NoUnits] ELSE x
             x2 == InUnitsOf(x, ref)   y2 == InUnitsOf(y, ref) IN
         [nom |-> RAdd(x2.nom, RMul(R(s), y2.nom)), lin |-> [v \in Vars |-> RAdd(x2.lin[v], RMul(R(s), y2.lin[v]))], un |-> ref.un,
          bare |-> x.bare /\ y.bare]
Mul(x, y) == [nom |-> RMul(x.nom, y.nom), lin |-> [v \in Vars |-> RAdd(RMul(x.lin[v], y.nom), RMul(x.nom, y.lin[v]))],
              un |-> [u \in UnitNames |-> x.un[u] + y.un[u]], bare |-> x.bare /\ y.bare]
Div(x, y) == IF RIsZero(y.nom) THEN Err("zerodiv")
             ELSE [nom |-> RDiv(x.nom, y.nom),
                   lin |-> [v \in Vars |-> RSub(RDiv(x.lin[v], y.nom), RDiv(RMul(x.nom, y.lin[v]), RMul(y.nom, y.nom)))],
                   un |-> [u \in UnitNames |-> x.un[u] - y.un[u]], bare |-> x.bare /\ y.bare]
Pow2(x) == [nom |-> RMul(x.nom, x.nom), lin |-> [v \in Vars |-> RMul(R(2), RMul(x.nom, x.lin[v]))], un |-> [u \in UnitNames |-> 2 * x.un[u]], bare |-> x.bare]
Apply(op, x, y) == IF IsErr(x) THEN x ELSE IF IsErr(y) THEN y
                   ELSE CASE op = "+" -> AddSub(x, y, 1) [] op = "-" -> AddSub(x, y, -1) [] op = "*" -> Mul(x, y) [] op = "/" -> Div(x, y)
\* what the harness compares: nominal, the dependence on each variable (the variance is the sum of their squares), units (or the error kind)
Obs(m) == IF IsErr(m) THEN [k |-> m.err, nom |-> Zero, lin |-> NoLin, un |-> NoUnits, bare |-> FALSE] ELSE [k |-> "ok", nom |-> m.nom, lin |-> m.lin, un |-> m.un, bare |-> m.bare]

\* ---------------------------------------------------------------- constructor forms
\* value v, error e (absolute, in the unit of the value unless stated), single unit u
Forms == {"quantity-pair",            \* Measurement(Q(v, u), Q(e', u')) : the error given in another unit of the same dimension
          "numbers-unit",             \* Measurement(v, e, u)
          "quantity-number",          \* Measurement(Q(v, u), e)
          "ufloat-unit",              \* Measurement(ufloat(v, e), u)
          "plus-minus",               \* Q(v, u).plus_minus(e)
          "plus-minus-quantity",      \* Q(v, u).plus_minus(Q(e', u'))
          "plus-minus-relative"}      \* Q(v, u).plus_minus(e / |v|, relative=True)
Construct(form, v, e, u) == IF RSign(e) < 0 THEN Err("valueerr") ELSE Meas(v, e, "a", u)
\* accessors
ValueOf(m) == m.nom
ErrorOf(m) == LET S == {v \in Vars : ~RIsZero(m.lin[v])} IN IF S = {} THEN Zero ELSE RAbs(m.lin[CHOOSE v \in S : TRUE])     \* single-variable measurements
RelOf(m) == RDiv(ErrorOf(m), RAbs(m.nom))

\* ---------------------------------------------------------------- textual notations
\* A notation is a record:
\*   form   "pm"      v +/- e                 (no parentheses, no exponent)
\*          "ppm"     (v +/- e) [exponent]
\*          "short"   v(d) [exponent]         d: digits aligned with the last digits of v
\*          "short-dot" v(e) [exponent]       e written with its own decimal point
\*   neg    a leading minus sign (inside the parentheses for "ppm")
\*   nom    <<digits, decimals>> : 1.234 is <<1234, 3>>, 8.0 is <<80, 1>>, 12 is <<12, 0>>
\*   unc    <<digits, decimals>> (for "short": decimals is ignored - the digits take the decimals of nom)
\*   exp    an integer exponent of ten applying to both numbers, or NoExp
\*   mult   an integer the measurement is multiplied by in front ("2 * ..."), 1 for none
\*   tail   "" or "**2" : the measurement squared
\*   unit   "" or "m"
NoExp == 99
Dec(p) == RDiv(R(p[1]), RPowNat(R(10), p[2]))
NotationValue(n) ==
    LET scale == IF n.exp = NoExp THEN One ELSE RPowInt(R(10), n.exp)
        v == RMul(RMul(R(IF n.neg THEN -1 ELSE 1), Dec(n.nom)), scale)
        e == RMul(IF n.form = "short" THEN RDiv(R(n.unc[1]), RPowNat(R(10), n.nom[2])) ELSE Dec(n.unc), scale)
        m == [nom |-> v, lin |-> [NoLin EXCEPT !["a"] = e], un |-> IF n.unit = "" THEN NoUnits ELSE U1(n.unit), bare |-> n.unit = ""]
        sq == IF n.tail = "**2" THEN [Pow2(m) EXCEPT !.un = m.un] ELSE m          \* "(v +/- e)**2 m": the unit is a factor after the power
    IN  Mul(Bare(R(n.mult)), sq)
WellFormedNotation(n) == /\ (n.form = "pm" => n.exp = NoExp /\ n.tail = "")
                         /\ (n.form = "short" => n.unc[2] = 0)

\* ---------------------------------------------------------------- rendering: how the pieces are put together
\* The number pieces (NOM, ERR, ERRDIGITS, EXP as a signed integer) come from the magnitude; the unit text from the unit formatter.
\* shape: "plain" v+/-e, "exp" (v+/-e)e+XX, "short" v(d), "short-exp" v(d)e+XX
Flags == {"D", "C", "P", "H"}
PmOf(f) == CASE f = "D" -> " +/- " [] f = "C" -> "+/-" [] f = "P" -> " <pm> " [] f = "H" -> " &plusmn; "
\* (TLC prints ASCII only: "<pm>" stands for the plus-minus sign U+00B1, "<x>" for the multiplication sign U+00D7)
\* exponent part: a sequence of pieces; "EXP2" = sign and at least two digits (e+05), "EXPSUP" = unicode superscript integer, "EXPINT" = plain integer
ExpOf(f) == CASE f \in {"D", "C"} -> <<"e", "EXP2">> [] f = "P" -> <<"<x>10", "EXPSUP">> [] f = "H" -> <<"<x>10<sup>", "EXPINT", "</sup>">>
Rendered(f, shape) ==
    CASE shape = "plain"     -> <<"(", "NOM", PmOf(f), "ERR", ")", " ", "UNIT">>
      [] shape = "exp"       -> <<"(", "NOM", PmOf(f), "ERR", ")">> \o ExpOf(f) \o <<" ", "UNIT">>
      [] shape = "short"     -> <<"NOM", "(", "ERRDIGITS", ")", " ", "UNIT">>
      [] shape = "short-exp" -> <<"(", "NOM", "(", "ERRDIGITS", ")">> \o ExpOf(f) \o <<")", " ", "UNIT">>
=============================================================================
