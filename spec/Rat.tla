-------------------------------- MODULE Rat --------------------------------
(* Exact rational arithmetic on pairs <<n, d>> with d > 0 and gcd(|n|, d) = 1.       *)
(* TLC integers are 32 bit: callers keep numerators and denominators small; TLC      *)
(* aborts on overflow, which the harness reports as a machinery failure.              *)
EXTENDS Integers

RECURSIVE Gcd(_, _)
Gcd(a, b) == IF b = 0 THEN a ELSE Gcd(b, a % b)
Abs(x) == IF x < 0 THEN -x ELSE x

IsRat(q) == /\ q \in Int \X Int /\ q[2] > 0 /\ Gcd(Abs(q[1]), q[2]) = 1

Norm(n, d) ==                       \* d # 0
    LET g == Gcd(Abs(n), Abs(d))
        s == IF d < 0 THEN -1 ELSE 1
    IN  <<s * (n \div g), s * (d \div g)>>

R(n)        == <<n, 1>>             \* integer as rational
Zero        == <<0, 1>>
One         == <<1, 1>>
Half        == <<1, 2>>
RIsZero(a)  == a[1] = 0
RIsInt(a)   == a[2] = 1
RNeg(a)     == <<-a[1], a[2]>>
RAdd(a, b)  == LET g == Gcd(a[2], b[2]) IN                          \* over the least common denominator
               Norm(a[1] * (b[2] \div g) + b[1] * (a[2] \div g), (a[2] \div g) * b[2])
RSub(a, b)  == RAdd(a, RNeg(b))
RMul(a, b)  == LET g1 == Gcd(Abs(a[1]), b[2])  g2 == Gcd(Abs(b[1]), a[2]) IN    \* cross-cancel first: small intermediates
               Norm((a[1] \div g1) * (b[1] \div g2), (a[2] \div g2) * (b[2] \div g1))
RInv(a)     == Norm(a[2], a[1])     \* a # 0
RDiv(a, b)  == RMul(a, RInv(b))
RLt(a, b)   == RSub(a, b)[1] < 0        \* through the (cross-cancelling) difference: small intermediates
RLe(a, b)   == RSub(a, b)[1] <= 0
RAbs(a)     == <<Abs(a[1]), a[2]>>
RSign(a)    == IF a[1] < 0 THEN -1 ELSE IF a[1] = 0 THEN 0 ELSE 1
RFloor(a)   == a[1] \div a[2]       \* TLC's \div floors towards minus infinity
RMod(a, b)  == RSub(a, RMul(R(RFloor(RDiv(a, b))), b))     \* Python's %: sign of b

RECURSIVE RPowNat(_, _)
RPowNat(a, k) == IF k = 0 THEN One ELSE RMul(a, RPowNat(a, k - 1))
RPowInt(a, k) == IF k >= 0 THEN RPowNat(a, k) ELSE RPowNat(RInv(a), -k)
=============================================================================
