------------------------------ MODULE Registry ------------------------------
(* Definition tables and the two expansions every conversion rests on:                *)
(*   Dim(uc)  - exponents over base dimensions        (C01)                           *)
(*   Root(uc) - <<factor, container over base units>>  (C02)                          *)
(* A registry is a record                                                              *)
(*   [ units  : name -> [base : BOOLEAN, scale : Rat, ref : container],               *)
(*     ddims  : derived-dimension name -> container over dimension names ]            *)
(* For a base unit `ref` is its dimension container (possibly empty: radian, bit,      *)
(* count); for a derived unit it is a container over unit names.  Dimension names      *)
(* start with "[" in pint; here they are the members of DimNames.                      *)
EXTENDS UnitAlgebra

CONSTANT DimNames            \* all dimension names, base and derived

IsDimName(n) == n \in DimNames

\* ------------------------------------------------------------------ declarative
RECURSIVE ExpandDims(_, _)          \* container over dimension names -> base dimensions only
ExpandDims(reg, c) ==
    IF DOMAIN c = {} THEN Empty
    ELSE LET n == CHOOSE x \in DOMAIN c : TRUE
             rest == Remove(c, {n})
             one == IF n \in DOMAIN reg.ddims THEN Pow(ExpandDims(reg, reg.ddims[n]), c[n])
                    ELSE Single(n, c[n])
         IN Mul(one, ExpandDims(reg, rest))

RECURSIVE DimOfUnit(_, _), DimDecl(_, _)
DimOfUnit(reg, u) ==
    LET d == reg.units[u] IN
    IF d.base THEN ExpandDims(reg, d.ref) ELSE DimDecl(reg, d.ref)
DimDecl(reg, uc) ==                 \* uc may mix unit names and dimension names
    IF DOMAIN uc = {} THEN Empty
    ELSE LET n == CHOOSE x \in DOMAIN uc : TRUE
             one == IF IsDimName(n) THEN ExpandDims(reg, Single(n, uc[n]))
                    ELSE Pow(DimOfUnit(reg, n), uc[n])
         IN Mul(one, DimDecl(reg, Remove(uc, {n})))

Convertible(reg, a, b) == DimDecl(reg, a) = DimDecl(reg, b)

\* rational power: defined for integer exponents, and for any exponent when the base is 1
PowOK(a, e) == RIsInt(e) \/ a = One
RPowR(a, e) == IF a = One THEN One ELSE RPowInt(a, e[1])

RECURSIVE FactorOfUnit(_, _), RootUnitsOfUnit(_, _), FactorDecl(_, _), RootUnitsDecl(_, _), Exact(_, _)
FactorOfUnit(reg, u) == LET d == reg.units[u] IN
    IF d.base THEN One ELSE RMul(d.scale, FactorDecl(reg, d.ref))
FactorDecl(reg, uc) ==
    IF DOMAIN uc = {} THEN One
    ELSE LET n == CHOOSE x \in DOMAIN uc : TRUE
         IN RMul(RPowR(FactorOfUnit(reg, n), uc[n]), FactorDecl(reg, Remove(uc, {n})))
RootUnitsOfUnit(reg, u) == LET d == reg.units[u] IN
    IF d.base THEN Single(u, One) ELSE RootUnitsDecl(reg, d.ref)
RootUnitsDecl(reg, uc) ==
    IF DOMAIN uc = {} THEN Empty
    ELSE LET n == CHOOSE x \in DOMAIN uc : TRUE
         IN Mul(Pow(RootUnitsOfUnit(reg, n), uc[n]), RootUnitsDecl(reg, Remove(uc, {n})))
\* the factor is a rational exactly when no non-trivial factor meets a fractional exponent
Exact(reg, uc) == \A n \in DOMAIN uc : PowOK(FactorOfUnit(reg, n), uc[n])
                                       /\ (reg.units[n].base \/ Exact(reg, reg.units[n].ref))
RootDecl(reg, uc) == <<FactorDecl(reg, uc), RootUnitsDecl(reg, uc)>>
FactorAB(reg, a, b) == FactorDecl(reg, Div(a, b))           \* as _get_conversion_factor: root(src / dst)
Convert(reg, x, a, b) == RMul(x, FactorAB(reg, a, b))

\* ------------------------------------------------------------------ operational
\* _get_dimensionality_recurse(ref, exp, accumulator): accumulator is a raw function over
\* base dimension names (zeros kept until the end, "[]" dropped at the end).
RECURSIVE DimRec(_, _, _, _, _)
DimRec(reg, ref, exp, acc, todo) ==
    IF todo = {} THEN acc
    ELSE LET key == CHOOSE x \in todo : TRUE
             exp2 == RMul(exp, ref[key])
             acc2 == IF IsDimName(key)
                     THEN IF key \in DOMAIN reg.ddims
                          THEN DimRec(reg, reg.ddims[key], exp2, acc, DOMAIN reg.ddims[key])
                          ELSE [n \in DOMAIN acc \cup {key} |->
                                   IF n = key THEN RAdd(IF key \in DOMAIN acc THEN acc[key] ELSE Zero, exp2)
                                   ELSE acc[n]]
                     ELSE DimRec(reg, reg.units[key].ref, exp2, acc, DOMAIN reg.units[key].ref)
         IN DimRec(reg, ref, exp, acc2, todo \ {key})
DimOp(reg, uc) == LET acc == DimRec(reg, uc, One, Empty, DOMAIN uc)
                  IN Canon(acc, DOMAIN acc)

\* _get_root_units_recurse(ref, exp, accumulators): accumulators[None] is the factor
RECURSIVE RootRec(_, _, _, _, _)
RootRec(reg, ref, exp, acc, todo) ==          \* acc = [f |-> Rat, u |-> raw function over base units]
    IF todo = {} THEN acc
    ELSE LET key == CHOOSE x \in todo : TRUE
             exp2 == RMul(exp, ref[key])
             d == reg.units[key]
             acc2 == IF d.base
                     THEN [acc EXCEPT !.u = [n \in DOMAIN acc.u \cup {key} |->
                              IF n = key THEN RAdd(IF key \in DOMAIN acc.u THEN acc.u[key] ELSE Zero, exp2)
                              ELSE acc.u[n]]]
                     ELSE RootRec(reg, d.ref, exp2, [acc EXCEPT !.f = RMul(@, RPowR(d.scale, exp2))], DOMAIN d.ref)
         IN RootRec(reg, ref, exp, acc2, todo \ {key})
RootOp(reg, uc) == LET acc == RootRec(reg, uc, One, [f |-> One, u |-> Empty], DOMAIN uc)
                   IN <<acc.f, Canon(acc.u, DOMAIN acc.u)>>
\* the operational recursion raises scale to exp2 at each level; exact iff every such power is
RECURSIVE ExactOp(_, _, _)
ExactOp(reg, ref, exp) == \A key \in DOMAIN ref :
    LET exp2 == RMul(exp, ref[key])  d == reg.units[key] IN
    d.base \/ (PowOK(d.scale, exp2) /\ ExactOp(reg, d.ref, exp2))
\* stricter: no fractional exponent anywhere on the way down.  pint evaluates  scale ** exponent  in Python
\* numbers, and Fraction(1) ** Fraction(1, 2) is the float 1.0 (already when a definition such as
\* "q = a ** 0.5" is parsed): the named deviation "trivial scale under a fractional power loses the exact type".
RECURSIVE ExactStrict(_, _, _)
ExactStrict(reg, ref, exp) == \A key \in DOMAIN ref :
    LET d == reg.units[key] IN
    RIsInt(ref[key]) /\ (d.base \/ ExactStrict(reg, d.ref, exp))
=============================================================================
