------------------------------- MODULE DefFile -------------------------------
(* Definition files as sequences of abstract lines (C10) and their meaning.            *)
(*   [k |-> "prefix", name, value]            k- = 20                                   *)
(*   [k |-> "base", name, dim]                a = [A]        (dim "" : dimensionless)    *)
(*   [k |-> "ddim", name, ref]                [C] = [A] / [B]                            *)
(*   [k |-> "unit", name, scale, ref, sym, alias]   c = 2 * a = csym = calias             *)
(*   [k |-> "alias", of, name]                @alias c = c2                              *)
(*   [k |-> "context", name, param, default, src, dst, coef]   @context(p=3/2) ctx ... @end *)
(*   [k |-> "comment"], [k |-> "blank"]       no meaning                                 *)
(*   [k |-> "bad", why]                       an ill-formed line (several kinds)          *)
(* Load is a fold of per-kind adders into the tables of Registry.tla plus a spelling      *)
(* table; references are resolved when a question is asked, not when a line is read,      *)
(* which is why the order of unit and prefix lines cannot matter.                         *)
EXTENDS Registry

EmptyTables == [units |-> <<>>, ddims |-> <<>>, prefixes |-> <<>>, spell |-> <<>>, sym |-> <<>>, ctxs |-> <<>>]
Ext(f, k, v) == [x \in DOMAIN f \cup {k} |-> IF x = k THEN v ELSE f[x]]
AddLine(t, ln) ==
    CASE ln.k = "prefix" -> [t EXCEPT !.prefixes = Ext(@, ln.name, ln.value)]
      [] ln.k = "base" -> [t EXCEPT !.units = Ext(@, ln.name, [base |-> TRUE, scale |-> One,
                                                              ref |-> IF ln.dim = "" THEN Empty ELSE Single(ln.dim, One)]),
                                    !.spell = Ext(@, ln.name, ln.name)]
      [] ln.k = "ddim" -> [t EXCEPT !.ddims = Ext(@, ln.name, ln.ref)]
      [] ln.k = "unit" -> [t EXCEPT !.units = Ext(@, ln.name, [base |-> FALSE, scale |-> ln.scale, ref |-> ln.ref]),
                                    !.spell = Ext(Ext(Ext(@, ln.name, ln.name), ln.sym, ln.name), ln.alias, ln.name),
                                    !.sym = Ext(@, ln.name, ln.sym)]
      [] ln.k = "alias" -> [t EXCEPT !.spell = Ext(@, ln.name, ln.of)]
      [] ln.k = "context" -> [t EXCEPT !.ctxs = Ext(@, ln.name, [default |-> ln.default, src |-> ln.src, dst |-> ln.dst, coef |-> ln.coef])]
      [] OTHER -> t                                      \* comments and blank lines mean nothing
RECURSIVE LoadFrom(_, _)
LoadFrom(t, lines) == IF lines = <<>> THEN t ELSE LoadFrom(AddLine(t, Head(lines)), Tail(lines))
Load(lines) == LoadFrom(EmptyTables, lines)

\* ---- well-formedness ----
Defined(lines) == {lines[i].name : i \in {i \in 1..Len(lines) : lines[i].k \in {"base", "unit"}}}
RefsOf(lines, n) == UNION {DOMAIN lines[i].ref : i \in {i \in 1..Len(lines) : lines[i].k = "unit" /\ lines[i].name = n}}
RECURSIVE ReachFrom(_, _, _)
ReachFrom(lines, front, seen) == LET nxt == (UNION {RefsOf(lines, n) : n \in front}) \ seen IN
                                 IF nxt = {} THEN seen ELSE ReachFrom(lines, nxt, seen \cup nxt)
Cyclic(lines) == \E n \in Defined(lines) : n \in ReachFrom(lines, {n}, {})
Dangling(lines) == \E n \in Defined(lines) : \E r \in RefsOf(lines, n) : r \notin Defined(lines)
HasBadLine(lines) == \E i \in 1..Len(lines) : lines[i].k = "bad"
WellFormedFile(lines) == ~HasBadLine(lines) /\ ~Cyclic(lines) /\ ~Dangling(lines)

\* ---- what a loaded file answers ----
RegOf(t) == [units |-> t.units, ddims |-> t.ddims]
ObsUnit(t, n) == [dim |-> HashKey(DimDecl(RegOf(t), Single(n, One))), f |-> FactorDecl(RegOf(t), Single(n, One)),
                  root |-> HashKey(RootUnitsDecl(RegOf(t), Single(n, One)))]
ObsOfFile(lines) == LET t == Load(lines) IN
    [units |-> [n \in DOMAIN t.units |-> ObsUnit(t, n)], spell |-> t.spell, prefixes |-> t.prefixes, sym |-> t.sym,
     \* derived dimensions reduced to base dimensions (also through other derived dimensions with exponents)
     ddims |-> [d \in DOMAIN t.ddims |-> HashKey(ExpandDims(RegOf(t), Single(d, One)))],
     \* a context rule  src -> dst : coef * value * p  with its declared default: 3 [base of src] converts to
     ctxs |-> [c \in DOMAIN t.ctxs |-> RMul(R(3), RMul(t.ctxs[c].coef, t.ctxs[c].default))]]
=============================================================================
