------------------------------- MODULE LinAlg -------------------------------
(* Small exact linear algebra over rationals (matrices = sequences of rows) used by   *)
(* the Buckingham-pi clause of C04 and by rule inversion in Systems.                   *)
EXTENDS Rat, Sequences, FiniteSets

RowScaleSub(r, p, f) == [j \in 1..Len(r) |-> RSub(r[j], RMul(f, p[j]))]      \* r - f * p
DropFirst(rows) == [i \in 1..Len(rows) |-> Tail(rows[i])]
RemoveAt(s, p) == [i \in 1..(Len(s) - 1) |-> IF i < p THEN s[i] ELSE s[i + 1]]

RECURSIVE Rank(_)
Rank(rows) ==
    IF rows = <<>> THEN 0
    ELSE IF Len(rows[1]) = 0 THEN 0
    ELSE LET piv == {i \in 1..Len(rows) : ~RIsZero(rows[i][1])} IN
         IF piv = {} THEN Rank(DropFirst(rows))
         ELSE LET p == CHOOSE i \in piv : \A q \in piv : i <= q
                  prow == rows[p]
                  rest == RemoveAt(rows, p)
                  elim == [i \in 1..Len(rest) |-> RowScaleSub(rest[i], prow, RDiv(rest[i][1], prow[1]))]
              IN 1 + Rank(DropFirst(elim))

RECURSIVE Dot(_, _)
Dot(a, b) == IF a = <<>> THEN Zero ELSE RAdd(RMul(a[1], b[1]), Dot(Tail(a), Tail(b)))
Column(m, j) == [i \in 1..Len(m) |-> m[i][j]]
\* v (length n) times M (n rows, d columns) = row vector of length d
VecMat(v, m) == [j \in 1..Len(m[1]) |-> Dot(v, Column(m, j))]
IsZeroVec(v) == \A j \in 1..Len(v) : RIsZero(v[j])

\* vs is a basis of the left null space of m (the dimensionless monomials of n quantities whose
\* dimension exponents are the rows of m)
IsNullBasis(vs, m) ==
    /\ \A i \in 1..Len(vs) : IsZeroVec(VecMat(vs[i], m))
    /\ Rank(vs) = Len(vs)
    /\ Len(vs) = Len(m) - Rank(m)
=============================================================================
