-------------------------------- MODULE Wraps --------------------------------
(* ureg.wraps / ureg.check (C17): what a decorated function receives.                 *)
(* A case is: the declared argument specification (one entry per parameter), the       *)
(* arguments of the call (one per parameter, bound *by name*: positional prefix,        *)
(* keywords in any order, defaults), strict or not.  Entries:                            *)
(*   "m" "cm" "s"   convert to that unit and hand over the magnitude                     *)
(*   "none"         hand over unchanged                                                   *)
(*   "defA"         '=A' : first lone first-power occurrence defines A as the units of    *)
(*                  this argument; the magnitude is handed over                            *)
(*   "depA"  "depA2"   '=A' again / '=A**2' : convert to A's units (squared)               *)
(* Arguments: quantities <<mag, unit>> over m, cm (1/100 m), s, or bare numbers            *)
(* <<mag, "">>.  Results per parameter: <<"mag", x>> (a bare magnitude), <<"q", x, u>>     *)
(* (an untouched quantity) or an error kind.                                               *)
EXTENDS Rat, Sequences, FiniteSets, TLC

Factor(u) == CASE u = "m" -> One [] u = "cm" -> <<1, 100>> [] u = "s" -> One [] u = "" -> One
DimOfU(u) == CASE u \in {"m", "cm"} -> "L" [] u = "s" -> "T" [] u = "" -> ""
IsBare(a) == a[2] = ""
\* convert magnitude x from unit u to unit v raised to power e (e in {1, 2}); source must have the same dimension power
ConvTo(a, v, e) ==
    IF e = 1 THEN (IF DimOfU(a[2]) # DimOfU(v) THEN <<"dimerr">> ELSE <<"mag", RMul(a[1], RDiv(Factor(a[2]), Factor(v)))>>)
    ELSE \* target v ** 2: only a dimensionless v keeps a single-unit argument convertible
         IF DimOfU(v) = "" /\ DimOfU(a[2]) = "" THEN <<"mag", a[1]>> ELSE <<"dimerr">>

\* ---- declarative: binding by parameter name ----
DefIndex(specs) == LET ds == {i \in 1..Len(specs) : specs[i] = "defA"} IN IF ds = {} THEN 0 ELSE CHOOSE i \in ds : \A j \in ds : i <= j
IsDependent(specs, i) == specs[i] \in {"depA", "depA2"} \/ (specs[i] = "defA" /\ i # DefIndex(specs))
AUnits(specs, args) == IF DefIndex(specs) = 0 THEN "" ELSE args[DefIndex(specs)][2]
Received(specs, args, strict, i) ==
    LET sp == specs[i]  a == args[i] IN
    CASE sp = "none" -> IF IsBare(a) THEN <<"mag", a[1]>> ELSE <<"q", a[1], a[2]>>
      [] sp \in {"m", "cm", "s"} ->
            IF IsBare(a) THEN (IF strict THEN <<"valueerr">> ELSE <<"mag", a[1]>>) ELSE ConvTo(a, sp, 1)
      [] sp = "defA" /\ i = DefIndex(specs) -> <<"mag", a[1]>>
      [] IsDependent(specs, i) -> ConvTo(a, AUnits(specs, args), IF sp = "depA2" THEN 2 ELSE 1)
\* a dependent entry without any definition is rejected when the function is decorated
DecorationOK(specs) == (\E i \in 1..Len(specs) : specs[i] \in {"depA", "depA2"}) => DefIndex(specs) # 0
Errors(specs, args, strict) == {Received(specs, args, strict, i)[1] : i \in 1..Len(specs)} \cap {"dimerr", "valueerr"}
Outcome(specs, args, strict) ==
    IF ~DecorationOK(specs) THEN [k |-> "decoration-error", errs |-> {}, recv |-> <<>>]
    ELSE IF Errors(specs, args, strict) # {} THEN [k |-> "error", errs |-> Errors(specs, args, strict), recv |-> <<>>]
    ELSE [k |-> "ok", errs |-> {}, recv |-> [i \in 1..Len(specs) |-> Received(specs, args, strict, i)]]

\* ---- operational: _converter's index arithmetic ----
\* values = positional arguments followed by the remaining parameters' keyword / default values *in signature order*
Packed(args, k) == SubSeq(args, 1, k) \o SubSeq(args, k + 1, Len(args))
OpReceived(specs, args, k, strict, i) == Received(specs, Packed(args, k), strict, i)

\* ---- return wrapping ----
\* ret in {"none", "m", "defA", "depA2", <<..>> containers}; the function returns the number 11 (or <<11, 13>>)
RetUnit(r, specs, args) == CASE r = "m" -> <<"m", 1>> [] r = "dimensionless" -> <<"", 1>>
                             [] r = "defA" -> <<AUnits(specs, args), 1>> [] r = "depA2" -> <<AUnits(specs, args), 2>>
Wrap(r, specs, args, x) == IF r = "none" THEN <<"bare", x>> ELSE <<"quantity", x, RetUnit(r, specs, args)>>

\* ---- ureg.check ----
\* dims: one of "L", "T", "" (dimensionless), "none" per parameter; raises exactly when some checked argument's
\* dimensionality differs (a bare number is dimensionless)
CheckRaises(dims, args) == \E i \in 1..Len(dims) : dims[i] # "none" /\ DimOfU(args[i][2]) # dims[i]
=============================================================================
