------------------------------- MODULE Offset -------------------------------
(* Non-multiplicative units (C06): affine converters, automatic delta units,          *)
(* conversion through the reference unit (NonMultiplicativeRegistry._convert), and    *)
(* the decision structure of PlainQuantity._add_sub / _mul_div / __pow__.             *)
(* Units table entries (extending Registry's):                                        *)
(*   [base, scale, ref, offset : Rat, nonmult : BOOLEAN, delta : BOOLEAN, deltaOf]     *)
(*   nonmult = the definition carries an offset modifier (offset may be 0: an         *)
(*   "absolute" unit written with offset: 0 is still non-multiplicative in pint).      *)
(* A quantity is [m |-> Rat, u |-> container, num |-> FALSE]; a bare number has       *)
(* num = TRUE.  Results are records tagged by k:                                       *)
(*   ok(m, u) | bool(b) | pair(q, r) | num(m) | dimerr | offseterr | valueerr | zerodiv *)
(* `ac` is the registry mode autoconvert_offset_to_baseunit.                           *)
EXTENDS Registry

IsMultU(reg, n) == ~reg.units[n].nonmult
NonMult(reg, u) == {n \in DOMAIN u : ~IsMultU(reg, n)}
Deltas(reg, u) == {n \in DOMAIN u : reg.units[n].delta}
IsMult(reg, u) == NonMult(reg, u) = {}
Ok(m, u) == [k |-> "ok", m |-> m, u |-> u]
DimErr == [k |-> "dimerr"]
OffErr == [k |-> "offseterr"]
ValErr == [k |-> "valueerr"]
ZeroDiv == [k |-> "zerodiv"]
Bool(b) == [k |-> "bool", b |-> b]
IsOk(r) == r.k = "ok"

\* _validate_and_extract: <<"none", "">>, <<"one", name>>, or <<"bad", "">>
Extract(reg, ac, u) ==
    LET nm == NonMult(reg, u) IN
    IF nm = {} THEN <<"none", "">>
    ELSE IF Cardinality(nm) > 1 THEN <<"bad", "">>
    ELSE LET n == CHOOSE x \in nm : TRUE IN
         IF u[n] # One THEN <<"bad", "">>
         ELSE IF Cardinality(DOMAIN u) > 1 /\ ~ac THEN <<"bad", "">>
         ELSE <<"one", n>>

\* logarithmic units: [log |-> TRUE, lb = base, lf = factor]:  Q_log = lf * log_lb(Q_lin / scale).  The model is exact
\* on the lattice Q_lin = scale * lb^k (k integer), which is where it is evaluated; off the lattice it answers Irr.
IsLog(reg, n) == "log" \in DOMAIN reg.units[n] /\ reg.units[n].log
Irr == <<0, 0>>                                  \* not a rational the model can name
LogKs == -6..6
ToRef(reg, n, x) ==
    IF IsLog(reg, n) THEN LET d == reg.units[n]  q == RDiv(x, d.lf) IN
         IF RIsInt(q) /\ q[1] \in LogKs THEN RMul(d.scale, RPowInt(d.lb, q[1])) ELSE Irr
    ELSE RAdd(RMul(x, reg.units[n].scale), reg.units[n].offset)
FromRef(reg, n, x) ==
    IF IsLog(reg, n) THEN LET d == reg.units[n]  r == RDiv(x, d.scale)
                              ks == {k \in LogKs : RPowInt(d.lb, k) = r} IN
         IF ks = {} THEN Irr ELSE RMul(d.lf, R(CHOOSE k \in ks : TRUE))
    ELSE RDiv(RSub(x, reg.units[n].offset), reg.units[n].scale)

\* _add_ref_of_log_or_offset_unit: what stands for the non-multiplicative unit n of the container u once the value is in reference
\* units.  A logarithmic unit over a dimensional reference (dBm over mW) is swapped for its reference inside the container, so a
\* compound such as dBm / Hz converts (autoconvert mode); an offset unit, and a logarithmic unit over a pure number, is *replaced* by
\* its reference container - the companions of a compound are dropped, so C * m or dB / Hz do not convert: they are refused.
WithRef(reg, n, u) == IF IsLog(reg, n) /\ reg.units[n].ref # Empty THEN Mul(Remove(u, {n}), reg.units[n].ref) ELSE reg.units[n].ref
\* NonMultiplicativeRegistry._convert
ConvertNM(reg, ac, x, src, dst) ==
    LET es == Extract(reg, ac, src)  ed == Extract(reg, ac, dst) IN
    IF es[1] = "bad" \/ ed[1] = "bad" THEN DimErr
    ELSE IF es[1] = "none" /\ ed[1] = "none"
         THEN IF DimDecl(reg, src) = DimDecl(reg, dst) THEN Ok(RMul(x, FactorAB(reg, src, dst)), dst) ELSE DimErr
    ELSE IF DimDecl(reg, src) # DimDecl(reg, dst) THEN DimErr
    ELSE IF es[1] = "one" /\ Deltas(reg, dst) # {} THEN DimErr
    ELSE LET x1   == IF es[1] = "one" THEN ToRef(reg, es[2], x) ELSE x
             src1 == IF es[1] = "one" THEN WithRef(reg, es[2], src) ELSE src
         IN IF ed[1] = "one" /\ Deltas(reg, src1) # {} THEN DimErr
            ELSE LET dst1 == IF ed[1] = "one" THEN WithRef(reg, ed[2], dst) ELSE dst IN
                 IF DimDecl(reg, src1) # DimDecl(reg, dst1) THEN DimErr
                 ELSE LET
                     x2   == RMul(x1, FactorAB(reg, src1, dst1))
                     x3   == IF ed[1] = "one" THEN FromRef(reg, ed[2], x2) ELSE x2
                 IN Ok(x3, dst)
To(reg, ac, q, dst) == IF q.u = dst THEN Ok(q.m, dst) ELSE ConvertNM(reg, ac, q.m, q.u, dst)
ToRoot(reg, ac, q) == To(reg, ac, q, RootUnitsDecl(reg, q.u))

\* declarative reading of a conversion between two single units of one dimension: through the
\* reference unit by the defining affine maps; delta units by scale only
RefOf(reg, n) == IF reg.units[n].base THEN Single(n, One) ELSE reg.units[n].ref
DeclConvert1(reg, x, a, b) == FromRef(reg, b, RMul(ToRef(reg, a, x), FactorAB(reg, RefOf(reg, a), RefOf(reg, b))))

DeltaName(reg, n) == CHOOSE d \in DOMAIN reg.units : reg.units[d].delta /\ reg.units[d].deltaOf = n
HasCompatibleDelta(reg, q, unit) ==
    \/ \E d \in Deltas(reg, q.u) : reg.units[d].deltaOf = unit
    \/ \E d \in Deltas(reg, q.u) : reg.units[d].ref = reg.units[unit].ref

Apply(op, x, y) == IF op = "add" THEN RAdd(x, y) ELSE RSub(x, y)

\* PlainQuantity._add_sub for two quantities of the same registry: the seven branches
AddSub(reg, ac, a, b, op) ==
    IF DimDecl(reg, a.u) # DimDecl(reg, b.u) THEN DimErr
    ELSE LET na == NonMult(reg, a.u)  nb == NonMult(reg, b.u)
             ua == CHOOSE x \in na : TRUE   ub == CHOOSE x \in nb : TRUE IN
    IF na = {} /\ nb = {} THEN
         IF a.u = b.u THEN Ok(Apply(op, a.m, b.m), a.u)
         ELSE IF Deltas(reg, a.u) # {} /\ Deltas(reg, b.u) = {}
              THEN LET r == To(reg, ac, a, b.u) IN IF IsOk(r) THEN Ok(Apply(op, r.m, b.m), b.u) ELSE r
         ELSE LET r == To(reg, ac, b, a.u) IN IF IsOk(r) THEN Ok(Apply(op, a.m, r.m), a.u) ELSE r
    ELSE IF op = "sub" /\ Cardinality(na) = 1 /\ a.u[ua] = One /\ ~HasCompatibleDelta(reg, b, ua) THEN
         LET r == To(reg, ac, b, a.u) IN
         IF IsOk(r) THEN Ok(RSub(a.m, r.m), Rename(a.u, ua, DeltaName(reg, ua))) ELSE r
    ELSE IF op = "sub" /\ Cardinality(nb) = 1 /\ b.u[ub] = One /\ ~HasCompatibleDelta(reg, a, ub) THEN
         LET r == To(reg, ac, b, a.u) IN IF IsOk(r) THEN Ok(RSub(a.m, r.m), a.u) ELSE r
    ELSE IF Cardinality(na) = 1 /\ a.u[ua] = One /\ HasCompatibleDelta(reg, b, ua) THEN
         LET tu == Rename(a.u, ua, DeltaName(reg, ua))  r == To(reg, ac, b, tu) IN
         IF IsOk(r) THEN Ok(Apply(op, a.m, r.m), a.u) ELSE r
    ELSE IF Cardinality(nb) = 1 /\ b.u[ub] = One /\ HasCompatibleDelta(reg, a, ub) THEN
         LET tu == Rename(b.u, ub, DeltaName(reg, ub))  r == To(reg, ac, a, tu) IN
         IF IsOk(r) THEN Ok(Apply(op, r.m, b.m), b.u) ELSE r
    ELSE OffErr

\* _ok_for_muldiv
OkMulDiv(reg, ac, u) ==
    LET nm == NonMult(reg, u) IN
    IF Cardinality(nm) > 1 THEN FALSE
    ELSE IF Cardinality(nm) = 1 THEN Cardinality(DOMAIN u) = 1 /\ ac /\ u[CHOOSE x \in nm : TRUE] = One
    ELSE TRUE
SoleNonMult(reg, u) == Cardinality(NonMult(reg, u)) = 1 /\ Cardinality(DOMAIN u) = 1
MagOp(op, x, y) == IF op = "mul" THEN RMul(x, y) ELSE RDiv(x, y)
UnitOp(op, u, v) == IF op = "mul" THEN Mul(u, v) ELSE Div(u, v)

\* _mul_div with a quantity operand
MulDivQ(reg, ac, a, b, op) ==
    IF ~OkMulDiv(reg, ac, a.u) THEN OffErr
    ELSE LET a1 == IF SoleNonMult(reg, a.u) THEN ToRoot(reg, ac, a) ELSE Ok(a.m, a.u) IN
    IF ~OkMulDiv(reg, ac, b.u) THEN OffErr
    ELSE LET b1 == IF SoleNonMult(reg, b.u) THEN ToRoot(reg, ac, b) ELSE Ok(b.m, b.u) IN
    IF ~IsOk(a1) THEN a1 ELSE IF ~IsOk(b1) THEN b1
    ELSE IF op = "div" /\ RIsZero(b1.m) THEN ZeroDiv
    ELSE Ok(MagOp(op, a1.m, b1.m), UnitOp(op, a1.u, b1.u))
\* _mul_div with a bare number n on the right
MulDivN(reg, ac, a, n, op) ==
    IF ~OkMulDiv(reg, ac, a.u) THEN OffErr
    ELSE IF Cardinality(NonMult(reg, a.u)) = 1 /\ (a.u[CHOOSE x \in NonMult(reg, a.u) : TRUE] # One \/ op # "mul") THEN OffErr
    ELSE IF op = "div" /\ RIsZero(n) THEN ZeroDiv
    ELSE Ok(MagOp(op, a.m, n), a.u)
\* __rtruediv__: n / a
RDivN(reg, ac, a, n) ==
    IF ~OkMulDiv(reg, ac, a.u) THEN OffErr
    ELSE LET a1 == IF SoleNonMult(reg, a.u) THEN ToRoot(reg, ac, a) ELSE Ok(a.m, a.u) IN
    IF ~IsOk(a1) THEN a1 ELSE IF RIsZero(a1.m) THEN ZeroDiv ELSE Ok(RDiv(n, a1.m), Inv(a1.u))
\* __pow__ with an integer exponent e (rational with denominator 1)
PowInt(reg, ac, a, e) ==
    IF e = One THEN Ok(a.m, a.u)
    ELSE IF RIsZero(e) THEN Ok(One, Empty)
    ELSE LET a1 == IF IsMult(reg, a.u) THEN Ok(a.m, a.u) ELSE IF ac THEN ToRoot(reg, ac, a) ELSE OffErr IN
         IF ~IsOk(a1) THEN a1
         ELSE IF e[1] < 0 /\ RIsZero(a1.m) THEN ZeroDiv
         ELSE Ok(RPowInt(a1.m, e[1]), Pow(a1.u, e))
=============================================================================
