------------------------------ MODULE NumpyPlan ------------------------------
(* Unit plans of NumPy functions on quantity arrays (C16).  For each handled function  *)
(* an independent, hand-written entry - derived from the mathematics, not from the       *)
(* library's tables - says which arguments are made consistent, what the output unit is   *)
(* and when the call is refused.  NumPy itself is an uninterpreted function of the         *)
(* magnitudes; what matters here is the unit bookkeeping:                                   *)
(*   kind      arguments                         output unit                                 *)
(*   same1     x                                 unit(x)                                      *)
(*   cons2     x, y -> y converted to unit(x)    unit(x)           (refused if incompatible)  *)
(*   cmp2      x, y -> y converted to unit(x)    bare                                          *)
(*   mul2      x, y                              unit(x) * unit(y)                             *)
(*   div2      x, y                              unit(x) / unit(y)                             *)
(*   pow1(n/d) x                                 unit(x) ** (n/d)   (square, var, sqrt, cbrt, reciprocal) *)
(*   trig      x converted to radian             dimensionless      (refused unless an angle / dimensionless) *)
(*   itrig     x converted to dimensionless      radian             (refused unless dimensionless) *)
(*   dimless   x converted to dimensionless      dimensionless      (exp, log ...)              *)
(*   bare1     x                                 bare               (predicates, indices, shape)  *)
(* Units: [f |-> factor to root, d |-> dimension name].  Homogeneity: a function of kind k    *)
(* scales with degree Deg(k) in each argument, which is what makes the result independent of   *)
(* the units the inputs are expressed in.                                                       *)
EXTENDS Rat, Sequences, FiniteSets, TLC

Units == [m |-> [f |-> One, d |-> "L"], cm |-> [f |-> <<1, 100>>, d |-> "L"], s |-> [f |-> One, d |-> "T"],
          ms |-> [f |-> <<1, 1000>>, d |-> "T"], rad |-> [f |-> One, d |-> ""], turn4 |-> [f |-> <<1, 4>>, d |-> ""],
          none |-> [f |-> One, d |-> ""], pct |-> [f |-> <<1, 100>>, d |-> ""]]
\* (turn4: a quarter-turn-like angle unit with a rational factor stands for degree; none: the empty unit)
UnitNames == DOMAIN Units
Compatible(u, v) == Units[u].d = Units[v].d
Funcs == [sum |-> "same1", mean |-> "same1", max |-> "same1", cumsum |-> "same1", sort |-> "same1", negative |-> "same1", absolute |-> "same1",
          median |-> "same1", ptp |-> "same1", diff |-> "same1", std |-> "same1",
          amax |-> "same1", amin |-> "same1", min |-> "same1", nanmax |-> "same1", nanmin |-> "same1", nansum |-> "same1", nanmean |-> "same1",
          nanmedian |-> "same1", nancumsum |-> "same1", around |-> "same1", rint |-> "same1", floor |-> "same1", ceil |-> "same1", trunc |-> "same1",
          fabs |-> "same1", squeeze |-> "same1", ravel |-> "same1", flip |-> "same1", transpose |-> "same1", nanstd |-> "same1", average |-> "same1",
          conjugate |-> "same1", positive |-> "same1", ediff1d |-> "same1", copy |-> "same1",
          not_equal |-> "cmp2", less_equal |-> "cmp2", greater_equal |-> "cmp2",
          matmul |-> "mul2",
          nanvar |-> "pow2",
          arccos |-> "itrig", arcsinh |-> "itrig", arctanh |-> "itrig",
          sinh |-> "trig", cosh |-> "trig", tanh |-> "trig",
          exp2 |-> "dimless", log2 |-> "dimless", log1p |-> "dimless",
          isinf |-> "bare1", isreal |-> "bare1", iscomplex |-> "bare1", signbit |-> "bare1", argmin |-> "bare1", size |-> "bare1", ndim |-> "bare1",
          add |-> "cons2", subtract |-> "cons2", maximum |-> "cons2", minimum |-> "cons2", hypot |-> "cons2", where |-> "cons2", append |-> "cons2",
          concatenate |-> "cons2", copysign |-> "cons2", nextafter |-> "cons2",
          less |-> "cmp2", greater |-> "cmp2", equal |-> "cmp2", isclose |-> "cmp2", allclose |-> "cmp2",
          multiply |-> "mul2", dot |-> "mul2", cross |-> "mul2",
          divide |-> "div2", true_divide |-> "div2",
          square |-> "pow2", var |-> "pow2", sqrt |-> "pow1_2", cbrt |-> "pow1_3", reciprocal |-> "pow-1",
          sin |-> "trig", cos |-> "trig", tan |-> "trig", arcsin |-> "itrig", arctan |-> "itrig",
          exp |-> "dimless", log |-> "dimless", log10 |-> "dimless", expm1 |-> "dimless",
          isnan |-> "bare1", isfinite |-> "bare1", argmax |-> "bare1", argsort |-> "bare1", shape |-> "bare1", sign |-> "bare1", count_nonzero |-> "bare1"]
Arity(k) == IF k \in {"cons2", "cmp2", "mul2", "div2"} THEN 2 ELSE 1
PowOf(k) == CASE k = "pow2" -> R(2) [] k = "pow1_2" -> <<1, 2>> [] k = "pow1_3" -> <<1, 3>> [] k = "pow-1" -> R(-1)
\* the plan: <<"ok", unit each argument is converted to ("" = left alone), output unit as <<unit name or "bare"/"expr", exponent map>> >> or <<"dimerr">>
Out(u, e) == <<"unit", u, e>>                  \* unit u raised to rational e
Plan(k, u1, u2) ==
    CASE k = "same1" -> <<"ok", <<"", "">>, Out(u1, One), Out("none", One)>>
      [] k = "cons2" -> IF Compatible(u1, u2) THEN <<"ok", <<"", u1>>, Out(u1, One), Out("none", One)>> ELSE <<"dimerr">>
      [] k = "cmp2" -> IF Compatible(u1, u2) THEN <<"ok", <<"", u1>>, <<"bare">>, <<"bare">>>> ELSE <<"dimerr">>
      [] k = "mul2" -> <<"ok", <<"", "">>, Out(u1, One), Out(u2, One)>>
      [] k = "div2" -> <<"ok", <<"", "">>, Out(u1, One), Out(u2, R(-1))>>
      [] k \in {"pow2", "pow1_2", "pow1_3", "pow-1"} -> <<"ok", <<"", "">>, Out(u1, PowOf(k)), Out("none", One)>>
      [] k = "trig" -> IF Units[u1].d = "" THEN <<"ok", <<"rad", "">>, <<"dimensionless">>, <<"dimensionless">>>> ELSE <<"dimerr">>
      [] k = "itrig" -> IF Units[u1].d = "" THEN <<"ok", <<"none", "">>, Out("rad", One), Out("none", One)>> ELSE <<"dimerr">>
      [] k = "dimless" -> IF Units[u1].d = "" THEN <<"ok", <<"none", "">>, <<"dimensionless">>, <<"dimensionless">>>> ELSE <<"dimerr">>
      [] k = "bare1" -> <<"ok", <<"", "">>, <<"bare">>, <<"bare">>>>
\* degree of homogeneity of the numerical function in its (converted) arguments, for the kinds that carry a unit
Deg(k) == CASE k \in {"same1", "cons2"} -> <<One, Zero>> [] k = "mul2" -> <<One, One>> [] k = "div2" -> <<One, R(-1)>>
            [] k \in {"pow2", "pow1_2", "pow1_3", "pow-1"} -> <<PowOf(k), Zero>> [] OTHER -> <<Zero, Zero>>
=============================================================================
