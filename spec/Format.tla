------------------------------- MODULE Format -------------------------------
(* Unit formatting (C09): layout of a container in the built-in plain formats and its *)
(* denotation.  A layout is <<num, den>>: two sequences of [name, exp] with exp > 0.   *)
(* Render produces the exact text (P uses ASCII stand-ins: {d} for a superscript run,  *)
(* "." for the product dot; the harness translates the real string the same way).      *)
EXTENDS UnitAlgebra

CONSTANTS NameOrder,     \* sequence of all unit names, sorted by name (default sort_func)
          Symbol         \* unit name -> symbol

InOrder(u) == SelectSeq(NameOrder, LAMBDA n : n \in DOMAIN u)
Layout(u) == <<SelectSeq(InOrder(u), LAMBDA n : RSign(u[n]) > 0), SelectSeq(InOrder(u), LAMBDA n : RSign(u[n]) < 0)>>
Denote(u, lay) ==        \* container denoted by the layout: numerator names with +|e|, denominator with -|e|
    LET f(n) == IF \E i \in 1..Len(lay[1]) : lay[1][i] = n THEN RAbs(u[n]) ELSE RNeg(RAbs(u[n]))
    IN [n \in {lay[1][i] : i \in 1..Len(lay[1])} \cup {lay[2][i] : i \in 1..Len(lay[2])} |-> f(n)]

\* number formatting of |exponent| as the "n" format does for the values used here
ExpStr(e) == LET a == RAbs(e) IN
    IF RIsInt(a) THEN ToString(a[1])
    ELSE CASE a = <<1, 2>> -> "0.5" [] a = <<3, 2>> -> "1.5" [] a = <<5, 2>> -> "2.5" [] a = <<1, 4>> -> "0.25" [] a = <<3, 4>> -> "0.75"

RECURSIVE Join(_, _)
Join(sep, ss) == IF ss = <<>> THEN "" ELSE IF Len(ss) = 1 THEN ss[1] ELSE ss[1] \o sep \o Join(sep, Tail(ss))
Disp(short, n) == IF short THEN Symbol[n] ELSE n
Term(short, u, n, pw(_, _)) == IF RAbs(u[n]) = One THEN Disp(short, n) ELSE pw(Disp(short, n), ExpStr(u[n]))
Terms(short, u, names, pw(_, _)) == [i \in 1..Len(names) |-> Term(short, u, names[i], pw)]

Ratio(short, u, prod, div, pw(_, _), singleDen) ==
    LET lay == Layout(u)
        pos == Terms(short, u, lay[1], pw)  neg == Terms(short, u, lay[2], pw)
        posS == IF pos = <<>> THEN "1" ELSE Join(prod, pos)
    IN IF neg = <<>> THEN posS
       ELSE IF singleDen THEN posS \o div \o (IF Len(neg) > 1 THEN "(" \o Join(prod, neg) \o ")" ELSE neg[1])
       ELSE Join(div, <<posS>> \o neg)

PwD(n, e) == n \o " ** " \o e
PwC(n, e) == n \o "**" \o e
PwP(n, e) == n \o "{" \o e \o "}"
PwH(n, e) == n \o "<sup>" \o e \o "</sup>"
Render(fmt, short, u) ==
    IF DOMAIN u = {} THEN (IF short THEN "" ELSE "dimensionless")
    ELSE CASE fmt = "D" -> Ratio(short, u, " * ", " / ", PwD, FALSE)
           [] fmt = "C" -> Ratio(short, u, "*", "/", PwC, FALSE)
           [] fmt = "P" -> Ratio(short, u, ".", "/", PwP, FALSE)
           [] fmt = "H" -> Ratio(short, u, " ", "/", PwH, TRUE)
=============================================================================
