----------------------------- MODULE Trace_Names -----------------------------
(* C08 over the bundled registry: every event carries a string (as an escaped token),  *)
(* its splits <<head, middle, tail>> (pure slicing), and what a fresh registry said:    *)
(* kind in {"ok", "undef", "offset"}, the canonical name (prefix name + unit name) and   *)
(* the root factor as residues.  The specification resolves the string with DefTable's   *)
(* Resolve (exact hit first; suffix "" before "s"; prefixes in file order; one-letter    *)
(* unit parts never plural; non-multiplicative units refuse prefixes) from the reader's  *)
(* spelling tables and compares name and factor (prefix applied exactly once).           *)
EXTENDS DefTable
Trace == Data.trace
VARIABLES l, bad, skip
vars == <<l, bad, skip>>
Clauses(e) ==
    LET r == Resolve(e.s, e.sp)
        nm == IF r[1] # "ok" THEN "" ELSE IF r[2] = "_empty" THEN r[3] ELSE r[2] \o r[3]
    IN IF e.kind # r[1] THEN {"resolution-kind"}
       ELSE IF r[1] # "ok" THEN {}
       ELSE (IF e.name # nm THEN {"canonical-name"} ELSE {})
            \cup (IF e.hasroot /\ ExactUnit(r[3]) /\ ~FMatches(FMul(PVal[r[2]], FpUnit(r[3])), e.num, e.den) THEN {"prefix-factor"} ELSE {})
Init == l = 1 /\ bad = {} /\ skip = {}
Next == /\ l <= Len(Trace)
        /\ bad' = bad \cup {<<l, c>> : c \in Clauses(Trace[l])}
        /\ skip' = skip
        /\ l' = l + 1
Spec == Init /\ [][Next]_vars
Final == l = Len(Trace) + 1 =>
            PrintT(<<"VERDICT", ToJson([consumed |-> l - 1, bad |-> bad, inexact |-> skip])>>)
=============================================================================
