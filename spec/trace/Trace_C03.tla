------------------------------ MODULE Trace_C03 ------------------------------
(* Total validator for arithmetic over the bundled registry (C03).  Each event is an   *)
(* expression tree over + - * / **int and negation whose leaves are quantities         *)
(* (magnitude as residues, units as spellings) or bare numbers, together with what the  *)
(* real library returned.  The specification evaluates the tree in *physical space*     *)
(* (fingerprint of the magnitude in root units, dimensionality), which is independent   *)
(* of the units the operands were expressed in, and compares.                           *)
EXTENDS DefTable
Trace == Data.trace
VARIABLES l, bad, skip
vars == <<l, bad, skip>>

V(fp, dim, isnum) == [k |-> "v", fp |-> fp, dim |-> dim, isnum |-> isnum, errs |-> {}]
E(errs) == [k |-> "e", errs |-> errs]
IsZeroFp(fp) == fp = <<0, 0>>

RECURSIVE ExactTree(_), Ev(_)
ExactTree(t) == CASE t.t = "leaf" -> AllResolve(t.u) /\ ExactOf(t.u)
                  [] t.t = "num" -> TRUE
                  [] t.t = "bin" -> ExactTree(t.l) /\ ExactTree(t.r)
                  [] t.t = "un" -> ExactTree(t.x)
                  [] t.t = "pow" -> ExactTree(t.x)
Both(a, b, f(_, _)) == IF a.k = "e" \/ b.k = "e" THEN E(a.errs \cup b.errs) ELSE f(a, b)
AddLike(a, b, sub) ==
    LET bb == IF sub THEN FNeg(b.fp) ELSE b.fp IN
    IF b.isnum /\ IsZeroFp(b.fp) THEN V(a.fp, a.dim, FALSE)             \* bare zero: no unit check
    ELSE IF a.isnum /\ IsZeroFp(a.fp) THEN V(bb, b.dim, FALSE)
    ELSE IF a.dim # b.dim THEN E({"dimerr"})
    ELSE V(FAdd(a.fp, bb), a.dim, FALSE)
Ev(t) ==
    CASE t.t = "leaf" -> V(FMul(FDiv(t.num, t.den), FpOf(t.u)), DimOf(t.u), FALSE)
      [] t.t = "num" -> V(FDiv(t.num, t.den), Empty, TRUE)
      [] t.t = "un" -> LET a == Ev(t.x) IN IF a.k = "e" THEN a ELSE V(FNeg(a.fp), a.dim, FALSE)
      [] t.t = "pow" -> LET a == Ev(t.x) IN
            IF a.k = "e" THEN a
            ELSE IF t.e < 0 /\ IsZeroFp(a.fp) THEN E({"zerodiv"})
            ELSE V(FPow(a.fp, t.e), Pow(a.dim, R(t.e)), FALSE)
      [] t.t = "bin" -> LET a == Ev(t.l)  b == Ev(t.r) IN
            IF a.k = "e" \/ b.k = "e" THEN E(a.errs \cup b.errs)
            ELSE CASE t.op = "add" -> AddLike(a, b, FALSE)
                   [] t.op = "sub" -> AddLike(a, b, TRUE)
                   [] t.op = "mul" -> V(FMul(a.fp, b.fp), Mul(a.dim, b.dim), FALSE)
                   [] t.op = "div" -> IF IsZeroFp(b.fp) THEN E({"zerodiv"})
                                      ELSE V(FDiv(a.fp, b.fp), Div(a.dim, b.dim), FALSE)

Clauses(e) ==
    LET x == Ev(e.tree) IN
    IF x.k = "e" THEN (IF e.res.k \in x.errs THEN {} ELSE {"error-kind"})
    ELSE IF e.res.k # "ok" THEN {"raised-on-valid"}
    ELSE IF ~AllResolve(e.res.u) THEN {"resolve"}
    ELSE (IF DimOf(e.res.u) # x.dim THEN {"dimensionality"} ELSE {})
         \cup (IF ExactOf(e.res.u) /\ ~FMatches(FDiv(x.fp, FpOf(e.res.u)), e.res.num, e.res.den) THEN {"value"} ELSE {})

Init == l = 1 /\ bad = {} /\ skip = {}
Next == /\ l <= Len(Trace)
        /\ LET e == Trace[l] IN
           IF ExactTree(e.tree) THEN bad' = bad \cup {<<l, c>> : c \in Clauses(e)} /\ skip' = skip
           ELSE bad' = bad /\ skip' = skip \cup {l}
        /\ l' = l + 1
Spec == Init /\ [][Next]_vars
Final == l = Len(Trace) + 1 =>
            PrintT(<<"VERDICT", ToJson([consumed |-> l - 1, bad |-> bad, inexact |-> skip])>>)
=============================================================================
