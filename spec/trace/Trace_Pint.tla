----------------------------- MODULE Trace_Pint -----------------------------
(* Total validator of recorded registry histories (C12, C13, C11) against             *)
(* PintRegistry.  A trace is a sequence of events, one per public call on a real       *)
(* registry built from MC_Pint's constants:                                            *)
(*   [tid, op = <<kind, arg...>>, res = "ok" | "error", probes = << <<key, answer>> >>] *)
(* The specification follows the declarative state through the mutation events (the    *)
(* effective parameter of an activation may be inherited from any enclosing context,   *)
(* so a *set* of possible stacks is carried) and checks every logged answer against    *)
(* Answer(declarative state).  tid changes => fresh registry.  Failures are collected  *)
(* as <<line, clause>>; an event never disables the next one.                          *)
EXTENDS MC_Pint, IOUtils
Trace == JsonDeserialize(IOEnv.TRACE_FILE).trace

VARIABLES l, tid, poss, fr, ex, sys, bad
tvars == <<l, tid, poss, fr, ex, sys, bad>>

Rat2(x) == <<x[1], x[2]>>
PairSet(s) == {<<s[i][1], Rat2(s[i][2])>> : i \in 1..Len(s)}
\* logged answer -> the vocabulary of Answer()
NormAns(k, a) ==
    CASE k[1] = "conv" -> IF a[1] = "ok" THEN <<"ok", Rat2(a[2])>> ELSE <<a[1], Zero>>
      [] k[1] \in {"base", "gbase", "sbase", "root"} -> IF a[1] = "ok" THEN <<"ok", Rat2(a[2]), PairSet(a[3])>> ELSE <<a[1], Zero, {}>>
      [] k[1] = "compat" -> {a[2][i] : i \in 1..Len(a[2])}
Key(k) == <<k[1], k[2], k[3]>>
AnswerOK(act, e, s, pr) ==
    LET k == Key(pr[1])  want == Answer(act, e, s, k)  got == NormAns(k, pr[2]) IN
    IF k[1] = "compat" /\ want = {{"<any>"}} THEN TRUE
    ELSE IF k[1] = "conv" /\ pr[2][1] = "err" THEN <<"err", Zero>> \in want
    ELSE got \in want

\* transition of the declarative state on one event (set of possible stacks)
KwOf(op) == Rat2(op[3])
Inh(act) == {act[i].p : i \in {i \in 1..Len(act) : Pool[act[i].ctx].rules # {}}} \ {NoP}
Choices(act, c, kw) == IF kw # NoP THEN {kw} ELSE Inh(act) \cup {Pool[c].default}
Push(ps, c, kw) == UNION {{<<[ctx |-> c, p |-> p]>> \o act : p \in Choices(act, c, kw)} : act \in ps}
\* two names in one call: both pushed, the last-named innermost, parameters chosen against the stack before the call
Push2(ps, c1, c2) == UNION {{<<[ctx |-> c2, p |-> p2], [ctx |-> c1, p |-> p1]>> \o act :
                               p1 \in Choices(act, c1, NoP), p2 \in Choices(act, c2, NoP)} : act \in ps}
Two(op) == op[1] \in {"enable2", "with_enter2"}
StepPoss(ps, op, res) ==
    CASE op[1] \in {"enable", "with_enter"} -> IF Valid(op[2]) THEN Push(ps, op[2], KwOf(op)) ELSE ps
      [] Two(op) -> IF Valid(op[2]) /\ Valid(op[3]) THEN Push2(ps, op[2], op[3]) ELSE ps
      [] op[1] = "disable" -> {Drop(act, op[2]) : act \in ps}
      [] op[1] = "with_exit" -> IF fr = <<>> THEN ps ELSE {Drop(act, Head(fr)) : act \in ps}
      [] OTHER -> ps
ExpectedRes(op) == IF op[1] \in {"enable", "with_enter"} /\ ~Valid(op[2]) THEN "error"
                   ELSE IF Two(op) /\ ~(Valid(op[2]) /\ Valid(op[3])) THEN "error" ELSE "ok"

TInit == Init /\ l = 1 /\ tid = -1 /\ poss = {<<>>} /\ fr = <<>> /\ ex = {} /\ sys = "none" /\ bad = {}
TNext == /\ l <= Len(Trace)
        /\ LET e == Trace[l]
               fresh == e.tid # tid
               ps0 == IF fresh THEN {<<>>} ELSE poss
               fr0 == IF fresh THEN <<>> ELSE fr
               ex0 == IF fresh THEN {} ELSE ex
               sys0 == IF fresh THEN "none" ELSE sys
               op == e.op
               ps1 == IF fresh THEN StepPoss({<<>>}, op, e.res) ELSE StepPoss(poss, op, e.res)
               ex1 == IF op[1] = "define" THEN ex0 \cup {"new1"} ELSE ex0
               sys1 == IF op[1] = "setsys" THEN op[2] ELSE sys0
               fr1 == IF op[1] = "with_enter" /\ Valid(op[2]) THEN <<1>> \o fr0
                      ELSE IF op[1] = "with_enter2" /\ Valid(op[2]) /\ Valid(op[3]) THEN <<2>> \o fr0
                      ELSE IF op[1] = "with_exit" /\ fr0 # <<>> THEN Tail(fr0) ELSE fr0
               consistent == {act \in ps1 : \A i \in 1..Len(e.probes) : AnswerOK(act, ex1, sys1, e.probes[i])}
               \* which probes fail in *every* possible stack
               failing == {i \in 1..Len(e.probes) : \A act \in ps1 : ~AnswerOK(act, ex1, sys1, e.probes[i])}
           IN /\ tid' = e.tid /\ fr' = fr1 /\ ex' = ex1 /\ sys' = sys1
              /\ poss' = IF consistent # {} THEN consistent ELSE ps1
              /\ bad' = bad \cup (IF e.res # ExpectedRes(op) THEN {<<l, "outcome">>} ELSE {})
                            \cup (IF "stack" \in DOMAIN e /\ \A act \in ps1 : [i \in 1..Len(act) |-> act[i].ctx] # e.stack
                                  THEN {<<l, "stack">>} ELSE {})
                            \cup {<<l, "probe:" \o e.probes[i][1][1] \o ":" \o e.probes[i][1][2]>> : i \in failing}
                            \cup (IF failing = {} /\ consistent = {} /\ Len(e.probes) > 0 THEN {<<l, "probes-jointly">>} ELSE {})
        /\ l' = l + 1
        /\ UNCHANGED vars          \* the machine's own variables are not used by the validator
TSpec == TInit /\ [][TNext]_<<tvars, vars>>
Final == l = Len(Trace) + 1 => PrintT(<<"VERDICT", ToJson([consumed |-> l - 1, bad |-> bad])>>)
=============================================================================
