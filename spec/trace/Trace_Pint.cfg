SPECIFICATION TSpec
CONSTANTS
  DimNames = {"[A]", "[B]"}
  Dev_PowKeepsZeros = FALSE
  CtxPool <- Pool
  BaseReg <- Base
  Systems <- Sys
  NoParam <- NoP
  KwVals <- Kw
  MaxOps = 0
  CtxPairs <- Pairs
  Alphabet <- AllOps
INVARIANT Final
CHECK_DEADLOCK FALSE
