------------------------------ MODULE Trace_Reg ------------------------------
(* Total validator for conversions over the bundled registry (C01, C02).              *)
(* Events:  dim  [u, dim]           observed dimensionality of a container             *)
(*          conv [a, b, res, num, den]  res in {"ok", "Dimensionality", other}; for ok  *)
(*                 num/den = observed exact factor reduced mod P1, P2                   *)
(*          pred [which, a, b, val]  a compatibility predicate's boolean answer          *)
(*          root [u, units, num, den]  get_root_units: container and factor              *)
EXTENDS DefTable
Trace == Data.trace
VARIABLES l, bad, skip
vars == <<l, bad, skip>>

Compatible(a, b) == DimOf(a) = DimOf(b)

ConvClauses(e) ==
    IF ~(AllResolve(e.a) /\ AllResolve(e.b)) THEN {"resolve"}
    ELSE LET c == Compatible(e.a, e.b) IN
         (IF c /\ e.res # "ok" THEN {"refused-compatible"} ELSE {})
         \cup (IF ~c /\ e.res = "ok" THEN {"accepted-incompatible"} ELSE {})
         \cup (IF ~c /\ e.res \notin {"ok", "Dimensionality"} THEN {"wrong-error-kind"} ELSE {})
         \cup (IF c /\ e.res = "ok" /\ e.checkfactor /\ ExactOf(e.a) /\ ExactOf(e.b)
                  /\ ~FMatches(FDiv(FpOf(e.a), FpOf(e.b)), e.num, e.den) THEN {"factor"} ELSE {})
DimClauses(e) ==
    IF ~AllResolve(e.u) THEN {"resolve"}
    ELSE IF ~PairsCanonical(e.dim) THEN {"canonical"}
    ELSE IF FromPairs(e.dim) # DimOf(e.u) THEN {"dimensionality"} ELSE {}
PredClauses(e) ==
    IF ~(AllResolve(e.a) /\ AllResolve(e.b)) THEN {"resolve"}
    ELSE IF e.val # Compatible(e.a, e.b) THEN {"predicate-" \o e.which} ELSE {}
RootClauses(e) ==
    IF ~AllResolve(e.u) THEN {"resolve"}
    ELSE (IF ~PairsCanonical(e.units) \/ FromPairs(e.units) # RootOf(e.u) THEN {"root-units"} ELSE {})
         \cup (IF ExactOf(e.u) /\ ~FMatches(FpOf(e.u), e.num, e.den) THEN {"root-factor"} ELSE {})
\* path independence and round trip: x -> b -> c and x -> c both equal x * Factor(a, c)
PathClauses(e) ==
    IF ~(AllResolve(e.a) /\ AllResolve(e.b) /\ AllResolve(e.c)) THEN {"resolve"}
    ELSE IF ~(ExactOf(e.a) /\ ExactOf(e.b) /\ ExactOf(e.c)) THEN {}
    ELSE LET f == FDiv(FpOf(e.a), FpOf(e.c)) IN
         (IF ~FMatches(f, e.via_num, e.via_den) THEN {"path-independence"} ELSE {})
         \cup (IF ~FMatches(f, e.num, e.den) THEN {"factor"} ELSE {})
         \cup (IF ~FMatches(FOne, e.back_num, e.back_den) THEN {"round-trip"} ELSE {})
\* a dimension specification (container over base and derived dimension names) and what it reduces to
DimSpecClauses(e) ==
    IF ~PairsCanonical(e.dim) THEN {"canonical"}
    ELSE IF FromPairs(e.dim) # ExpandDimPairs(e.spec) THEN {"dimension-spec"} ELSE {}
\* Quantity.check / ureg.check against a dimension specification
CheckClauses(e) ==
    IF ~AllResolve(e.a) THEN {"resolve"}
    ELSE IF e.val # (DimOf(e.a) = ExpandDimPairs(e.spec)) THEN {"predicate-" \o e.which} ELSE {}
\* comparison of two quantities of the same dimension (C05): a = am [a-units], b = (bm0 + delta) [b-units] where the
\* driver chose bm0 as a converted to b's units (validated here through fingerprints) and delta's sign is logged.
PhysFp(m, c) == FMul(FDiv(m[1], m[2]), FpOf(c))
CmpClauses(e) ==
    IF ~(AllResolve(e.a) /\ AllResolve(e.b)) THEN {"resolve"}
    ELSE IF ~(ExactOf(e.a) /\ ExactOf(e.b)) THEN {}
    ELSE IF PhysFp(e.am, e.a) # PhysFp(e.bm0, e.b) THEN {"construction"}
    ELSE LET same == e.sign = 0 IN
         (IF e.eq # same THEN {"eq"} ELSE {})
         \cup (IF e.ne # ~same THEN {"ne"} ELSE {})
         \cup (IF same /\ ~e.hash_eq THEN {"hash"} ELSE {})
         \cup (IF e.lt # (e.sign > 0) THEN {"lt"} ELSE {})
         \cup (IF e.gt # (e.sign < 0) THEN {"gt"} ELSE {})
         \cup (IF e.le # (e.sign >= 0) THEN {"le"} ELSE {})
         \cup (IF e.ge # (e.sign <= 0) THEN {"ge"} ELSE {})
\* conversion between two single units one of which carries an offset (C06): through the reference units by the
\* defining affine maps  ref = x * scale + offset  (fingerprint arithmetic is a ring homomorphism, so this is exact)
Canon1(c) == ItemRes(c[1])[3]
AffToRef(n, x) == FAdd(FMul(x, FpUnit(n)), FMul(Units[n].off, FDiv(FpUnit(n), Units[n].s)))
\* root value of x [n]: (x * s_n + off_n) * Fp(ref_n)  where FpUnit(n) = s_n * Fp(ref_n)
AffFromRoot(n, r) == FDiv(FAdd(r, FNeg(FMul(Units[n].off, FDiv(FpUnit(n), Units[n].s)))), FpUnit(n))
OConvClauses(e) ==
    IF ~(AllResolve(e.a) /\ AllResolve(e.b)) THEN {"resolve"}
    ELSE LET na == Canon1(e.a)  nb == Canon1(e.b) IN
         IF DimOf(e.a) # DimOf(e.b) THEN (IF e.res = "Dimensionality" THEN {} ELSE {"accepted-incompatible"})
         ELSE IF (Units[na].isoffset /\ Units[nb].isdelta) \/ (Units[na].isdelta /\ Units[nb].isoffset)
              THEN (IF e.res = "Dimensionality" THEN {} ELSE {"delta-offset-accepted"})       \* refused by design
         ELSE IF e.res # "ok" THEN {"refused-compatible"}
         ELSE IF ~(ExactUnit(na) /\ ExactUnit(nb)) THEN {}
         ELSE IF ~FMatches(AffFromRoot(nb, AffToRef(na, FDiv(e.x[1], e.x[2]))), e.num, e.den) THEN {"affine-map"} ELSE {}
Clauses(e) == CASE e.ev = "conv" -> ConvClauses(e)
                [] e.ev = "oconv" -> OConvClauses(e)
                [] e.ev = "cmp" -> CmpClauses(e)
                [] e.ev = "dimspec" -> DimSpecClauses(e)
                [] e.ev = "check" -> CheckClauses(e)
                [] e.ev = "path" -> PathClauses(e)
                [] e.ev = "dim" -> DimClauses(e)
                [] e.ev = "pred" -> PredClauses(e)
                [] e.ev = "root" -> RootClauses(e)
Skipped(e) == CASE e.ev = "conv" -> AllResolve(e.a) /\ AllResolve(e.b) /\ e.checkfactor /\ ~(ExactOf(e.a) /\ ExactOf(e.b))
                [] e.ev = "root" -> AllResolve(e.u) /\ ~ExactOf(e.u)
                [] e.ev = "path" -> AllResolve(e.a) /\ AllResolve(e.b) /\ AllResolve(e.c) /\ ~(ExactOf(e.a) /\ ExactOf(e.b) /\ ExactOf(e.c))
                [] e.ev = "cmp" -> AllResolve(e.a) /\ AllResolve(e.b) /\ ~(ExactOf(e.a) /\ ExactOf(e.b))
                [] OTHER -> FALSE

Init == l = 1 /\ bad = {} /\ skip = {}
Next == /\ l <= Len(Trace)
        /\ bad' = bad \cup {<<l, c>> : c \in Clauses(Trace[l])}
        /\ skip' = IF Skipped(Trace[l]) THEN skip \cup {l} ELSE skip
        /\ l' = l + 1
Spec == Init /\ [][Next]_vars
Final == l = Len(Trace) + 1 =>
            PrintT(<<"VERDICT", ToJson([consumed |-> l - 1, bad |-> bad, inexact |-> skip])>>)
=============================================================================
