------------------------------ MODULE Trace_Std ------------------------------
(* C20: the bundled registry carries the internationally standardised values.          *)
(* Data.table : name -> [v = <<v1, v2>> (SI value of one unit, as residues), dim, sym]   *)
(*   - hand-curated from the standards, never generated from the definition files;        *)
(* Data.relations : << [a, k = <<k1, k2>>, b] >> : internal consistency a = k * b          *)
(*   (12 inch = foot, 7000 grain = pound, 231 inch^3 = gallon, kibi = 2^10 ...):            *)
(*   a typo in the table breaks a law before it can raise a false alarm;                    *)
(* Data.trace : one event per entry with what the registry answered.                       *)
EXTENDS ModArith, Integers, Sequences, FiniteSets, TLC, Json, IOUtils
Data == JsonDeserialize(IOEnv.TRACE_FILE)
Table == Data.table
Rel == Data.relations
Trace == Data.trace
VARIABLES l, bad
vars == <<l, bad>>
\* ---- the table's own laws ----
RelationHolds(r) == Table[r.a].v = FMul(r.k, Table[r.b].v) /\ Table[r.a].dim = Table[r.b].dim
BrokenRelations == {i \in 1..Len(Rel) : ~RelationHolds(Rel[i])}
SymbolsUnique == \A a, b \in DOMAIN Table : (a # b /\ Table[a].sym # "" /\ Table[a].sym = Table[b].sym) => Table[a].kind # Table[b].kind \/ Table[a].v = Table[b].v
\* ---- events ----
Clauses(e) ==
    IF e.name \notin DOMAIN Table THEN {"not-in-table"}
    ELSE LET t == Table[e.name] IN
         (IF ~e.defined THEN {"missing"} ELSE {})
         \cup (IF e.defined /\ e.exact /\ ~FMatches(t.v, e.num, e.den) THEN {"value"} ELSE {})
         \cup (IF e.defined /\ e.dim # t.dim THEN {"dimensionality"} ELSE {})
         \cup (IF e.defined /\ t.sym # "" /\ e.sym # t.sym THEN {"symbol"} ELSE {})
Init == l = 1 /\ bad = {}
Next == /\ l <= Len(Trace)
        /\ bad' = bad \cup {<<l, c>> : c \in Clauses(Trace[l])}
        /\ l' = l + 1
Spec == Init /\ [][Next]_vars
Final == l = Len(Trace) + 1 =>
            PrintT(<<"VERDICT", ToJson([consumed |-> l - 1, bad |-> bad, broken_relations |-> BrokenRelations, symbols_unique |-> SymbolsUnique])>>)
=============================================================================
