---------------------------- MODULE Trace_Rewrite ----------------------------
(* C15 over the bundled registry: each event is one call of a rewriting helper with    *)
(* its input (magnitude residues, units) and output; the specification checks the       *)
(* post-conditions: same dimensionality, same physical value (fingerprints), and per     *)
(* helper: root units only / no mergeable pair left / only one decimal prefix changed.   *)
EXTENDS DefTable
Trace == Data.trace
VARIABLES l, bad, skip
vars == <<l, bad, skip>>
PhysFp(m, c) == FMul(FDiv(m[1], m[2]), FpOf(c))
Names1(c) == {ItemRes(c[i])[3] : i \in 1..Len(c)}
\* dimensionalities proportional - or both empty (two dimensionless named units have equal dimensionality) -: the two units could be merged
Proportional(d1, d2) == DOMAIN d1 = DOMAIN d2 /\
    (DOMAIN d1 = {} \/ LET k == CHOOSE x \in DOMAIN d1 : TRUE  r == RDiv(d1[k], d2[k]) IN \A x \in DOMAIN d1 : d1[x] = RMul(r, d2[x]))
MergeablePair(c) == \E i, j \in 1..Len(c) : i # j /\ Proportional(DimUnit(ItemRes(c[i])[3]), DimUnit(ItemRes(c[j])[3]))
RootOnly(c) == \A i \in 1..Len(c) : ItemRes(c[i])[2] = "_empty" /\ Units[ItemRes(c[i])[3]].base
\* to_compact: after stripping prefixes both containers are the same, and at most one unit carries a prefix in the output.
\* A defined name may itself read as prefix + unit of the same value (kilometer_per_second = kilo + meter_per_second); the item then
\* carries that unit as `alt`, and either stem is admissible: the set of possible stripped containers.
StemsOf(it) == {ItemRes(it)[3]} \cup (IF "alt" \in DOMAIN it /\ it.alt # "_none" THEN {it.alt} ELSE {})
RECURSIVE StrippedSet(_)
StrippedSet(c) == IF c = <<>> THEN {Empty} ELSE {Mul(Single(st, c[1].e), rest) : st \in StemsOf(c[1]), rest \in StrippedSet(Tail(c))}
PrefixedMin(c) == Cardinality({i \in 1..Len(c) : ItemRes(c[i])[2] # "_empty" \/ ("alt" \in DOMAIN c[i] /\ c[i].alt # "_none")})
Prefixed(c) == {i \in 1..Len(c) : ItemRes(c[i])[2] # "_empty"}
Clauses(e) ==
    IF ~(AllResolve(e.a) /\ AllResolve(e.b)) THEN {"resolve"}
    ELSE (IF DimOf(e.a) # DimOf(e.b) THEN {"dimensionality"} ELSE {})
         \cup (IF ExactOf(e.a) /\ ExactOf(e.b) /\ e.exactmag /\ PhysFp(e.am, e.a) # PhysFp(e.bm, e.b) THEN {"physical-value"} ELSE {})
         \cup (IF e.op = "root" /\ ~RootOnly(e.b) THEN {"not-root-units"} ELSE {})
         \cup (IF e.op = "reduced" /\ Len(e.b) > 1 /\ DimOf(e.b) # Empty /\ MergeablePair(e.b) THEN {"mergeable-pair-left"} ELSE {})
         \cup (IF e.op = "compact" /\ e.changed /\ (StrippedSet(e.a) \cap StrippedSet(e.b) = {} \/ Cardinality(Prefixed(e.b)) > 1) THEN {"compact-changed-more-than-a-prefix"} ELSE {})
Init == l = 1 /\ bad = {} /\ skip = {}
Next == /\ l <= Len(Trace)
        /\ bad' = bad \cup {<<l, c>> : c \in Clauses(Trace[l])}
        /\ skip' = IF AllResolve(Trace[l].a) /\ AllResolve(Trace[l].b) /\ ~(ExactOf(Trace[l].a) /\ ExactOf(Trace[l].b) /\ Trace[l].exactmag)
                   THEN skip \cup {l} ELSE skip
        /\ l' = l + 1
Spec == Init /\ [][Next]_vars
Final == l = Len(Trace) + 1 =>
            PrintT(<<"VERDICT", ToJson([consumed |-> l - 1, bad |-> bad, inexact |-> skip])>>)
=============================================================================
