------------------------------ MODULE Trace_C04 ------------------------------
(* Total validator for recorded unit-algebra operations of the real library (C04).    *)
(* Every event carries its arguments; the expected result is recomputed with the       *)
(* specification's declarative operators.  An event never disables the next step:      *)
(* failures are collected in `bad` as <<line, clause>>.                                *)
EXTENDS UnitAlgebra, LinAlg, Json, IOUtils

Data == JsonDeserialize(IOEnv.TRACE_FILE)
Trace == Data.trace

VARIABLES l, bad
vars == <<l, bad>>

Expected(e) == LET x == FromPairs(e.x)  y == FromPairs(e.y) IN
    CASE e.op = "mul" -> Mul(x, y)
      [] e.op = "div" -> Div(x, y)
      [] e.op = "pow" -> Pow(x, e.k)
      [] e.op = "rdiv" -> Inv(x)

OpClauses(e) ==
    (IF ~e.ok THEN {"raises"} ELSE {})
    \cup (IF e.ok /\ ~PairsCanonical(e.res) THEN {"canonical"} ELSE {})
    \cup (IF e.ok /\ PairsCanonical(e.res) /\ FromPairs(e.res) # Expected(e) THEN {"result"} ELSE {})
    \cup (IF e.ok /\ (e.xafter # e.x \/ e.yafter # e.y \/ ~e.hash_stable) THEN {"operands-unchanged"} ELSE {})
    \cup (IF e.ok /\ ~e.eq_fresh THEN {"eq"} ELSE {})
    \cup (IF e.ok /\ ~e.hash_fresh THEN {"hash"} ELSE {})

PiClauses(e) ==
    IF ~e.ok THEN {"raises"}
    ELSE IF IsNullBasis(e.vecs, e.m) THEN {} ELSE {"pi-basis"}

Clauses(e) == IF e.ev = "op" THEN OpClauses(e) ELSE PiClauses(e)

Init == l = 1 /\ bad = {}
Next == /\ l <= Len(Trace)
        /\ bad' = bad \cup {<<l, c>> : c \in Clauses(Trace[l])}
        /\ l' = l + 1
Spec == Init /\ [][Next]_vars
Final == l = Len(Trace) + 1 =>
            PrintT(<<"VERDICT", ToJson([consumed |-> l - 1, bad |-> bad])>>)
=============================================================================
