------------------------------ MODULE Trace_C04 ------------------------------
(* Total validator for recorded unit-algebra operations of the real library (C04).    *)
(* Every event carries its arguments; the expected result is recomputed with the       *)
(* specification's declarative operators.  An event never disables the next step:      *)
(* failures are collected in `bad` as <<line, clause>>.                                *)
EXTENDS UnitAlgebra, LinAlg, Json, IOUtils

Data == JsonDeserialize(IOEnv.TRACE_FILE)
Trace == Data.trace

VARIABLES l, bad
vars == <<l, bad>>

Expected(e) == LET x == FromPairs(e.x)  y == FromPairs(e.y) IN
    CASE e.op = "mul" -> Mul(x, y)
      [] e.op = "div" -> Div(x, y)
      [] e.op = "pow" -> Pow(x, e.k)
      [] e.op = "rdiv" -> Inv(x)

OpClauses(e) ==
    (IF ~e.ok THEN {"raises"} ELSE {})
    \cup (IF e.ok /\ ~PairsCanonical(e.res) THEN {"canonical"} ELSE {})
    \cup (IF e.ok /\ PairsCanonical(e.res) /\ FromPairs(e.res) # Expected(e) THEN {"result"} ELSE {})
    \cup (IF e.ok /\ (e.xafter # e.x \/ e.yafter # e.y \/ ~e.hash_stable) THEN {"operands-unchanged"} ELSE {})
    \cup (IF e.ok /\ ~e.eq_fresh THEN {"eq"} ELSE {})
    \cup (IF e.ok /\ ~e.hash_fresh THEN {"hash"} ELSE {})

PiClauses(e) ==
    IF ~e.ok THEN {"raises"}
    ELSE IF IsNullBasis(e.vecs, e.m) THEN {} ELSE {"pi-basis"}

\* dimensionality is a homomorphism: dim(x op y) = dim(x) op dim(y), dim(x ** k) = dim(x) ** k
\* (x, y containers over unit names and base / derived dimension names; all three observed)
HomClauses(e) ==
    IF ~e.ok THEN {"raises"}
    ELSE IF ~(PairsCanonical(e.dx) /\ PairsCanonical(e.dy) /\ PairsCanonical(e.dres)) THEN {"canonical"}
    ELSE LET dx == FromPairs(e.dx)  dy == FromPairs(e.dy)
             want == CASE e.op = "mul" -> Mul(dx, dy) [] e.op = "div" -> Div(dx, dy) [] e.op = "pow" -> Pow(dx, e.k) [] e.op = "rdiv" -> Inv(dx)
         IN IF FromPairs(e.dres) # want THEN {"dimensionality-homomorphism"} ELSE {}
Clauses(e) == CASE e.ev = "op" -> OpClauses(e) [] e.ev = "hom" -> HomClauses(e) [] OTHER -> PiClauses(e)

Init == l = 1 /\ bad = {}
Next == /\ l <= Len(Trace)
        /\ bad' = bad \cup {<<l, c>> : c \in Clauses(Trace[l])}
        /\ l' = l + 1
Spec == Init /\ [][Next]_vars
Final == l = Len(Trace) + 1 =>
            PrintT(<<"VERDICT", ToJson([consumed |-> l - 1, bad |-> bad])>>)
=============================================================================
