------------------------------ MODULE Trace_Ctx ------------------------------
(* C11 over the bundled contexts.  Data.ctxs (from the independent reader):            *)
(*   name -> [rules : << [src, dst : dimension pairs, s : <<s1, s2>>, mono : <<<<name, <<n,d>>>>...>>] >>, *)
(*            defaults : [param -> <<v1, v2>>]]                                          *)
(* A rule's equation is a monomial  s * prod(name ^ e)  over `value`, the context's      *)
(* parameters and unit / constant names.  Event:                                         *)
(*   [stack (most recent first), params : [name -> [x, u]], a, b, x, res, num, den]       *)
(* The specification computes, in root-unit fingerprint space, the value obtained by     *)
(* applying the rules along every shortest chain linking the two dimensionalities (the   *)
(* most recently enabled context providing an edge wins) and accepts the observed value  *)
(* if it is one of them; same-dimension conversions must be the plain ones; unreachable  *)
(* targets must be refused with DimensionalityError.                                     *)
EXTENDS DefTable
Trace == Data.trace
Ctxs == Data.ctxs
VARIABLES l, bad, skip
vars == <<l, bad, skip>>

RuleEdge(r) == <<ExpandDimPairs(r.src), ExpandDimPairs(r.dst)>>
RulesOf(c) == {Ctxs[c].rules[i] : i \in 1..Len(Ctxs[c].rules)}
EdgesOfC(c) == {RuleEdge(r) : r \in RulesOf(c)}
GraphOfS(stack) == UNION {EdgesOfC(stack[i]) : i \in 1..Len(stack)}
ProviderIdx(stack, e) == CHOOSE i \in 1..Len(stack) : e \in EdgesOfC(stack[i]) /\ \A j \in 1..(i - 1) : e \notin EdgesOfC(stack[j])
RuleFor(c, e) == CHOOSE r \in RulesOf(c) : RuleEdge(r) = e
RECURSIVE LayersC(_, _, _, _)
LayersC(G, front, seen, dst) ==
    LET hits == {p \in front : p[Len(p)] = dst} IN
    IF hits # {} THEN hits
    ELSE LET nxt == UNION { {Append(p, e[2]) : e \in {e \in G : e[1] = p[Len(p)] /\ e[2] \notin seen}} : p \in front } IN
         IF nxt = {} THEN {} ELSE LayersC(G, nxt, seen \cup {p[Len(p)] : p \in nxt}, dst)
\* value of one monomial factor, in root-unit fingerprint space
ParamVal(e, c, nm) == IF nm \in DOMAIN e.params
                      THEN FMul(FDiv(e.params[nm].x[1], e.params[nm].x[2]), FpOf(e.params[nm].u))
                      ELSE Ctxs[c].defaults[nm]
UnitVal(nm) == LET r == Resolve(nm, Data.ctxsplits[nm]) IN FMul(PVal[r[2]], FpUnit(r[3]))
RECURSIVE MonoVal(_, _, _, _)
MonoVal(e, c, m, v) ==        \* product over the monomial's factors; v = current value (root units)
    IF m = <<>> THEN FOne
    ELSE LET nm == m[1][1]  ex == m[1][2][1]
             t == IF nm = "value" THEN v ELSE IF nm \in DOMAIN Ctxs[c].defaults THEN ParamVal(e, c, nm) ELSE UnitVal(nm)
         IN FMul(FPow(t, ex), MonoVal(e, c, Tail(m), v))
ExactMono(c, m) == \A i \in 1..Len(m) : RIsInt(m[i][2]) /\
    (m[i][1] = "value" \/ m[i][1] \in DOMAIN Ctxs[c].defaults \/
       LET r == Resolve(m[i][1], Data.ctxsplits[m[i][1]]) IN r[1] = "ok" /\ ExactUnit(r[3]))
RECURSIVE Along(_, _, _, _)
Along(e, v, p, i) == IF i >= Len(p) THEN v
    ELSE LET ed == <<p[i], p[i + 1]>>  c == e.stack[ProviderIdx(e.stack, ed)]  r == RuleFor(c, ed)
         IN Along(e, FMul(r.s, MonoVal(e, c, r.mono, v)), p, i + 1)
PathExact(e, p) == \A i \in 1..(Len(p) - 1) :
    LET ed == <<p[i], p[i + 1]>>  c == e.stack[ProviderIdx(e.stack, ed)] IN ExactMono(c, RuleFor(c, ed).mono)

Clauses(e) ==
    IF ~(AllResolve(e.a) /\ AllResolve(e.b)) THEN {"resolve"}
    ELSE LET d1 == DimOf(e.a)  d2 == DimOf(e.b)  x == FDiv(e.x[1], e.x[2]) IN
    IF d1 = d2 THEN
        IF e.res # "ok" THEN {"refused-same-dimension"}
        ELSE IF ExactOf(e.a) /\ ExactOf(e.b) /\ ~FMatches(FMul(x, FDiv(FpOf(e.a), FpOf(e.b))), e.num, e.den) THEN {"same-dimension-changed"} ELSE {}
    ELSE LET paths == LayersC(GraphOfS(e.stack), {<<d1>>}, {d1}, d2) IN
         IF paths = {} THEN (IF e.res = "Dimensionality" THEN {} ELSE {"unreachable-not-refused"})
         ELSE IF e.res # "ok" THEN {"reachable-refused"}
         ELSE IF ~(ExactOf(e.a) /\ ExactOf(e.b) /\ \A p \in paths : PathExact(e, p)) THEN {}
         ELSE IF \E p \in paths : FMatches(FDiv(Along(e, FMul(x, FpOf(e.a)), p, 1), FpOf(e.b)), e.num, e.den) THEN {}
         ELSE {"rule-value"}
Inexact(e) == AllResolve(e.a) /\ AllResolve(e.b) /\ ~(ExactOf(e.a) /\ ExactOf(e.b))

Init == l = 1 /\ bad = {} /\ skip = {}
Next == /\ l <= Len(Trace)
        /\ bad' = bad \cup {<<l, c>> : c \in Clauses(Trace[l])}
        /\ skip' = IF Inexact(Trace[l]) THEN skip \cup {l} ELSE skip
        /\ l' = l + 1
Spec == Init /\ [][Next]_vars
Final == l = Len(Trace) + 1 =>
            PrintT(<<"VERDICT", ToJson([consumed |-> l - 1, bad |-> bad, inexact |-> skip])>>)
=============================================================================
