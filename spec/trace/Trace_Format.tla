----------------------------- MODULE Trace_Format -----------------------------
(* C09 over the bundled registry.  Each event is one formatted unit: the format, the    *)
(* unit's container (canonical names) and the *read-back* of the produced text - the     *)
(* terms found in the numerator and in the denominator with their exponents, obtained    *)
(* by a per-format lexical reader in the harness (no registry knowledge).  The           *)
(* specification resolves every displayed name or symbol with the C08 rules (DefTable)   *)
(* and checks that the text denotes exactly the unit: every unit present, on the right    *)
(* side of the fraction bar, with its exponent.                                           *)
EXTENDS DefTable
Trace == Data.trace
VARIABLES l, bad, skip
vars == <<l, bad, skip>>
Clauses(e) ==
    IF ~e.readable THEN {"unreadable-text"}
    ELSE IF ~AllResolve(e.read) THEN {"displayed-name-does-not-resolve"}
    ELSE IF CanonOf(e.read) # FromPairs(e.units) THEN {"denotation"} ELSE {}
Init == l = 1 /\ bad = {} /\ skip = {}
Next == /\ l <= Len(Trace)
        /\ bad' = bad \cup {<<l, c>> : c \in Clauses(Trace[l])}
        /\ skip' = skip
        /\ l' = l + 1
Spec == Init /\ [][Next]_vars
Final == l = Len(Trace) + 1 =>
            PrintT(<<"VERDICT", ToJson([consumed |-> l - 1, bad |-> bad, inexact |-> skip])>>)
=============================================================================
