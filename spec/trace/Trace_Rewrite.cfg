SPECIFICATION Spec
CONSTANT Dev_PowKeepsZeros = FALSE
INVARIANT Final
CHECK_DEADLOCK FALSE
