------------------------------ MODULE Trace_Sys ------------------------------
(* C14 over the bundled registry.  Data.groups : name -> [using, units] and            *)
(* Data.systems : name -> [using, rules = << [new, old] >>] as read by the independent  *)
(* reader; Data.allunits; Data.defgroup (the @defaults group, which receives every unit *)
(* not placed in a group); Data.syssplits (splits of the names used in rules).          *)
(* Events:  members [kind, name, members]     listing of a group's / system's members    *)
(*          base    [sys, u, units, num, den]  to_base_units: container and factor         *)
(*          compat  [u, scope, listed]         compatible units restricted to group/system *)
EXTENDS DefTable
Trace == Data.trace
Groups == Data.groups
Syss == Data.systems
SeqSet(s) == {s[i] : i \in 1..Len(s)}
AllUnits == SeqSet(Data.allunits)
VARIABLES l, bad, skip
vars == <<l, bad, skip>>

\* ---- membership ----
Explicit == DOMAIN Groups
RECURSIVE UsedG(_, _)
UsedG(gs, seen) == LET nxt == (UNION {SeqSet(Groups[g].using) : g \in gs \cap Explicit}) \ seen IN
                   IF nxt = {} THEN seen ELSE UsedG(nxt, seen \cup nxt)
ExplicitMembers(g) == SeqSet(Groups[g].units) \cup UNION {SeqSet(Groups[h].units) : h \in UsedG({g}, {}) \cap Explicit}
Placed == UNION {ExplicitMembers(g) : g \in Explicit}
MembersG(g) == CASE g = "root" -> AllUnits
                 [] g = Data.defgroup -> AllUnits \ Placed
                 [] g \in Explicit -> ExplicitMembers(g)
                 [] OTHER -> {}
MembersS(s) == UNION {MembersG(g) : g \in SeqSet(Syss[s].using)}

\* ---- base units ----
NameRes(n) == IF n \in DOMAIN Units THEN <<"ok", "_empty", n>> ELSE Resolve(n, Data.syssplits[n])
NameRoot(n) == RootUnit(NameRes(n)[3])
NameFp(n) == LET r == NameRes(n) IN FMul(PVal[r[2]], FpUnit(r[3]))
NameExact(n) == ExactUnit(NameRes(n)[3])
CanonName(n) == LET r == NameRes(n) IN IF r[2] = "_empty" THEN r[3] ELSE r[2] \o r[3]
RuleSubstT(r) ==
    LET ex == NameRoot(r.new)
        old == IF r.old = "" THEN CHOOSE n \in DOMAIN ex : TRUE ELSE CanonName(r.old)
        eo == ex[old]
    IN <<old, Mul(Single(CanonName(r.new), RDiv(One, eo)), Pow(Remove(ex, {old}), RDiv(R(-1), eo)))>>
SubstT(s) == [i \in 1..Len(Syss[s].rules) |-> RuleSubstT(Syss[s].rules[i])]
RECURSIVE SubstituteT(_, _, _)
SubstituteT(subst, root, todo) ==
    IF todo = {} THEN Empty
    ELSE LET n == CHOOSE x \in todo : TRUE
             hit == {i \in 1..Len(subst) : subst[i][1] = n}
             one == IF hit = {} THEN Single(n, root[n]) ELSE Pow(subst[CHOOSE i \in hit : \A j \in hit : i >= j][2], root[n])
         IN Mul(one, SubstituteT(subst, root, todo \ {n}))
BaseDestT(s, c) == LET root == RootOf(c) IN IF s = "None" THEN root ELSE SubstituteT(SubstT(s), root, DOMAIN root)
RECURSIVE FpNames(_, _)
FpNames(c, todo) == IF todo = {} THEN FOne ELSE LET n == CHOOSE x \in todo : TRUE IN FMul(FPow(NameFp(n), c[n][1]), FpNames(c, todo \ {n}))
IntExps(c) == \A n \in DOMAIN c : RIsInt(c[n]) /\ NameExact(n)

BaseClauses(e) ==
    IF ~AllResolve(e.u) THEN {"resolve"}
    ELSE LET dest == BaseDestT(e.sys, e.u) IN
         (IF ~PairsCanonical(e.units) \/ FromPairs(e.units) # dest THEN {"base-units"} ELSE {})
         \cup (IF ExactOf(e.u) /\ IntExps(dest) /\ FromPairs(e.units) = dest
                  /\ ~FMatches(FDiv(FpOf(e.u), FpNames(dest, DOMAIN dest)), e.num, e.den) THEN {"base-factor"} ELSE {})
MemberClauses(e) ==
    LET want == IF e.kind = "group" THEN MembersG(e.name) ELSE MembersS(e.name) IN
    IF SeqSet(e.members) # want THEN {"members-" \o e.kind} ELSE {}
CompatClauses(e) ==
    IF ~AllResolve(e.u) THEN {"resolve"}
    ELSE LET scope == IF e.scope \in DOMAIN Syss THEN MembersS(e.scope) ELSE MembersG(e.scope)
             d == DimOf(e.u)
             want == {n \in scope : n \in DOMAIN Units /\ DimUnit(n) = d}
         IN IF SeqSet(e.listed) # want THEN {"compatible-in-scope"} ELSE {}
Clauses(e) == CASE e.ev = "base" -> BaseClauses(e) [] e.ev = "members" -> MemberClauses(e) [] e.ev = "compat" -> CompatClauses(e)
Init == l = 1 /\ bad = {} /\ skip = {}
Next == /\ l <= Len(Trace)
        /\ bad' = bad \cup {<<l, c>> : c \in Clauses(Trace[l])}
        /\ skip' = IF Trace[l].ev = "base" /\ AllResolve(Trace[l].u) /\ ~(ExactOf(Trace[l].u) /\ IntExps(BaseDestT(Trace[l].sys, Trace[l].u)))
                   THEN skip \cup {l} ELSE skip
        /\ l' = l + 1
Spec == Init /\ [][Next]_vars
Final == l = Len(Trace) + 1 =>
            PrintT(<<"VERDICT", ToJson([consumed |-> l - 1, bad |-> bad, inexact |-> skip])>>)
=============================================================================
