----------------------------- MODULE Trace_Hist -----------------------------
(* C13 over the bundled registry: answers are a function of the declarative state.    *)
(* Events (one per public call):                                                        *)
(*   enable [ctx, kw, res] | disable [n] | define [name] | sys [name]     mutations     *)
(*   query [q, ans]                                                       questions     *)
(* tid changes => fresh registry.  The specification follows the declarative state      *)
(* <<active stack, definitions made, default system>> through the mutation events with  *)
(* the stack semantics of PintRegistry (a failed activation changes nothing) and keeps, *)
(* for the whole run, the first answer seen for each <<declarative state, question>>;   *)
(* a different answer later - in the same registry after other queries, or in a         *)
(* registry built afresh and brought into the same state - is a violation.              *)
EXTENDS Integers, Sequences, FiniteSets, TLC, Json, IOUtils
Trace == JsonDeserialize(IOEnv.TRACE_FILE).trace
VARIABLES l, tid, active, defs, defsys, seen, bad
vars == <<l, tid, active, defs, defsys, seen, bad>>
Drop(s, n) == SubSeq(s, (IF n > Len(s) THEN Len(s) ELSE n) + 1, Len(s))
Key(a, d, s) == [active |-> a, defs |-> d, defsys |-> s]
Init == l = 1 /\ tid = -1 /\ active = <<>> /\ defs = {} /\ defsys = "<initial>" /\ seen = <<>> /\ bad = {}
Next ==
  /\ l <= Len(Trace)
  /\ LET e == Trace[l]
         fresh == e.tid # tid
         a0 == IF fresh THEN <<>> ELSE active
         d0 == IF fresh THEN {} ELSE defs
         s0 == IF fresh THEN "<initial>" ELSE defsys
         a1 == CASE e.ev = "enable" /\ e.res = "ok" -> <<<<e.ctx, e.kw>>>> \o a0
                 [] e.ev = "disable" -> Drop(a0, e.n)
                 [] OTHER -> a0
         d1 == IF e.ev = "define" THEN d0 \cup {e.name} ELSE d0
         s1 == IF e.ev = "sys" THEN e.name ELSE s0
     IN /\ tid' = e.tid /\ active' = a1 /\ defs' = d1 /\ defsys' = s1
        /\ IF e.ev = "query"
           THEN LET k == <<Key(a1, d1, s1), e.q>>
                    hits == {i \in 1..Len(seen) : seen[i][1] = k} IN
                IF hits # {}
                THEN /\ seen' = seen
                     /\ bad' = IF seen[CHOOSE i \in hits : TRUE][2] = e.ans THEN bad
                               ELSE bad \cup {<<l, "history-dependent-answer">>}
                ELSE seen' = Append(seen, <<k, e.ans, l>>) /\ bad' = bad
           ELSE seen' = seen /\ bad' = bad
  /\ l' = l + 1
Spec == Init /\ [][Next]_vars
\* for every rejected line, also name the line that holds the first answer for the same key
FirstOf(ln) == LET e == Trace[ln] IN 0
Final == l = Len(Trace) + 1 => PrintT(<<"VERDICT", ToJson([consumed |-> l - 1, bad |-> bad])>>)
=============================================================================
