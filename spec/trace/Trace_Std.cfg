SPECIFICATION Spec
INVARIANT Final
CHECK_DEADLOCK FALSE
