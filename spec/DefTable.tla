------------------------------ MODULE DefTable ------------------------------
(* The meaning of a loaded definition table (abstract lines produced by the            *)
(* independent lexical reader, harness/reader.py): spelling tables, name resolution,    *)
(* dimensionality, root units and root factors (as modular fingerprints).               *)
(* Data record (all names are escaped ASCII tokens):                                    *)
(*   units  : name -> [base, ok, s = <<s1, s2>>, ref = <<<<spelling, <<n, d>>>>, ...>>, nonmult] *)
(*   ddims  : derived dimension -> <<<<dimension, <<n, d>>>>, ...>>                      *)
(*   usp    : unit spelling -> canonical name      psp : prefix spelling -> prefix name  *)
(*   porder : prefix spellings in file order ("_empty" first)   pval : prefix -> <<v1,v2>> *)
(*   refsplits : referenced spelling -> its splits <<[h, m, t, mlen], ...>>              *)
EXTENDS UnitAlgebra, ModArith, Json, IOUtils

Data == JsonDeserialize(IOEnv.TRACE_FILE)
Units == Data.units
DDims == Data.ddims
Usp == Data.usp
Psp == Data.psp
POrder == Data.porder
PVal == Data.pval

\* ------------------------------------------------------------------ name resolution (C08 rules)
\* exact table hit first; else suffix "" before "s", prefixes in file order; a one-letter unit part
\* is never a plural; non-multiplicative units refuse prefixes.
Hit(sp) == sp.h \in DOMAIN Psp /\ sp.m \in DOMAIN Usp /\ (sp.t = "s" => sp.mlen # 1)
PIdx(h) == CHOOSE i \in 1..Len(POrder) : POrder[i] = h
FirstByPrefix(hits) ==
    IF hits = {} THEN {}
    ELSE LET best == CHOOSE x \in hits : \A y \in hits : PIdx(x.h) <= PIdx(y.h)
         IN {x \in hits : x.h = best.h}
Resolve(s, splits) ==          \* <<kind, prefix name, canonical unit>>
    IF s \in DOMAIN Usp THEN <<"ok", "_empty", Usp[s]>>
    ELSE LET all == {splits[i] : i \in 1..Len(splits)}
             h0 == FirstByPrefix({sp \in all : sp.t = "" /\ Hit(sp)})
             h1 == FirstByPrefix({sp \in all : sp.t = "s" /\ Hit(sp)})
             f == IF h0 # {} THEN h0 ELSE h1
         IN IF f = {} THEN <<"undef", "", "">>
            ELSE LET sp == CHOOSE x \in f : TRUE  p == Psp[sp.h]  u == Usp[sp.m] IN
                 IF p # "_empty" /\ Units[u].nonmult THEN <<"offset", "", "">> ELSE <<"ok", p, u>>
ResolveRef(s) == Resolve(s, Data.refsplits[s])

\* ------------------------------------------------------------------ dimensionality (exact rationals)
RECURSIVE ExpandDimPairs(_), ExpandDim1(_)
ExpandDim1(d) == IF d = "_u005B_u005D" THEN Empty              \* "[]": the dimensionless marker
                 ELSE IF d \in DOMAIN DDims THEN ExpandDimPairs(DDims[d]) ELSE Single(d, One)
ExpandDimPairs(ps) == IF ps = <<>> THEN Empty
                      ELSE Mul(Pow(ExpandDim1(ps[1][1]), ps[1][2]), ExpandDimPairs(Tail(ps)))
RECURSIVE DimUnit(_), DimRefPairs(_)
DimUnit(n) == LET d == Units[n] IN IF d.base THEN ExpandDimPairs(d.ref) ELSE DimRefPairs(d.ref)
DimRefPairs(ps) ==
    IF ps = <<>> THEN Empty
    ELSE LET r == ResolveRef(ps[1][1]) IN Mul(Pow(DimUnit(r[3]), ps[1][2]), DimRefPairs(Tail(ps)))

\* ------------------------------------------------------------------ root units and root factor
RECURSIVE RootUnit(_), RootRefPairs(_)
RootUnit(n) == LET d == Units[n] IN IF d.base THEN Single(n, One) ELSE RootRefPairs(d.ref)
RootRefPairs(ps) ==
    IF ps = <<>> THEN Empty
    ELSE LET r == ResolveRef(ps[1][1]) IN Mul(Pow(RootUnit(r[3]), ps[1][2]), RootRefPairs(Tail(ps)))

\* a unit's factor is fingerprintable iff its written scale is rational and every exponent on the way
\* down is an integer
RECURSIVE ExactUnit(_)
ExactUnit(n) == LET d == Units[n] IN
    d.base \/ (d.ok /\ \A i \in 1..Len(d.ref) : RIsInt(d.ref[i][2]) /\ ExactUnit(ResolveRef(d.ref[i][1])[3]))
RECURSIVE FpUnit(_), FpRefPairs(_)
FpUnit(n) == LET d == Units[n] IN IF d.base THEN FOne ELSE FMul(d.s, FpRefPairs(d.ref))
FpRefPairs(ps) ==
    IF ps = <<>> THEN FOne
    ELSE LET r == ResolveRef(ps[1][1]) IN
         FMul(FPow(FMul(PVal[r[2]], FpUnit(r[3])), ps[1][2][1]), FpRefPairs(Tail(ps)))

\* ------------------------------------------------------------------ containers given in events
\* an event container is a sequence of records [s |-> spelling, e |-> <<n, d>>, sp |-> splits]
ItemRes(it) == Resolve(it.s, it.sp)
AllResolve(c) == \A i \in 1..Len(c) : ItemRes(c[i])[1] = "ok"
RECURSIVE DimOf(_), RootOf(_), FpOf(_), CanonOf(_)
DimOf(c) == IF c = <<>> THEN Empty ELSE Mul(Pow(DimUnit(ItemRes(c[1])[3]), c[1].e), DimOf(Tail(c)))
RootOf(c) == IF c = <<>> THEN Empty ELSE Mul(Pow(RootUnit(ItemRes(c[1])[3]), c[1].e), RootOf(Tail(c)))
ExactOf(c) == \A i \in 1..Len(c) : RIsInt(c[i].e) /\ ExactUnit(ItemRes(c[i])[3])
FpOf(c) == IF c = <<>> THEN FOne
           ELSE LET r == ItemRes(c[1]) IN FMul(FPow(FMul(PVal[r[2]], FpUnit(r[3])), c[1].e[1]), FpOf(Tail(c)))
\* the canonical container an event container denotes: prefix name + unit name
CanonOf(c) == IF c = <<>> THEN Empty
              ELSE LET r == ItemRes(c[1])  nm == IF r[2] = "_empty" THEN r[3] ELSE r[2] \o r[3]
                   IN Mul(Single(nm, c[1].e), CanonOf(Tail(c)))
Multiplicative(c) == \A i \in 1..Len(c) : ~Units[ItemRes(c[i])[3]].nonmult
=============================================================================
