------------------------------- MODULE Names -------------------------------
(* Resolution of unit spellings (C08).                                                *)
(* A spelling is a sequence of one-character strings.  Tables:                         *)
(*   usp : spelling -> canonical unit name      (names, symbols, aliases)              *)
(*   psp : spelling -> canonical prefix name    (names, symbols, aliases; <<>> -> "")  *)
(*   porder : sequence of prefix spellings in insertion order (the empty one first)    *)
(*   offsetUnits : set of canonical unit names that cannot be prefixed                 *)
(* The result of resolving s is  [kind |-> "ok", prefix, unit]  | "undef" | "offset".  *)
EXTENDS Sequences, FiniteSets, Integers, TLC

Suffixes == << <<>>, <<"s">> >>                 \* "" before "s"

StartsWith(s, p) == Len(p) <= Len(s) /\ SubSeq(s, 1, Len(p)) = p
EndsWith(s, x)   == Len(x) <= Len(s) /\ SubSeq(s, Len(s) - Len(x) + 1, Len(s)) = x
Middle(s, p, x)  == SubSeq(s, Len(p) + 1, Len(s) - Len(x))

\* ---- declarative: the set of readings of s ----
Readings(t, s) ==
    { <<t.psp[p], t.usp[Middle(s, p, x)]>> :
        <<p, x>> \in { <<p, x>> \in (DOMAIN t.psp) \X {<<>>, <<"s">>} :
                         /\ StartsWith(s, p) /\ EndsWith(SubSeq(s, Len(p) + 1, Len(s)), x)
                         /\ Len(p) + Len(x) <= Len(s)
                         /\ (x # <<>> => Len(Middle(s, p, x)) # 1)        \* one-letter stems have no plural
                         /\ Middle(s, p, x) \in DOMAIN t.usp } }
IsDefinedName(t, s) == s \in DOMAIN t.usp
\* a prefixed reading hides the equal unprefixed reading of a lazily registered long name: not modelled
\* declaratively; the denotation is: the defined name, else a reading, else undefined
Denotations(t, s) ==
    IF IsDefinedName(t, s) THEN { <<"", t.usp[s]>> } ELSE Readings(t, s)

\* ---- operational: the candidate loop of _yield_unit_triplets + _dedup_candidates + get_name ----
RECURSIVE CandLoop(_, _, _, _, _)
CandLoop(t, s, si, pi, acc) ==          \* si index in Suffixes, pi index in t.porder
    IF si > Len(Suffixes) THEN acc
    ELSE IF pi > Len(t.porder) THEN CandLoop(t, s, si + 1, 1, acc)
    ELSE LET x == Suffixes[si]  p == t.porder[pi]
             ok == /\ StartsWith(s, p) /\ EndsWith(s, x) /\ Len(p) + Len(x) <= Len(s)
             name == Middle(s, p, x)
             hit == ok /\ (x # <<>> => Len(name) # 1) /\ name \in DOMAIN t.usp
             c == <<t.psp[p], t.usp[name]>>
             acc2 == IF hit /\ ~(\E i \in 1..Len(acc) : acc[i] = c) THEN Append(acc, c) ELSE acc
         IN CandLoop(t, s, si, pi + 1, acc2)
Candidates(t, s) == CandLoop(t, s, 1, 1, <<>>)
\* _dedup_candidates: a prefixed candidate (p,u) removes ("", p \o u) -- needs the long names as strings;
\* t.longname[<<p,u>>] gives the canonical unit name equal to prefixname+unitname if such a unit is in the table
Dedup(t, cs) == SelectSeq(cs, LAMBDA c : ~(c[1] = "" /\ \E i \in 1..Len(cs) :
                                              cs[i][1] # "" /\ <<cs[i][1], cs[i][2]>> \in DOMAIN t.longname
                                              /\ t.longname[<<cs[i][1], cs[i][2]>>] = c[2]))
Resolve(t, s) ==
    IF s \in DOMAIN t.usp THEN [kind |-> "ok", prefix |-> "", unit |-> t.usp[s]]
    ELSE LET cs == Dedup(t, Candidates(t, s)) IN
         IF cs = <<>> THEN [kind |-> "undef", prefix |-> "", unit |-> ""]
         ELSE IF cs[1][1] # "" /\ cs[1][2] \in t.offsetUnits THEN [kind |-> "offset", prefix |-> cs[1][1], unit |-> cs[1][2]]
         ELSE [kind |-> "ok", prefix |-> cs[1][1], unit |-> cs[1][2]]
=============================================================================
