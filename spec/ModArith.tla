------------------------------ MODULE ModArith ------------------------------
(* Residues modulo two primes below 46341 (products fit TLC's 32-bit integers).       *)
(* Q -> Z/P1 x Z/P2 is a ring homomorphism on the rationals whose denominators avoid   *)
(* the primes: products, quotients, integer powers and sums commute with it.  The      *)
(* default registry's factors (6.02214076e23, 50-digit pi, ...) are compared through   *)
(* these fingerprints: sound on the alarm side, miss probability ~5e-10 per event.     *)
EXTENDS Integers
P1 == 46337
P2 == 46327
RECURSIVE PowMod(_, _, _)
PowMod(b, e, p) == IF e = 0 THEN 1
                   ELSE LET h == PowMod(b, e \div 2, p)  hh == (h * h) % p
                        IN IF e % 2 = 0 THEN hh ELSE (hh * (b % p)) % p
InvMod(a, p) == PowMod(a, p - 2, p)
PowZ(b, e, p) == IF e >= 0 THEN PowMod(b, e, p) ELSE PowMod(InvMod(b, p), -e, p)
\* fingerprints are pairs <<r1, r2>>
FOne == <<1, 1>>
FMul(a, b) == <<(a[1] * b[1]) % P1, (a[2] * b[2]) % P2>>
FInv(a) == <<InvMod(a[1], P1), InvMod(a[2], P2)>>
FDiv(a, b) == FMul(a, FInv(b))
FPow(a, e) == <<PowZ(a[1], e, P1), PowZ(a[2], e, P2)>>
FAdd(a, b) == <<(a[1] + b[1]) % P1, (a[2] + b[2]) % P2>>
FNeg(a) == <<(P1 - a[1]) % P1, (P2 - a[2]) % P2>>
FOfInt(n) == <<n % P1, n % P2>>
FOfRat(q) == FDiv(FOfInt(q[1]), FOfInt(q[2]))
\* observed exact fraction num/den (both reduced mod p by the driver) equals fingerprint f
FMatches(f, num, den) == /\ num[1] = (f[1] * den[1]) % P1 /\ num[2] = (f[2] * den[2]) % P2
=============================================================================
