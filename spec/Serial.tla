-------------------------------- MODULE Serial --------------------------------
(* Copy, pickle, tuple serialisation and registry isolation (C18).                     *)
(* Registries: "src" (explicitly built), "copy" (a deep copy of src, once made), "app"   *)
(* (the application registry unpickled objects attach to).  decl[r] is the declarative    *)
(* state of registry r: the set of facts asserted in it (a unit defined, a unit added to   *)
(* a group, a context enabled, a default system chosen).  Objects are records              *)
(* [kind, val, owner]; every serialisation produces an object with the same kind and       *)
(* value whose owner is fixed by the protocol.                                             *)
EXTENDS Sequences, FiniteSets, Integers, TLC
CONSTANT MaxOps
Regs == {"src", "copy", "app"}
Facts == {"define", "group", "context", "system"}
Kinds == {"quantity", "unit", "measurement"}
Vals == {"1.5 km", "3 uF"}                       \* "uF": a prefixed unit that exists only after parsing
Hows == {"pickle", "copy", "deepcopy", "tuple"}
PName(v) == IF v = "1.5 km" THEN "km" ELSE "uF"    \* the prefixed unit a value mentions
PNames == {"km", "uF"}
\* known[r]: prefixed units registered in r.  They are registered lazily, the first time they are parsed; a unit parsed while a
\* redefinition context is active is registered in that context's overlay only, and the overlay is dropped on exit.
VARIABLES exists, decl, known, objs, last, hist
vars == <<exists, decl, known, objs, last, hist>>
Log(op, res) == hist' = Append(hist, [op |-> op, res |-> res, decl |-> decl', exists |-> exists', known |-> known'])
\* owner of the result of a serialisation
OwnerAfter(o, how, target) == CASE how = "pickle" -> "app" [] how \in {"copy", "deepcopy"} -> o.owner [] how = "tuple" -> target
Init == exists = {"src", "app"} /\ decl = [r \in Regs |-> {}] /\ known = [r \in Regs |-> {}] /\ objs = {} /\ last = [kind |-> "", val |-> "", owner |-> ""] /\ hist = <<>>
DeepCopyReg == /\ "copy" \notin exists /\ exists' = exists \cup {"copy"} /\ decl' = [decl EXCEPT !["copy"] = decl["src"]]
               /\ known' = [known EXCEPT !["copy"] = known["src"]] /\ UNCHANGED <<objs, last>> /\ Log(<<"deepcopy-registry">>, "ok")
Mutate(r, f) == /\ r \in exists /\ f \notin decl[r] /\ decl' = [decl EXCEPT ![r] = @ \cup {f}]
                /\ UNCHANGED <<exists, known, objs, last>> /\ Log(<<"mutate", r, f>>, "ok")
\* a prefixed unit is parsed inside a redefinition context which is then left: nothing stays registered
OverlayParse(r, n) == /\ r \in exists /\ n \notin known[r] /\ UNCHANGED <<exists, decl, known, objs, last>> /\ Log(<<"overlay-parse", r, n>>, "ok")
Make(r, k, v) == /\ r \in exists /\ LET o == [kind |-> k, val |-> v, owner |-> r] IN objs' = objs \cup {o} /\ last' = o
                 /\ known' = [known EXCEPT ![r] = @ \cup {PName(v)}]
                 /\ UNCHANGED <<exists, decl>> /\ Log(<<"make", r, k, v>>, "ok")
Serialize(how, target) == /\ last.kind # "" /\ target \in exists
                          /\ LET o == [kind |-> last.kind, val |-> last.val, owner |-> OwnerAfter(last, how, target)] IN objs' = objs \cup {o} /\ last' = o
                                                                                                          /\ known' = IF how # "pickle" THEN known    \* only unpickling parses the names; from_tuple and the copies take the container as given
                                                                                                                       ELSE [known EXCEPT ![o.owner] = @ \cup {PName(o.val)}]
                          /\ UNCHANGED <<exists, decl>> /\ Log(<<"serialize", how, target>>, "ok")
CrossOp(a, b) == /\ a \in objs /\ b \in objs /\ a.kind = "quantity" /\ b.kind = "quantity"
                 /\ UNCHANGED <<exists, decl, known, objs, last>> /\ Log(<<"op", a.owner, b.owner>>, IF a.owner = b.owner THEN "ok" ELSE "valueerr")
Next == /\ Len(hist) < MaxOps
        /\ \/ DeepCopyReg
           \/ \E r \in Regs, f \in Facts : Mutate(r, f)
           \/ \E r \in Regs, n \in PNames : OverlayParse(r, n)
           \/ \E r \in Regs, k \in Kinds, v \in Vals : Make(r, k, v)
           \/ \E how \in Hows, t \in Regs : (how = "tuple" \/ t = "src") /\ Serialize(how, t)
           \/ \E a \in objs, b \in objs : CrossOp(a, b)
Spec == Init /\ [][Next]_vars
View == <<exists, decl, known, objs, last, Len(hist)>>
\* ---- laws ----
RoundTrip == [][\A how \in Hows, t \in Regs : Serialize(how, t) => last'.kind = last.kind /\ last'.val = last.val]_vars
UnpicklesIntoApp == [][\A t \in Regs : Serialize("pickle", t) => last'.owner = "app"]_vars
CopyKeepsOwner == [][\A t \in Regs : (Serialize("copy", t) \/ Serialize("deepcopy", t)) => last'.owner = last.owner]_vars
Isolated == [][\A r \in Regs, f \in Facts : Mutate(r, f) => \A q \in Regs \ {r} : decl'[q] = decl[q]]_vars
CopyStartsEqual == [][DeepCopyReg => decl'["copy"] = decl["src"]]_vars
\* every object's prefixed unit is registered in the registry that owns it (in particular after unpickling into the application registry)
UnpickleRegisters == [][\A t \in Regs : Serialize("pickle", t) => PName(last'.val) \in known'["app"]]_vars
MakeRegisters == [][\A r \in Regs, k \in Kinds, v \in Vals : Make(r, k, v) => PName(v) \in known'[r]]_vars
=============================================================================
