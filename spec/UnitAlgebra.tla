----------------------------- MODULE UnitAlgebra -----------------------------
(* Unit containers: finite maps  name -> non-zero rational exponent.                  *)
(* A container is a function whose DOMAIN is its support (canonical form: no zero).   *)
(* Declarative operations are pointwise; the operational ones follow pint.util.       *)
(* UnitsContainer (copy, then update key by key, deleting zero entries).              *)
(* Serves C04 directly and every other module as the algebra of units/dimensions.     *)
EXTENDS Rat, FiniteSets, Sequences, TLC

Empty == [n \in {} |-> Zero]                       \* the dimensionless container
Exp(u, n) == IF n \in DOMAIN u THEN u[n] ELSE Zero  \* udict.__missing__ returns 0
Support(f, names) == {n \in names : ~RIsZero(f[n])}
Canon(f, names) == [n \in Support(f, names) |-> f[n]]  \* drop zero exponents

IsContainer(u) == \A n \in DOMAIN u : IsRat(u[n]) /\ ~RIsZero(u[n])

\* ---- declarative (pointwise) ----
Mul(u, v) == LET ns == DOMAIN u \cup DOMAIN v
             IN Canon([n \in ns |-> RAdd(Exp(u, n), Exp(v, n))], ns)
Div(u, v) == LET ns == DOMAIN u \cup DOMAIN v
             IN Canon([n \in ns |-> RSub(Exp(u, n), Exp(v, n))], ns)
Pow(u, k) == Canon([n \in DOMAIN u |-> RMul(u[n], k)], DOMAIN u)      \* k rational
Inv(u)    == Pow(u, R(-1))
Single(n, e) == IF RIsZero(e) THEN Empty ELSE [m \in {n} |-> e]
Add1(u, n, e) == Mul(u, Single(n, e))              \* UnitsContainer.add
Remove(u, ns) == [n \in DOMAIN u \ ns |-> u[n]]
Rename(u, old, new) == Mul(Remove(u, {old}), Single(new, Exp(u, old)))

\* ---- operational: key-by-key update as in UnitsContainer.__mul__ / __truediv__ / __pow__ ----
\* A raw dict may hold zero entries; Dev_PowKeepsZeros is the named deviation "power never cleans
\* up" (diagnostic configurations only: registered configurations have it FALSE).
CONSTANT Dev_PowKeepsZeros
RECURSIVE OpUpdate(_, _, _, _)
OpUpdate(d, items, sign, todo) ==        \* d: raw function, items: container to merge, todo \subseteq DOMAIN items
    IF todo = {} THEN d
    ELSE LET k == CHOOSE x \in todo : TRUE
             nv == RAdd(IF k \in DOMAIN d THEN d[k] ELSE Zero, IF sign = 1 THEN items[k] ELSE RNeg(items[k]))
             d2 == IF RIsZero(nv) THEN [n \in DOMAIN d \ {k} |-> d[n]]
                   ELSE [n \in DOMAIN d \cup {k} |-> IF n = k THEN nv ELSE d[n]]
         IN OpUpdate(d2, items, sign, todo \ {k})
OpMul(u, v) == OpUpdate(u, v, 1, DOMAIN v)
OpDiv(u, v) == OpUpdate(u, v, -1, DOMAIN v)
OpPow(u, k) == IF Dev_PowKeepsZeros THEN [n \in DOMAIN u |-> RMul(u[n], k)]
               ELSE Canon([n \in DOMAIN u |-> RMul(u[n], k)], DOMAIN u)
OpRDiv(u) == OpPow(u, R(-1))                       \* number / container: __rtruediv__

\* equality and hashing are on (name, exponent) items
Eq(u, v) == u = v
HashKey(u) == {<<n, u[n]>> : n \in DOMAIN u}

\* ---- sequences of (name, exponent) pairs, the JSON image of a container ----
RECURSIVE FromPairs(_)
FromPairs(ps) == IF ps = <<>> THEN Empty ELSE Mul(Single(ps[1][1], ps[1][2]), FromPairs(Tail(ps)))
PairsCanonical(ps) ==                    \* what a printed container must look like: distinct names, no zero
    /\ \A i \in 1..Len(ps) : ~RIsZero(ps[i][2]) /\ ps[i][2][2] > 0 /\ Gcd(Abs(ps[i][2][1]), ps[i][2][2]) = 1
    /\ \A i, j \in 1..Len(ps) : i # j => ps[i][1] # ps[j][1]
=============================================================================
