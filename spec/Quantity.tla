------------------------------ MODULE Quantity ------------------------------
(* Arithmetic, comparison and hashing of quantities (C03, C05), on top of Offset.     *)
(* Q(m, u) is a quantity, Num(x) a bare number.  Operators follow PlainQuantity's      *)
(* methods branch by branch; the covariance / equivalence laws are stated in the MC    *)
(* modules against Phys, the physical value.                                           *)
EXTENDS Offset

IsNum(x) == x.num
Q(m, u) == [m |-> m, u |-> u, num |-> FALSE]
Num(x) == [m |-> x, u |-> Empty, num |-> TRUE]
Dimless(reg, q) == DimDecl(reg, q.u) = Empty
SameDim(reg, a, b) == DimDecl(reg, a.u) = DimDecl(reg, b.u)
\* physical value: magnitude in root units (through the affine map for a lone offset unit) and
\* dimensionality - not the root container: pint's convertibility ignores dimensionless base units
Phys(reg, ac, q) == LET r == ToRoot(reg, TRUE, q) IN
                    IF IsOk(r) THEN <<r.m, DimDecl(reg, q.u)>> ELSE <<"none", DimDecl(reg, q.u)>>

\* ---- + and - ----
AddSubQ(reg, ac, a, b, op) ==       \* a is a quantity; b quantity or number
    IF IsNum(b) THEN
        IF RIsZero(b.m) THEN Ok(Apply(op, a.m, b.m), a.u)                      \* zero: no unit check
        ELSE IF Dimless(reg, a) THEN LET r == To(reg, ac, a, Empty) IN
                 IF IsOk(r) THEN Ok(Apply(op, r.m, b.m), Empty) ELSE r
        ELSE DimErr
    ELSE AddSub(reg, ac, a, b, op)
NegR(r) == IF IsOk(r) THEN Ok(RNeg(r.m), r.u) ELSE r
RSubQ(reg, ac, a, n) == NegR(AddSubQ(reg, ac, a, n, "sub"))                    \* n - a = -(a - n)
\* ---- * / ** ----
MulQ(reg, ac, a, b) == IF IsNum(b) THEN MulDivN(reg, ac, a, b.m, "mul") ELSE MulDivQ(reg, ac, a, b, "mul")
DivQ(reg, ac, a, b) == IF IsNum(b) THEN MulDivN(reg, ac, a, b.m, "div") ELSE MulDivQ(reg, ac, a, b, "div")
RDivQ(reg, ac, a, n) == RDivN(reg, ac, a, n.m)
PowQ(reg, ac, a, e) == PowInt(reg, ac, a, e)
\* ---- // % divmod (operands made consistent: other converted to self's units) ----
FloorDivQ(reg, ac, a, b) ==
    IF IsNum(b) THEN
        IF Dimless(reg, a) THEN LET r == To(reg, ac, a, Empty) IN
            IF ~IsOk(r) THEN r ELSE IF RIsZero(b.m) THEN ZeroDiv ELSE Ok(R(RFloor(RDiv(r.m, b.m))), Empty)
        ELSE DimErr
    ELSE LET r == To(reg, ac, b, a.u) IN
         IF ~IsOk(r) THEN r ELSE IF RIsZero(r.m) THEN ZeroDiv ELSE Ok(R(RFloor(RDiv(a.m, r.m))), Empty)
RFloorDivQ(reg, ac, a, n) ==      \* n // a
    IF Dimless(reg, a) THEN LET r == To(reg, ac, a, Empty) IN
        IF ~IsOk(r) THEN r ELSE IF RIsZero(r.m) THEN ZeroDiv ELSE Ok(R(RFloor(RDiv(n.m, r.m))), Empty)
    ELSE DimErr
ModQ(reg, ac, a, b) ==
    LET bb == IF IsNum(b) THEN Q(b.m, Empty) ELSE b  r == To(reg, ac, bb, a.u) IN
    IF ~IsOk(r) THEN r ELSE IF RIsZero(r.m) THEN ZeroDiv ELSE Ok(RMod(a.m, r.m), a.u)
RModQ(reg, ac, a, n) ==           \* n % a
    IF Dimless(reg, a) THEN LET r == To(reg, ac, a, Empty) IN
        IF ~IsOk(r) THEN r ELSE IF RIsZero(r.m) THEN ZeroDiv ELSE Ok(RMod(n.m, r.m), Empty)
    ELSE DimErr
DivModQ(reg, ac, a, b) ==
    LET q == FloorDivQ(reg, ac, a, IF IsNum(b) THEN b ELSE b)  r == ModQ(reg, ac, a, b) IN
    IF IsNum(b) /\ ~Dimless(reg, a) THEN DimErr
    ELSE IF ~IsOk(r) THEN r ELSE IF ~IsOk(q) THEN q ELSE [k |-> "pair", q |-> q, r |-> r]
\* ---- unary ----
NegQ(a) == Ok(RNeg(a.m), a.u)
AbsQ(a) == Ok(RAbs(a.m), a.u)
BoolQ(reg, a) == IF IsMult(reg, a.u) THEN Bool(~RIsZero(a.m)) ELSE ValErr
\* ---- == (PlainQuantity.__eq__, branch by branch; Dev_ZeroShortcut is the named deviation
\*      "two zero magnitudes compare equal whatever the units", off in registered configurations) ----
CONSTANT Dev_ZeroShortcut
EqQ(reg, ac, a, b) ==
    IF IsNum(b) THEN
        IF RIsZero(b.m) THEN
            IF IsMult(reg, a.u) THEN Bool(RIsZero(a.m))
            ELSE IF ac THEN LET r == ToRoot(reg, ac, a) IN IF IsOk(r) THEN Bool(RIsZero(r.m)) ELSE r
            ELSE OffErr
        ELSE IF ~IsOk(ToRoot(reg, ac, a)) THEN ToRoot(reg, ac, a)
        ELSE IF Dimless(reg, a) THEN LET r == To(reg, ac, a, Empty) IN IF IsOk(r) THEN Bool(r.m = b.m) ELSE Bool(FALSE)
        ELSE Bool(FALSE)
    ELSE IF RIsZero(a.m) /\ RIsZero(b.m) /\ (Dev_ZeroShortcut \/ (IsMult(reg, a.u) /\ IsMult(reg, b.u)))
         THEN Bool(SameDim(reg, a, b))
    ELSE IF a.u = b.u THEN Bool(a.m = b.m)
    ELSE LET r == To(reg, ac, a, b.u) IN IF IsOk(r) THEN Bool(r.m = b.m) ELSE IF r.k = "dimerr" THEN Bool(FALSE) ELSE r
\* ---- ordering: compare(other, op) with op in lt le gt ge ----
CmpRat(op, x, y) == CASE op = "lt" -> RLt(x, y) [] op = "le" -> RLe(x, y) [] op = "gt" -> RLt(y, x) [] op = "ge" -> RLe(y, x)
CmpQ(reg, ac, a, b, op) ==
    IF IsNum(b) THEN
        \* `self.dimensionless` converts to root units first: a container that cannot be converted is refused there
        IF ~IsOk(ToRoot(reg, ac, a)) THEN ToRoot(reg, ac, a)
        ELSE IF Dimless(reg, a) THEN LET r == To(reg, ac, a, Empty) IN IF IsOk(r) THEN Bool(CmpRat(op, r.m, b.m)) ELSE r
        ELSE IF RIsZero(b.m) THEN
            IF IsMult(reg, a.u) THEN Bool(CmpRat(op, a.m, b.m))
            ELSE IF ac THEN LET r == ToRoot(reg, ac, a) IN IF IsOk(r) THEN Bool(CmpRat(op, r.m, b.m)) ELSE r
            ELSE OffErr
        ELSE ValErr
    ELSE IF a.u = b.u THEN Bool(CmpRat(op, a.m, b.m))
    ELSE IF ~SameDim(reg, a, b) THEN DimErr
    ELSE LET ra == ToRoot(reg, ac, a)  rb == ToRoot(reg, ac, b) IN
         IF ~IsOk(ra) THEN ra ELSE IF ~IsOk(rb) THEN rb ELSE Bool(CmpRat(op, ra.m, rb.m))
\* hash: of the quantity in base units (no system: root units); a dimensionless one hashes as its number
HashKeyQ(reg, ac, q) == LET r == ToRoot(reg, ac, q) IN
    IF ~IsOk(r) THEN <<"unhashable">> ELSE IF Dimless(reg, q) THEN <<"num", r.m>> ELSE <<"q", r.m, r.u>>
=============================================================================
