------------------------------ MODULE Systems ------------------------------
(* Groups and systems (C14).                                                          *)
(*  - membership: a group's members are its own units plus those of every group it     *)
(*    uses, transitively (least fixed point, cycles refused); a system's members are   *)
(*    those of its groups; edits (add/remove units, add/remove used groups) take       *)
(*    effect immediately, whatever was queried before;                                 *)
(*  - base units: a system's rules  new  /  new:old  are inverted into substitutions   *)
(*    of root units, and BaseUnits re-expresses any container with them.               *)
EXTENDS Registry

\* ------------------------------------------------------------------ membership (functions own, uses, sysuses)
RECURSIVE ClosureOf(_, _, _)
ClosureOf(uses, gs, seen) == LET nxt == (UNION {uses[g] : g \in gs}) \ seen IN
                             IF nxt = {} THEN seen ELSE ClosureOf(uses, nxt, seen \cup nxt)
UsedGroups(uses, g) == ClosureOf(uses, {g}, {})             \* transitively used groups
MembersOf(own, uses, g) == own[g] \cup UNION {own[h] : h \in UsedGroups(uses, g)}
SysMembersOf(own, uses, sysuses, s) == UNION {MembersOf(own, uses, g) : g \in sysuses[s]}
WouldCycle(uses, g, h) == g = h \/ g \in ClosureOf(uses, {h}, {})

\* ------------------------------------------------------------------ base units
\* a system is a sequence of rules [new |-> unit, old |-> root unit or ""]
RuleSubst(reg, r) ==              \* <<old root unit, container it is replaced by>>
    LET ex == RootUnitsDecl(reg, Single(r.new, One))
        old == IF r.old = "" THEN CHOOSE n \in DOMAIN ex : TRUE ELSE r.old
        eo == ex[old]
        others == Remove(ex, {old})
    IN <<old, Mul(Single(r.new, RDiv(One, eo)), Pow(others, RDiv(R(-1), eo)))>>
RuleOK(reg, r) == LET ex == RootUnitsDecl(reg, Single(r.new, One)) IN
    IF r.old = "" THEN Cardinality(DOMAIN ex) = 1 ELSE (r.old \in DOMAIN reg.units /\ reg.units[r.old].base /\ r.old \in DOMAIN ex)
SubstMap(reg, rules) == [i \in 1..Len(rules) |-> RuleSubst(reg, rules[i])]
RECURSIVE Substitute(_, _, _)
Substitute(subst, root, todo) ==      \* product over the root container's entries
    IF todo = {} THEN Empty
    ELSE LET n == CHOOSE x \in todo : TRUE
             hit == {i \in 1..Len(subst) : subst[i][1] = n}
             one == IF hit = {} THEN Single(n, root[n]) ELSE Pow(subst[CHOOSE i \in hit : \A j \in hit : i >= j][2], root[n])
         IN Mul(one, Substitute(subst, root, todo \ {n}))
\* to_base_units / get_base_units: <<factor, container>>; the factor is rational when the conversion root -> dest is
BaseDest(reg, rules, uc) == LET root == RootUnitsDecl(reg, uc) IN Substitute(SubstMap(reg, rules), root, DOMAIN root)
BaseExact(reg, rules, uc) == Exact(reg, uc) /\ Exact(reg, BaseDest(reg, rules, uc)) /\ Exact(reg, Div(RootUnitsDecl(reg, uc), BaseDest(reg, rules, uc)))
BaseUnits(reg, rules, uc) ==
    LET root == RootUnitsDecl(reg, uc)  dest == BaseDest(reg, rules, uc)
    IN <<RMul(FactorDecl(reg, uc), FactorAB(reg, root, dest)), dest>>
=============================================================================
