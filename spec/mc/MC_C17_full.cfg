SPECIFICATION Spec
INVARIANT IndexIsName
INVARIANT StrictRefusesBare
INVARIANT NonStrictPassesBare
INVARIANT NoneUntouched
INVARIANT IncompatibleRaises
CHECK_DEADLOCK FALSE
CONSTANT Specs3 <- Specs3T
CONSTANT K3 <- K3T
