------------------------------- MODULE MC_C03 -------------------------------
(* C03: arithmetic does not depend on the units used to express the operands.         *)
(* Model registry: m, cm, km, s, ms, pct (0.01), cnt (dimensionless base), rad-like.  *)
(* State = one evaluated operator application (a, b, op, res); the same states are    *)
(* dumped and replayed on the real library.  Laws: covariance under re-expression of   *)
(* every operand in every alternative compatible unit (value or same error kind),      *)
(* dimension errors for + - and ordering across dimensions, bare-number rules.         *)
EXTENDS Quantity
L == Single("[L]", One)  T == Single("[T]", One)
U(base, scale, ref) == [base |-> base, scale |-> scale, ref |-> ref, offset |-> Zero, nonmult |-> FALSE, delta |-> FALSE, deltaOf |-> ""]
Reg == [units |-> [x \in {"m", "cm", "km", "s", "ms", "pct", "cnt"} |->
          CASE x = "m" -> U(TRUE, One, L) [] x = "s" -> U(TRUE, One, T) [] x = "cnt" -> U(TRUE, One, Empty)
            [] x = "cm" -> U(FALSE, <<1, 10>>, Single("m", One)) [] x = "km" -> U(FALSE, R(10), Single("m", One))
            [] x = "ms" -> U(FALSE, <<1, 10>>, Single("s", One)) [] x = "pct" -> U(FALSE, <<1, 100>>, Empty)],
        ddims |-> <<>>]
AC == FALSE
Mags == {<<-3, 2>>, Zero, One, R(2), R(7)}
UnitsPool == {Single("m", One), Single("cm", One), Single("km", One), Single("s", One), Single("ms", One),
              Single("pct", One), Single("cnt", One), Empty, Mul(Single("m", One), Single("s", R(-1))),
              Mul(Single("cm", One), Single("ms", R(-1))), Single("cm", R(2))}
Alt(u) == {v \in UnitsPool : DimDecl(Reg, v) = DimDecl(Reg, u)}
Nums == {Num(x) : x \in {Zero, R(2), <<1, 2>>}}
QOps == {"add", "sub", "mul", "div", "floordiv", "mod", "divmod", "eq", "ne", "lt", "le", "gt", "ge"}
NOps == {"radd", "rsub", "rmul", "rdiv", "rfloordiv", "rmod"}
UOps == {"neg", "abs", "bool", "pow0", "pow1", "pow2", "pow3", "pow-1", "pow-2"}
PowExp(o) == CASE o = "pow0" -> Zero [] o = "pow1" -> One [] o = "pow2" -> R(2) [] o = "pow3" -> R(3) [] o = "pow-1" -> R(-1) [] o = "pow-2" -> R(-2)
Not(r) == IF r.k = "bool" THEN Bool(~r.b) ELSE r
Eval(x, y, o) ==
    CASE o \in {"add", "radd"} -> AddSubQ(Reg, AC, x, y, "add")
      [] o = "sub" -> AddSubQ(Reg, AC, x, y, "sub")
      [] o = "rsub" -> RSubQ(Reg, AC, x, y)
      [] o \in {"mul", "rmul"} -> MulQ(Reg, AC, x, y)
      [] o = "div" -> DivQ(Reg, AC, x, y)
      [] o = "rdiv" -> RDivQ(Reg, AC, x, y)
      [] o = "floordiv" -> FloorDivQ(Reg, AC, x, y)
      [] o = "rfloordiv" -> RFloorDivQ(Reg, AC, x, y)
      [] o = "mod" -> ModQ(Reg, AC, x, y)
      [] o = "rmod" -> RModQ(Reg, AC, x, y)
      [] o = "divmod" -> DivModQ(Reg, AC, x, y)
      [] o = "eq" -> EqQ(Reg, AC, x, y)
      [] o = "ne" -> Not(EqQ(Reg, AC, x, y))
      [] o \in {"lt", "le", "gt", "ge"} -> CmpQ(Reg, AC, x, y, o)
      [] o = "neg" -> NegQ(x) [] o = "abs" -> AbsQ(x) [] o = "bool" -> BoolQ(Reg, x)
      [] o \in {"pow0", "pow1", "pow2", "pow3", "pow-1", "pow-2"} -> PowQ(Reg, AC, x, PowExp(o))

VARIABLES stage, regv, a, b, op, res
vars == <<stage, regv, a, b, op, res>>
None == Q(Zero, Empty)
Init == stage = 0 /\ regv = Reg /\ a = None /\ b = None /\ op = "" /\ res = DimErr
PickA == /\ stage = 0 /\ stage' = 1 /\ regv' = <<>>
         /\ \E m1 \in Mags, u1 \in UnitsPool : a' = Q(m1, u1)
         /\ UNCHANGED <<b, op, res>>
PickB == /\ stage = 1 /\ stage' = 2 /\ UNCHANGED <<regv, a>>
         /\ \/ \E m2 \in Mags, u2 \in UnitsPool, o \in QOps : b' = Q(m2, u2) /\ op' = o /\ res' = Eval(a, Q(m2, u2), o)
            \/ \E n \in Nums, o \in QOps \cup NOps : b' = n /\ op' = o /\ res' = Eval(a, n, o)
            \/ \E o \in UOps : b' = None /\ op' = o /\ res' = Eval(a, None, o)
Next == PickA \/ PickB
Spec == Init /\ [][Next]_vars

\* ---- laws ----
ReQ(q, v) == LET r == To(Reg, AC, q, v) IN Q(r.m, v)         \* the same physical quantity in unit v (same dimension)
PhysRes(r) == CASE r.k = "ok" -> <<"ok", Phys(Reg, AC, Q(r.m, r.u))>>
                [] r.k = "pair" -> <<"pair", Phys(Reg, AC, Q(r.q.m, r.q.u)), Phys(Reg, AC, Q(r.r.m, r.r.u))>>
                [] OTHER -> r
Covariant == stage = 2 =>
    \A va \in Alt(a.u) : \A vb \in (IF IsNum(b) THEN {Empty} ELSE Alt(b.u)) :
        PhysRes(Eval(ReQ(a, va), IF IsNum(b) THEN b ELSE ReQ(b, vb), op)) = PhysRes(res)
CrossDimensionRefused == stage = 2 /\ ~IsNum(b) /\ op \in {"add", "sub", "lt", "le", "gt", "ge"} /\ ~SameDim(Reg, a, b) => res = DimErr
CrossDimensionEq == stage = 2 /\ ~IsNum(b) /\ op = "eq" /\ ~SameDim(Reg, a, b) /\ ~(RIsZero(a.m) /\ RIsZero(b.m)) => res = Bool(FALSE)
BareNumberRule == stage = 2 /\ IsNum(b) /\ op \in {"add", "sub", "radd", "rsub"} =>
                     (IsOk(res) <=> (Dimless(Reg, a) \/ RIsZero(b.m)))
                     /\ (~IsOk(res) => res = DimErr)
NeIsNotEq == stage = 2 /\ op = "ne" => res = Not(EqQ(Reg, AC, a, b))
DivModConsistent == stage = 2 /\ op = "divmod" /\ res.k = "pair" =>
                     /\ res.q = FloorDivQ(Reg, AC, a, b) /\ res.r = ModQ(Reg, AC, a, b)
                     \* a = q * b + r  in a's units
                     /\ LET bb == IF IsNum(b) THEN Q(b.m, Empty) ELSE b IN
                        a.m = RAdd(RMul(res.q.m, To(Reg, AC, bb, a.u).m), res.r.m)
ReflectedAgree == stage = 2 /\ IsNum(b) =>
                     /\ (op = "radd" => res = Eval(a, b, "add"))
                     /\ (op = "rmul" => res = Eval(a, b, "mul"))
                     /\ (op = "rsub" => res = NegR(Eval(a, b, "sub")))
=============================================================================
