SPECIFICATION Spec
CONSTANTS
  DimNames = {"[L]", "[T]", "[Th]"}
  Dev_PowKeepsZeros = FALSE
  Dev_ZeroShortcut = TRUE
  AC = FALSE
INVARIANT EqIsDefinition
INVARIANT EqReflexiveSymmetric
INVARIANT EqTransitive
INVARIANT EqImpliesHash
INVARIANT NeIsNotEq
INVARIANT Trichotomy
INVARIANT OrderByRootMagnitude
INVARIANT OrderConsistent
INVARIANT CrossDimension
INVARIANT BareNumber
CHECK_DEADLOCK FALSE
