SPECIFICATION Spec
CONSTANTS
  DimNames = {"[A]", "[B]", "[C]", "[H]"}
  Dev_PowKeepsZeros = FALSE
  Quick = FALSE
INVARIANT DimOpIsDecl
INVARIANT RootOpIsDecl
INVARIANT RootUnitsAreBase
INVARIANT RootKeepsDim
INVARIANT ConvEquivalence
INVARIANT ConvCongruence
INVARIANT DimHomomorphism
INVARIANT FactorLaws
INVARIANT PrefixLaw
CHECK_DEADLOCK FALSE
