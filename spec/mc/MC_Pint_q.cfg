SPECIFICATION Spec
CONSTANTS
  DimNames = {"[A]", "[B]"}
  Dev_PowKeepsZeros = FALSE
  CtxPool <- Pool
  BaseReg <- Base
  Systems <- Sys
  NoParam <- NoP
  KwVals <- Kw
  MaxOps = 4
  CtxPairs <- PairsQ
  Alphabet <- AllOps
VIEW View
INVARIANT StackDiscipline
INVARIANT SameContextTwice
INVARIANT SameDimUntouched
INVARIANT NoContextNoCrossing
PROPERTY AtomicFailure
PROPERTY NoResidue
PROPERTY Transparent
CHECK_DEADLOCK FALSE
