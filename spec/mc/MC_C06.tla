------------------------------- MODULE MC_C06 -------------------------------
(* C06: offset and logarithmic units convert by their defining maps and refuse        *)
(* ambiguity.  Model registry: absolute K, scaled absolute R, offset C and Fh (other   *)
(* scale), their deltas, a length, and logarithmic dBm (over W), dB, oct (over 1).     *)
(* Every (mode, a, b, op) is a state with the operational answer; the laws are the     *)
(* documented table (docs/user/nonmult.rst and the literal tables of test_quantity).   *)
EXTENDS Quantity
Th == Single("[Th]", One)  L == Single("[L]", One)  P == Single("[P]", One)
U(base, scale, ref, offset, nonmult, delta, deltaOf) ==
    [base |-> base, scale |-> scale, ref |-> ref, offset |-> offset, nonmult |-> nonmult, delta |-> delta, deltaOf |-> deltaOf,
     log |-> FALSE, lb |-> One, lf |-> One]
LogU(scale, ref, lb, lf) == [base |-> FALSE, scale |-> scale, ref |-> ref, offset |-> Zero, nonmult |-> TRUE, delta |-> FALSE, deltaOf |-> "",
                             log |-> TRUE, lb |-> lb, lf |-> lf]
Reg == [units |-> [x \in {"K", "R", "C", "Fh", "delta_C", "delta_Fh", "m", "W", "dBm", "dBW", "dB", "oct"} |->
          CASE x = "K"  -> U(TRUE, One, Th, Zero, FALSE, FALSE, "")
            [] x = "m"  -> U(TRUE, One, L, Zero, FALSE, FALSE, "")
            [] x = "W"  -> U(TRUE, One, P, Zero, FALSE, FALSE, "")
            [] x = "R"  -> U(FALSE, <<5, 9>>, Single("K", One), Zero, FALSE, FALSE, "")
            [] x = "C"  -> U(FALSE, One, Single("K", One), R(273), TRUE, FALSE, "")
            [] x = "Fh" -> U(FALSE, <<5, 9>>, Single("K", One), R(255), TRUE, FALSE, "")
            [] x = "delta_C"  -> U(FALSE, One, Single("K", One), Zero, FALSE, TRUE, "C")
            [] x = "delta_Fh" -> U(FALSE, <<5, 9>>, Single("K", One), Zero, FALSE, TRUE, "Fh")
            [] x = "dBm" -> LogU(<<1, 1000>>, Single("W", One), R(10), R(10))
            [] x = "dBW" -> LogU(One, Single("W", One), R(10), R(10))
            [] x = "dB"  -> LogU(One, Empty, R(10), R(10))
            [] x = "oct" -> LogU(One, Empty, R(2), One)],
        ddims |-> <<>>]
S(n) == Single(n, One)
TempPool == { Q(R(10), S("K")), Q(R(18), S("R")), Q(R(10), S("delta_C")), Q(R(18), S("delta_Fh")), Q(R(10), S("C")),
              Q(R(50), S("Fh")), Q(Zero, S("C")), Q(R(2), S("m")), Q(R(3), Single("C", R(2))), Q(R(3), Mul(S("C"), S("m"))),
              Q(R(4), Mul(S("delta_C"), S("m"))) }
LogPool == { Q(R(20), S("dBm")), Q(Zero, S("dBm")), Q(R(-10), S("dBm")), Q(<<1, 10>>, S("W")), Q(<<1, 1000>>, S("W")),
             Q(R(30), S("dB")), Q(Zero, S("dB")), Q(R(3), S("oct")), Q(Zero, S("oct")), Q(R(8), Empty), Q(R(1000), Empty), Q(One, Empty),
             \* compounds with one logarithmic unit (they convert only in autoconvert mode, and only over a dimensional reference)
             Q(R(20), Div(S("dBm"), S("m"))), Q(<<1, 10>>, Div(S("W"), S("m"))), Q(R(-10), Div(S("dBW"), S("m"))), Q(R(30), Div(S("dB"), S("m"))),
             Q(R(-10), S("dBW")), Q(R(1000), Div(Empty, S("m"))) }
BinOps == {"to", "add", "sub", "mul", "div", "lt", "gt", "eq"}
UnOps == {"muln", "divn", "rdivn", "pow0", "pow1", "pow2", "neg", "eq0", "gt0", "bool"}
Two == Num(R(2))
Eval(ac, x, y, o) ==
    CASE o = "to" -> To(Reg, ac, x, y.u)
      [] o = "add" -> AddSub(Reg, ac, x, y, "add")
      [] o = "sub" -> AddSub(Reg, ac, x, y, "sub")
      [] o = "mul" -> MulDivQ(Reg, ac, x, y, "mul")
      [] o = "div" -> MulDivQ(Reg, ac, x, y, "div")
      [] o \in {"lt", "gt"} -> CmpQ(Reg, ac, x, y, o)
      [] o = "eq" -> EqQ(Reg, ac, x, y)
      [] o = "muln" -> MulDivN(Reg, ac, x, R(2), "mul")
      [] o = "divn" -> MulDivN(Reg, ac, x, R(2), "div")
      [] o = "rdivn" -> RDivN(Reg, ac, x, R(2))
      [] o = "pow0" -> PowInt(Reg, ac, x, Zero) [] o = "pow1" -> PowInt(Reg, ac, x, One) [] o = "pow2" -> PowInt(Reg, ac, x, R(2))
      [] o = "neg" -> NegQ(x)
      [] o = "eq0" -> EqQ(Reg, ac, x, Num(Zero))
      [] o = "gt0" -> CmpQ(Reg, ac, x, Num(Zero), "gt")
      [] o = "bool" -> BoolQ(Reg, x)

VARIABLES stage, regv, ac, a, b, op, res
vars == <<stage, regv, ac, a, b, op, res>>
None == Q(Zero, Empty)
Init == stage = 0 /\ regv = Reg /\ ac = FALSE /\ a = None /\ b = None /\ op = "" /\ res = DimErr
PickA == /\ stage = 0 /\ stage' = 1 /\ regv' = <<>> /\ ac' \in BOOLEAN /\ a' \in TempPool \cup LogPool /\ UNCHANGED <<b, op, res>>
PickB == /\ stage = 1 /\ stage' = 2 /\ UNCHANGED <<regv, ac, a>>
         /\ \/ a \in TempPool /\ \E y \in TempPool, o \in BinOps : b' = y /\ op' = o /\ res' = Eval(ac, a, y, o)
            \/ a \in LogPool /\ \E y \in LogPool : b' = y /\ op' = "to" /\ res' = Eval(ac, a, y, "to")
            \/ \E o \in UnOps : b' = None /\ op' = o /\ res' = Eval(ac, a, None, o)
Next == PickA \/ PickB
Spec == Init /\ [][Next]_vars

\* ---- laws: the documented table ----
Sole(q) == Cardinality(DOMAIN q.u) = 1 /\ \A n \in DOMAIN q.u : q.u[n] = One
Name(q) == CHOOSE n \in DOMAIN q.u : TRUE
IsOffsetQ(q) == Sole(q) /\ Reg.units[Name(q)].nonmult /\ ~IsLog(Reg, Name(q))
IsDeltaQ(q) == Sole(q) /\ Reg.units[Name(q)].delta
IsAbsQ(q) == Sole(q) /\ Name(q) \in {"K", "R"}
HasNonMult(q) == NonMult(Reg, q.u) # {}
Temp == stage = 2 /\ a \in TempPool /\ op \in BinOps
\* conversions follow the defining affine maps through the reference unit
ConvIsDefiningMap == Temp /\ op = "to" /\ (IsOffsetQ(a) \/ IsAbsQ(a)) /\ (IsOffsetQ(b) \/ IsAbsQ(b)) =>
                        res = Ok(DeclConvert1(Reg, a.m, Name(a), Name(b)), b.u)
ConvInverse == stage = 2 /\ op = "to" /\ IsOk(res) /\ res.m # Irr => To(Reg, ac, Q(res.m, res.u), a.u) = Ok(a.m, a.u)
ConvPathIndependent == Temp /\ op = "to" /\ IsOk(res) =>
                        \A c \in TempPool : LET r2 == To(Reg, ac, Q(res.m, res.u), c.u)  r1 == To(Reg, ac, a, c.u) IN
                                            IsOk(r2) /\ IsOk(r1) => r1 = r2
DeltaByScaleOnly == Temp /\ op = "to" /\ IsDeltaQ(a) /\ (IsDeltaQ(b) \/ IsAbsQ(b)) =>
                        res = Ok(RMul(a.m, RDiv(Reg.units[Name(a)].scale, Reg.units[Name(b)].scale)), b.u)
DeltaOffsetRefused == Temp /\ op = "to" /\ ((IsDeltaQ(a) /\ IsOffsetQ(b)) \/ (IsOffsetQ(a) /\ IsDeltaQ(b))) => res = DimErr
\* arithmetic table
OffsetMinusOffsetIsDelta == Temp /\ op = "sub" /\ IsOffsetQ(a) /\ IsOffsetQ(b) =>
                        IsOk(res) /\ res.u = S(DeltaName(Reg, Name(a))) /\ res.m = RSub(a.m, To(Reg, ac, b, a.u).m)
OffsetPlusMinusDeltaStaysOffset == Temp /\ op \in {"add", "sub"} /\ IsOffsetQ(a) /\ IsDeltaQ(b) =>
                        IsOk(res) /\ res.u = a.u
                        /\ res.m = Apply(op, a.m, RMul(b.m, RDiv(Reg.units[Name(b)].scale, Reg.units[Name(a)].scale)))
DeltaPlusOffsetIsOffset == Temp /\ op = "add" /\ IsDeltaQ(a) /\ IsOffsetQ(b) => IsOk(res) /\ res.u = b.u
OffsetPlusOffsetRefused == Temp /\ op = "add" /\ IsOffsetQ(a) /\ (IsOffsetQ(b) \/ IsAbsQ(b)) => res = OffErr
AbsPlusOffsetRefused == Temp /\ op = "add" /\ IsAbsQ(a) /\ IsOffsetQ(b) => res = OffErr
DeltaPlusMinusDelta == Temp /\ op \in {"add", "sub"} /\ IsDeltaQ(a) /\ IsDeltaQ(b) => IsOk(res) /\ res.u = a.u
\* products, quotients, powers: refused in the default mode, through base units in autoconvert mode
MulDivDefaultRefused == stage = 2 /\ ~ac /\ op \in {"mul", "div", "muln", "divn", "rdivn", "pow2"} /\ (HasNonMult(a) \/ (op \in {"mul", "div"} /\ HasNonMult(b)))
                        => res = OffErr
MulDivAutoThroughBase == Temp /\ ac /\ op \in {"mul", "div"} /\ IsOffsetQ(a) /\ IsOffsetQ(b) =>
                        LET ra == ToRoot(Reg, TRUE, a)  rb == ToRoot(Reg, TRUE, b) IN
                        res = Ok(MagOp(op, ra.m, rb.m), UnitOp(op, ra.u, rb.u))
PowAutoThroughBase == stage = 2 /\ ac /\ op = "pow2" /\ IsOffsetQ(a) => LET ra == ToRoot(Reg, TRUE, a) IN res = Ok(RMul(ra.m, ra.m), Pow(ra.u, R(2)))
HigherOrderRefused == stage = 2 /\ a.u = Single("C", R(2)) /\ op \in {"to", "add", "sub", "mul", "div", "muln", "pow2"} /\ (op = "to" => b.u # a.u)
                        /\ (op \in {"add", "sub"} => b.u # a.u) => ~IsOk(res)
\* ordering of temperatures in different scales follows the absolute temperature
OrderThroughAffineMaps == Temp /\ op \in {"lt", "gt"} /\ (IsOffsetQ(a) \/ IsAbsQ(a)) /\ (IsOffsetQ(b) \/ IsAbsQ(b)) =>
                        res = Bool(CmpRat(op, ToRoot(Reg, TRUE, a).m, ToRoot(Reg, TRUE, b).m))
\* logarithmic units: defining map on the lattice, inverse, refusal across dimensions
LogDefiningMap == stage = 2 /\ a \in LogPool /\ op = "to" /\ Sole(a) /\ IsLog(Reg, Name(a)) /\ b.u = Reg.units[Name(a)].ref =>
                        res = Ok(ToRef(Reg, Name(a), a.m), b.u)
LogCrossDimension == stage = 2 /\ a \in LogPool /\ op = "to" /\ DimDecl(Reg, a.u) # DimDecl(Reg, b.u) => res = DimErr
=============================================================================
