SPECIFICATION Spec
CHECK_DEADLOCK FALSE
CONSTANT Mantissas <- MantissasT
CONSTANT PmErrs <- PmErrsT
CONSTANT ShortDigits <- ShortDigitsT
CONSTANT Exps <- ExpsT
CONSTANT CtorV <- CtorVT
CONSTANT CtorE <- CtorET
CONSTANT ConvPool <- ConvPoolT
