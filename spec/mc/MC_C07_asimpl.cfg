SPECIFICATION Spec
CONSTANTS
  MaxLen = 6
  Dev_GroupBindsImmediately = TRUE
INVARIANT Agree
INVARIANT NoValueWhenMalformed
CHECK_DEADLOCK FALSE
