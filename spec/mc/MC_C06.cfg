SPECIFICATION Spec
CONSTANTS
  DimNames = {"[L]", "[Th]", "[P]"}
  Dev_PowKeepsZeros = FALSE
  Dev_ZeroShortcut = FALSE
INVARIANT ConvIsDefiningMap
INVARIANT ConvInverse
INVARIANT ConvPathIndependent
INVARIANT DeltaByScaleOnly
INVARIANT DeltaOffsetRefused
INVARIANT OffsetMinusOffsetIsDelta
INVARIANT OffsetPlusMinusDeltaStaysOffset
INVARIANT DeltaPlusOffsetIsOffset
INVARIANT OffsetPlusOffsetRefused
INVARIANT AbsPlusOffsetRefused
INVARIANT DeltaPlusMinusDelta
INVARIANT MulDivDefaultRefused
INVARIANT MulDivAutoThroughBase
INVARIANT PowAutoThroughBase
INVARIANT HigherOrderRefused
INVARIANT OrderThroughAffineMaps
INVARIANT LogDefiningMap
INVARIANT LogCrossDimension
CHECK_DEADLOCK FALSE
