------------------------------ MODULE MC_Pint ------------------------------
(* Bounded instance of PintRegistry: base registry a [A], b [B], c = 3 a, e = 5 c,   *)
(* prefix k = 20 (kc), system S (base unit c for [A]); contexts: R (rule with a       *)
(* parameter), D (redefinition), RD (rules both ways + redefinition), BAD (second     *)
(* redefinition names an undefined unit: activation must fail atomically).            *)
EXTENDS PintRegistry, Json
NoP == <<0, 1>>       \* rational 0 stands for "no parameter" (parameters are never 0 here)
A == Single("[A]", One)  B == Single("[B]", One)
Base == [units |-> [x \in {"a", "b", "c", "e", "f", "kc"} |->
            CASE x = "a" -> [base |-> TRUE, scale |-> One, ref |-> A]
              [] x = "b" -> [base |-> TRUE, scale |-> One, ref |-> B]
              [] x = "c" -> [base |-> FALSE, scale |-> R(3), ref |-> Single("a", One)]
              [] x = "e" -> [base |-> FALSE, scale |-> R(5), ref |-> Single("c", One)]
              [] x = "f" -> [base |-> FALSE, scale |-> R(7), ref |-> Single("a", One)]      \* in system S: 7/3 c, under D: 7/4 c
              [] x = "kc" -> [base |-> FALSE, scale |-> R(20), ref |-> Single("c", One), prefixed |-> TRUE]],
         ddims |-> <<>>]
Pool == [x \in {"R", "D", "RD", "BAD"} |->
   CASE x = "R"   -> [rules |-> {[src |-> A, dst |-> B, coef |-> R(2), pexp |-> 1]}, redefs |-> <<>>, default |-> R(2)]
     [] x = "D"   -> [rules |-> {}, redefs |-> <<[unit |-> "c", scale |-> R(4), ref |-> Single("a", One)]>>, default |-> NoP]
     [] x = "RD"  -> [rules |-> {[src |-> B, dst |-> A, coef |-> R(3), pexp |-> 0], [src |-> A, dst |-> B, coef |-> R(7), pexp |-> 0]},
                      redefs |-> <<[unit |-> "e", scale |-> R(10), ref |-> Single("a", One)]>>, default |-> NoP]
     [] x = "BAD" -> [rules |-> {}, redefs |-> <<[unit |-> "c", scale |-> R(6), ref |-> Single("a", One)],
                                               [unit |-> "nosuch", scale |-> R(3), ref |-> Single("a", One)]>>, default |-> NoP]]
Sys == [x \in {"S"} |-> [old |-> "a", new |-> "c"]]
Kw == {<<5, 1>>}
\* the constants, printed once so that the replay materialises exactly this registry (single source of truth)
UnitJ(d) == [base |-> d.base, scale |-> d.scale, ref |-> HashKey(d.ref), prefixed |-> "prefixed" \in DOMAIN d]
CtxJ(c) == [rules |-> {[src |-> HashKey(r.src), dst |-> HashKey(r.dst), coef |-> r.coef, pexp |-> r.pexp] : r \in c.rules},
            redefs |-> [i \in 1..Len(c.redefs) |-> [unit |-> c.redefs[i].unit, scale |-> c.redefs[i].scale, ref |-> HashKey(c.redefs[i].ref)]],
            default |-> c.default]
ASSUME PrintT(<<"CONST", ToJson([units |-> [n \in DOMAIN Base.units |-> UnitJ(Base.units[n])],
                                 ctxs |-> [c \in DOMAIN Pool |-> CtxJ(Pool[c])], systems |-> Sys, newunit |-> UnitJ(NewUnit),
                                 probes |-> ProbeKeys])>>)
\* two-name activations: rule + redefinition, two redefinitions, and both orders of an ill-formed member (the well-formed
\* member's redefinition must not survive the failed call)
Pairs == {<<"R", "D">>, <<"RD", "D">>, <<"D", "BAD">>, <<"BAD", "RD">>}
\* the law configurations (MC_Pint, MC_Pint_q) offer two of the pairs - a well-formed one and the one whose second member is
\* ill-formed - to keep the exhaustive runs short; generator, simulation and trace configurations offer all four
PairsQ == {<<"R", "D">>, <<"D", "BAD">>}
AllOps == {"enable", "enable2", "disable", "with", "with2", "define", "system", "query"}
=============================================================================
