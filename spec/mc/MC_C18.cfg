SPECIFICATION Spec
CONSTANT MaxOps = 4
VIEW View
PROPERTY RoundTrip
PROPERTY UnpicklesIntoApp
PROPERTY CopyKeepsOwner
PROPERTY Isolated
PROPERTY CopyStartsEqual
CHECK_DEADLOCK FALSE
PROPERTY UnpickleRegisters
PROPERTY MakeRegisters
