SPECIFICATION Spec
INVARIANT IndexIsName
INVARIANT StrictRefusesBare
INVARIANT NonStrictPassesBare
INVARIANT NoneUntouched
INVARIANT IncompatibleRaises
CHECK_DEADLOCK FALSE
