------------------------------- MODULE MC_C10 -------------------------------
(* C10: a definition file means what it says, whatever the order of its unit and       *)
(* prefix lines, its spacing and comments.  A six-line core file (prefix, two bases, a   *)
(* derived dimension, two derived units - one referring forward - and an alias) is       *)
(* permuted (all orders of the unit / prefix lines), padded with comments and blank      *)
(* lines, or damaged in one of eight ways; every variant is a state with its meaning.    *)
EXTENDS DefFile, Json
A == Single("[A]", One)
Core == << [k |-> "prefix", name |-> "k", value |-> R(20)],
           [k |-> "base", name |-> "a", dim |-> "[A]"],
           [k |-> "base", name |-> "b", dim |-> "[B]"],
           [k |-> "unit", name |-> "d", scale |-> <<3, 2>>, ref |-> Mul(Single("c", R(2)), Single("b", R(-1))), sym |-> "D", alias |-> "dee"],
           [k |-> "unit", name |-> "c", scale |-> R(2), ref |-> Single("e", One), sym |-> "C", alias |-> "cee"],
           [k |-> "unit", name |-> "e", scale |-> R(20), ref |-> Single("a", One), sym |-> "E", alias |-> "eee"] >>
Tail2 == << [k |-> "ddim", name |-> "[V]", ref |-> Mul(Single("[A]", One), Single("[B]", R(-1)))],
            [k |-> "ddim", name |-> "[W]", ref |-> Mul(Single("[V]", R(2)), Single("[A]", R(-1)))],      \* through [V], squared
            [k |-> "ddim", name |-> "[X]", ref |-> Mul(Single("[W]", R(-1)), Single("[V]", <<1, 2>>))],
            [k |-> "context", name |-> "ctx", param |-> "p", default |-> <<3, 2>>, src |-> "[A]", dst |-> "[B]", coef |-> R(5)],
            [k |-> "alias", of |-> "c", name |-> "c2"] >>
Perms == {p \in [1..6 -> 1..6] : \A i, j \in 1..6 : i # j => p[i] # p[j]}
Permuted(p) == [i \in 1..6 |-> Core[p[i]]] \o Tail2
Pad(lines, mode) ==
    CASE mode = 0 -> lines
      [] mode = 1 -> <<[k |-> "comment"]>> \o lines \o <<[k |-> "blank"]>>
      [] mode = 2 -> <<lines[1], [k |-> "blank"], [k |-> "comment"]>> \o SubSeq(lines, 2, Len(lines))
Bad == {"invalid-name", "mixed-reference", "cycle", "non-numeric-modifier", "unknown-modifier", "unknown-directive", "unterminated-block", "dangling-reference",
        "scaled-dimension",        \* [DD] = 2 * [A] ** 2 : a derived dimension is a monomial of dimensions, without a numeric factor
        "scaled-relation"}         \* @context ... 3 [A] -> [B]: ... : the ends of a relation are dimensionalities, without a numeric factor
Damage(lines, why) ==
    CASE why = "cycle" -> lines \o <<[k |-> "unit", name |-> "p", scale |-> R(2), ref |-> Single("q", One), sym |-> "P", alias |-> "pp"],
                                     [k |-> "unit", name |-> "q", scale |-> R(3), ref |-> Single("p", One), sym |-> "Q", alias |-> "qq"]>>
      [] why = "dangling-reference" -> lines \o <<[k |-> "unit", name |-> "p", scale |-> R(2), ref |-> Single("nosuch", One), sym |-> "P", alias |-> "pp"]>>
      [] OTHER -> lines \o <<[k |-> "bad", why |-> why]>>
VARIABLES kind, perm, mode, why, file, obs, wf
vars == <<kind, perm, mode, why, file, obs, wf>>
NoObs == [units |-> <<>>, spell |-> <<>>, prefixes |-> <<>>, sym |-> <<>>, ddims |-> <<>>, ctxs |-> <<>>]
Init == kind = "init" /\ perm = <<>> /\ mode = 0 /\ why = "" /\ file = <<>> /\ obs = NoObs /\ wf = TRUE
Good == /\ kind = "init" /\ kind' = "good" /\ why' = ""
        /\ \E p \in Perms, m \in {0, 1, 2} :
              /\ perm' = p /\ mode' = m /\ file' = Pad(Permuted(p), m)
              /\ obs' = ObsOfFile(Pad(Permuted(p), m)) /\ wf' = WellFormedFile(Pad(Permuted(p), m))
Broken == /\ kind = "init" /\ kind' = "bad" /\ perm' = <<>> /\ mode' = 0
          /\ \E w \in Bad : why' = w /\ file' = Damage(Core \o Tail2, w) /\ obs' = NoObs /\ wf' = WellFormedFile(Damage(Core \o Tail2, w))
Next == Good \/ Broken
Spec == Init /\ [][Next]_vars
\* ---- laws ----
Reference == ObsOfFile(Core \o Tail2)
OrderAndLayoutIndependent == kind = "good" => obs = Reference /\ wf
IllFormedRejected == kind = "bad" => ~wf
MeaningIsWhatIsWritten == kind = "good" =>
    /\ obs.units["c"].f = R(40) /\ obs.units["d"].f = R(2400) /\ obs.units["d"].dim = HashKey(Mul(Single("[A]", R(2)), Single("[B]", R(-1))))
    /\ obs.spell["dee"] = "d" /\ obs.spell["c2"] = "c" /\ obs.prefixes["k"] = R(20)
    /\ obs.ddims["[W]"] = HashKey(Mul(Single("[A]", One), Single("[B]", R(-2)))) /\ obs.ctxs["ctx"] = <<45, 2>>
=============================================================================
