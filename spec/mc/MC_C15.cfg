SPECIFICATION Spec
CONSTANTS
  DimNames = {"[L]", "[T]"}
  Dev_PowKeepsZeros = FALSE
INVARIANT ReduceEndsReduced
INVARIANT ReduceKeepsDim
INVARIANT ReduceOnlyMerges
INVARIANT ReduceIdempotent
INVARIANT CompactPowerAvailable
INVARIANT CompactRange
INVARIANT CompactRangePower
CHECK_DEADLOCK FALSE
