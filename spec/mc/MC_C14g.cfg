SPECIFICATION Spec
CONSTANTS
  DimNames = {"[A]"}
  Dev_PowKeepsZeros = FALSE
  MaxOps = 4
VIEW View
INVARIANT Acyclic
INVARIANT MembersIsLeastFixpoint
INVARIANT SystemIsUnion
PROPERTY EditsImmediate
CHECK_DEADLOCK FALSE
