------------------------------- MODULE MC_C05 -------------------------------
(* C05: equality, ordering and hashing agree with physical value.                     *)
(* Pool of quantities over multiplicative, offset, delta, absolute and dimensionless   *)
(* units (incl. 1 inch = 2.54 cm, 0 C = 273 K, 0 Fh = 255 K); every ordered pair and   *)
(* every comparison operator is a state, dumped and replayed on the real library.      *)
EXTENDS Quantity
L == Single("[L]", One)  T == Single("[T]", One)  Th == Single("[Th]", One)
U(base, scale, ref, offset, nonmult, delta, deltaOf) ==
    [base |-> base, scale |-> scale, ref |-> ref, offset |-> offset, nonmult |-> nonmult, delta |-> delta, deltaOf |-> deltaOf]
M(scale, ref) == U(FALSE, scale, ref, Zero, FALSE, FALSE, "")
B(ref) == U(TRUE, One, ref, Zero, FALSE, FALSE, "")
Reg == [units |-> [x \in {"m", "cm", "inch", "s", "K", "C", "Fh", "delta_C", "delta_Fh", "cnt", "pct"} |->
          CASE x = "m" -> B(L) [] x = "s" -> B(T) [] x = "K" -> B(Th) [] x = "cnt" -> B(Empty)
            [] x = "cm" -> M(<<1, 100>>, Single("m", One)) [] x = "inch" -> M(<<127, 5000>>, Single("m", One))
            [] x = "pct" -> M(<<1, 100>>, Empty)
            [] x = "C" -> U(FALSE, One, Single("K", One), R(273), TRUE, FALSE, "")
            [] x = "Fh" -> U(FALSE, <<5, 9>>, Single("K", One), R(255), TRUE, FALSE, "")
            [] x = "delta_C" -> U(FALSE, One, Single("K", One), Zero, FALSE, TRUE, "C")
            [] x = "delta_Fh" -> U(FALSE, <<5, 9>>, Single("K", One), Zero, FALSE, TRUE, "Fh")],
        ddims |-> <<>>]
CONSTANT AC                                   \* autoconvert_offset_to_baseunit
Mags == {R(-1), Zero, One, R(100), <<127, 50>>, R(273), R(255)}
UnitsPool == {Single(n, One) : n \in {"m", "cm", "inch", "s", "K", "C", "Fh", "delta_C", "cnt", "pct"}} \cup {Empty}
Pool == {Q(m, u) : m \in Mags, u \in UnitsPool}
Nums == {Num(Zero), Num(One), Num(R(100))}
CmpOps == {"lt", "le", "gt", "ge"}
Ops == {"eq", "ne", "hash"} \cup CmpOps
Not(r) == IF r.k = "bool" THEN Bool(~r.b) ELSE r
Eval(x, y, o) ==
    CASE o = "eq" -> EqQ(Reg, AC, x, y)
      [] o = "ne" -> Not(EqQ(Reg, AC, x, y))
      [] o \in CmpOps -> CmpQ(Reg, AC, x, y, o)
      [] o = "hash" -> Bool(HashKeyQ(Reg, AC, x) = HashKeyQ(Reg, AC, y))      \* do the two hash keys agree?

VARIABLES stage, regv, a, b, op, res
vars == <<stage, regv, a, b, op, res>>
None == Q(Zero, Empty)
Init == stage = 0 /\ regv = Reg /\ a = None /\ b = None /\ op = "" /\ res = DimErr
PickA == /\ stage = 0 /\ stage' = 1 /\ regv' = <<>> /\ a' \in Pool /\ UNCHANGED <<b, op, res>>
PickB == /\ stage = 1 /\ stage' = 2 /\ UNCHANGED <<regv, a>>
         /\ \/ \E y \in Pool, o \in Ops : b' = y /\ op' = o /\ res' = Eval(a, y, o)
            \/ \E n \in Nums, o \in Ops \ {"hash"} : b' = n /\ op' = o /\ res' = Eval(a, n, o)
Next == PickA \/ PickB
Spec == Init /\ [][Next]_vars

\* ---- laws ----
HasOffset(q) == ~IsMult(Reg, q.u)
HasDelta(q) == Deltas(Reg, q.u) # {}
\* declarative equality: same dimensionality and equal magnitude after conversion to the other's units
DeclEq(x, y) == SameDim(Reg, x, y) /\ LET r == To(Reg, AC, x, y.u) IN IsOk(r) /\ r.m = y.m
IsB(r) == r.k = "bool"
QQ == stage = 2 /\ ~IsNum(b)
EqIsDefinition == QQ /\ op = "eq" => res = Bool(DeclEq(a, b))
EqReflexiveSymmetric == QQ /\ op = "eq" => EqQ(Reg, AC, a, a) = Bool(TRUE) /\ EqQ(Reg, AC, b, a) = res
\* transitivity; offset <-> delta conversions are refused by design, so triples that mix an offset and a
\* delta unit are outside the law (recorded as a design-level finding in DESIGN.md)
EqTransitive == QQ /\ op = "eq" /\ res = Bool(TRUE) =>
    \A c \in Pool : ({HasOffset(a), HasOffset(b), HasOffset(c)} = {FALSE} \/ {HasDelta(a), HasDelta(b), HasDelta(c)} = {FALSE})
                     /\ EqQ(Reg, AC, b, c) = Bool(TRUE) => EqQ(Reg, AC, a, c) = Bool(TRUE)
EqImpliesHash == QQ /\ op = "hash" /\ EqQ(Reg, AC, a, b) = Bool(TRUE) => res = Bool(TRUE)
NeIsNotEq == stage = 2 /\ op = "ne" => res = Not(EqQ(Reg, AC, a, b))
Mixed(x, y) == (HasOffset(x) /\ HasDelta(y)) \/ (HasDelta(x) /\ HasOffset(y))     \* offset vs delta: not comparable by ==
Trichotomy == QQ /\ op = "lt" /\ SameDim(Reg, a, b) /\ IsB(res) /\ ~Mixed(a, b) =>
                 LET e == EqQ(Reg, AC, a, b)  g == CmpQ(Reg, AC, a, b, "gt") IN
                 IsB(g) /\ (IsB(e) => Cardinality({x \in {"lt", "eq", "gt"} :
                                CASE x = "lt" -> res.b [] x = "eq" -> e.b [] x = "gt" -> g.b}) = 1)
OrderByRootMagnitude == QQ /\ op \in CmpOps /\ IsB(res) =>
                 LET ra == ToRoot(Reg, TRUE, a)  rb == ToRoot(Reg, TRUE, b) IN res.b = CmpRat(op, ra.m, rb.m)
OrderConsistent == QQ /\ op = "le" /\ IsB(res) /\ ~Mixed(a, b) => LET lt == CmpQ(Reg, AC, a, b, "lt") e == EqQ(Reg, AC, a, b) IN
                 IsB(lt) /\ (IsB(e) => res.b = (lt.b \/ e.b))
CrossDimension == QQ /\ ~SameDim(Reg, a, b) =>
                 /\ (op \in CmpOps => res = DimErr)
                 /\ (op = "eq" => res = Bool(FALSE))
BareNumber == stage = 2 /\ IsNum(b) /\ op \in CmpOps \cup {"eq"} =>
                 \* defined (a boolean) for dimensionless quantities and for zero (multiplicative units); otherwise
                 \* == is False and ordering raises
                 /\ (Dimless(Reg, a) => IsB(res))
                 /\ (~Dimless(Reg, a) /\ ~RIsZero(b.m) => IF op = "eq" THEN res = Bool(FALSE) ELSE res = ValErr)
                 /\ (~Dimless(Reg, a) /\ RIsZero(b.m) /\ IsMult(Reg, a.u) => IsB(res))
=============================================================================
