SPECIFICATION Spec
CONSTANTS
  DimNames = {"[L]", "[T]"}
  Dev_PowKeepsZeros = FALSE
  Dev_ZeroShortcut = FALSE
INVARIANT Covariant
INVARIANT CrossDimensionRefused
INVARIANT CrossDimensionEq
INVARIANT BareNumberRule
INVARIANT NeIsNotEq
INVARIANT DivModConsistent
INVARIANT ReflectedAgree
CHECK_DEADLOCK FALSE
