SPECIFICATION Spec
CONSTANTS
  MaxLen = 4
  MinUnits = 2
  MinPrefixes = 1
INVARIANT OperationalWithinDeclarative
INVARIANT ExactNameFirst
INVARIANT OffsetNeverPrefixed
INVARIANT UniqueWhenUnambiguous
CHECK_DEADLOCK FALSE
