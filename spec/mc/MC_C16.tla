------------------------------- MODULE MC_C16 -------------------------------
(* C16: every entry of the plan table x every assignment of units to its arguments.     *)
EXTENDS NumpyPlan
VARIABLES stage, fn, u1, u2, plan
vars == <<stage, fn, u1, u2, plan>>
Init == stage = 0 /\ fn = "" /\ u1 = "none" /\ u2 = "none" /\ plan = <<"dimerr">>
Pick == /\ stage = 0 /\ stage' = 1
        /\ \E f \in DOMAIN Funcs, a \in UnitNames, b \in UnitNames :
              /\ (Arity(Funcs[f]) = 1 => b = "none")
              /\ fn' = f /\ u1' = a /\ u2' = b /\ plan' = Plan(Funcs[f], a, b)
Spec == Init /\ [][Pick]_vars
\* ---- laws ----
K == Funcs[fn]
\* the output unit is made of the argument units with the exponents of the function's homogeneity degrees: this is what
\* makes the physical result independent of the units chosen for the inputs
OutputMatchesHomogeneity == stage = 1 /\ plan[1] = "ok" /\ K \in {"same1", "cons2", "mul2", "div2", "pow2", "pow1_2", "pow1_3", "pow-1"} =>
    /\ plan[3][3] = Deg(K)[1] /\ (Arity(K) = 2 /\ K \in {"mul2", "div2"} => plan[4][3] = Deg(K)[2])
\* re-expressing the inputs in other compatible units never changes acceptance
AcceptanceInvariant == stage = 1 => \A a \in UnitNames, b \in UnitNames :
    (Compatible(a, u1) /\ Compatible(b, u2) /\ (Arity(K) = 1 => b = "none")) => (Plan(K, a, b)[1] = plan[1])
\* inputs of different dimensionality are refused where they must be consistent; angles and dimensionless where required
Refusals == stage = 1 =>
    /\ (K \in {"cons2", "cmp2"} /\ ~Compatible(u1, u2) => plan = <<"dimerr">>)
    /\ (K \in {"trig", "itrig", "dimless"} /\ Units[u1].d # "" => plan = <<"dimerr">>)
BareResults == stage = 1 /\ plan[1] = "ok" /\ K \in {"cmp2", "bare1"} => plan[3] = <<"bare">>
=============================================================================
