------------------------------ MODULE MC_C14g ------------------------------
(* C14, membership: three groups + root, two systems; edit sequences interleaved with   *)
(* member queries (so that memoised answers exist to go stale).                         *)
EXTENDS Systems
CONSTANTS MaxOps
GroupNames == {"g1", "g2", "g3"}
SysNames == {"S1", "S2"}
UnitPool == {"x", "y"}
VARIABLES own, uses, sysuses, hist
vars == <<own, uses, sysuses, hist>>
ObsOf(o, u, su) == [groups |-> [g \in GroupNames |-> MembersOf(o, u, g)],
                    systems |-> [s \in SysNames |-> SysMembersOf(o, u, su, s)]]
Log(op, res) == hist' = Append(hist, [op |-> op, res |-> res, obs |-> ObsOf(own', uses', sysuses')])
AddUnits(g, x) == own' = [own EXCEPT ![g] = @ \cup {x}] /\ UNCHANGED <<uses, sysuses>> /\ Log(<<"add_units", g, x>>, "ok")
RemoveUnits(g, x) == x \in own[g] /\ own' = [own EXCEPT ![g] = @ \ {x}] /\ UNCHANGED <<uses, sysuses>> /\ Log(<<"remove_units", g, x>>, "ok")
AddGroup(g, h) == ~WouldCycle(uses, g, h) /\ uses' = [uses EXCEPT ![g] = @ \cup {h}] /\ UNCHANGED <<own, sysuses>> /\ Log(<<"add_groups", g, h>>, "ok")
AddGroupCyclic(g, h) == WouldCycle(uses, g, h) /\ g # h /\ UNCHANGED <<own, uses, sysuses>> /\ Log(<<"add_groups", g, h>>, "error")
RemoveGroup(g, h) == h \in uses[g] /\ uses' = [uses EXCEPT ![g] = @ \ {h}] /\ UNCHANGED <<own, sysuses>> /\ Log(<<"remove_groups", g, h>>, "ok")
SysAddGroup(s, g) == g \notin sysuses[s] /\ sysuses' = [sysuses EXCEPT ![s] = @ \cup {g}] /\ UNCHANGED <<own, uses>> /\ Log(<<"sys_add_groups", s, g>>, "ok")
SysRemoveGroup(s, g) == g \in sysuses[s] /\ sysuses' = [sysuses EXCEPT ![s] = @ \ {g}] /\ UNCHANGED <<own, uses>> /\ Log(<<"sys_remove_groups", s, g>>, "ok")
Query == UNCHANGED <<own, uses, sysuses>> /\ Log(<<"query">>, "ok")
Init == own = [g \in GroupNames |-> {}] /\ uses = [g \in GroupNames |-> {}]
        /\ sysuses = [s \in SysNames |-> IF s = "S1" THEN {"g1"} ELSE {"g2", "g3"}] /\ hist = <<>>
\* a second starting point (generator MC_C14g_genB): g1 already uses g2, and g2 owns x - so that three operations reach "own a unit that
\* is also inherited, then stop using the group it is inherited from"
InitB == own = [g \in GroupNames |-> IF g = "g2" THEN {"x"} ELSE {}] /\ uses = [g \in GroupNames |-> IF g = "g1" THEN {"g2"} ELSE {}]
         /\ sysuses = [s \in SysNames |-> IF s = "S1" THEN {"g1"} ELSE {"g2", "g3"}] /\ hist = <<>>
Next == /\ Len(hist) < MaxOps
        /\ \/ \E g \in GroupNames, x \in UnitPool : AddUnits(g, x) \/ RemoveUnits(g, x)
           \/ \E g \in GroupNames, h \in GroupNames : AddGroup(g, h) \/ AddGroupCyclic(g, h) \/ RemoveGroup(g, h)
           \/ \E s \in SysNames, g \in GroupNames : SysAddGroup(s, g) \/ SysRemoveGroup(s, g)
           \/ Query
Spec == Init /\ [][Next]_vars
View == <<own, uses, sysuses>>
\* laws
Acyclic == \A g \in GroupNames : g \notin UsedGroups(uses, g)
MembersIsLeastFixpoint == \A g \in GroupNames : MembersOf(own, uses, g) = own[g] \cup UNION {MembersOf(own, uses, h) : h \in uses[g]}
SystemIsUnion == \A s \in SysNames : SysMembersOf(own, uses, sysuses, s) = UNION {MembersOf(own, uses, g) : g \in sysuses[s]}
EditsImmediate == [][\A g \in GroupNames, x \in UnitPool : AddUnits(g, x) =>
                       \A k \in GroupNames : (k = g \/ g \in UsedGroups(uses, k)) => x \in MembersOf(own', uses', k)]_vars
SpecB == InitB /\ [][Next]_vars
=============================================================================
