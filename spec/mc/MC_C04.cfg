SPECIFICATION Spec
CONSTANTS
  Names = {"a", "b", "c"}
  MaxExp = 2
  WithHalves = TRUE
  Dev_PowKeepsZeros = FALSE
INVARIANT OperationalIsDeclarative
INVARIANT EditLaws
INVARIANT Canonical
INVARIANT Commutative
INVARIANT Associative
INVARIANT InverseLaw
INVARIANT PowZero
INVARIANT PowOne
INVARIANT PowPow
INVARIANT PowDistributes
INVARIANT DivIsMulInv
INVARIANT EqIffSameExponents
INVARIANT HashConsistent
CHECK_DEADLOCK FALSE
