------------------------------- MODULE MC_C18 -------------------------------
(* Bounded instance of Serial: behaviours of up to MaxOps operations over three registries. *)
EXTENDS Serial
=============================================================================
