SPECIFICATION Spec
CONSTANTS
  MaxLen = 3
  MinUnits = 3
  MinPrefixes = 2
INVARIANT OperationalWithinDeclarative
INVARIANT ExactNameFirst
INVARIANT OffsetNeverPrefixed
INVARIANT UniqueWhenUnambiguous
CHECK_DEADLOCK FALSE
