SPECIFICATION Spec
CONSTANTS
  Dev_PowKeepsZeros = FALSE
  NameOrder <- MCOrder
  Symbol <- MCSymbol
INVARIANT DenotesExactly
INVARIANT NumeratorPositive
INVARIANT EveryUnitOnce
CHECK_DEADLOCK FALSE
