SPECIFICATION Spec
CONSTANTS
  MaxLen = 6
  Dev_GroupBindsImmediately = FALSE
INVARIANT Agree
INVARIANT NoValueWhenMalformed
CHECK_DEADLOCK FALSE
