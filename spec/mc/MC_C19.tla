------------------------------- MODULE MC_C19 -------------------------------
(* C19: constructor forms, conversions (offset units included), arithmetic expressions of depth two over a pool with      *)
(* shared variables, the textual notations and the rendered forms.                                                       *)
EXTENDS Measure
\* pool for arithmetic: a, b share nothing; "a2" is the same variable as "a" in another unit (fully correlated)
Pool == [A |-> Meas(R(3), <<1, 2>>, "a", "m"), B |-> Meas(R(200), R(50), "b", "cm"), C |-> Meas(R(2), <<1, 4>>, "c", "s"),
         A2 |-> Meas(R(300), R(50), "a", "cm"), P |-> Plain(R(2), "m"), N |-> Bare(R(3))]
Names == DOMAIN Pool
Ops == {"+", "-", "*", "/"}
CtorV == {R(3), R(-3), <<5, 2>>}
CtorE == {<<1, 2>>, Zero, <<-1, 2>>, R(2)}
CtorU == {"m", "cm", "degC"}
ConvPool == {<<R(3), <<1, 2>>, "m">>, <<R(200), R(50), "cm">>, <<R(20), <<1, 2>>, "degC">>, <<R(68), <<9, 10>>, "degF">>, <<R(-40), R(1), "degF">>,
             <<R(300), R(3), "K">>, <<R(2), <<1, 4>>, "s">>}
Mantissas == {<<80, 1>>, <<1234, 3>>, <<12, 0>>, <<5, 1>>}
PmErrs == {<<40, 1>>, <<4, 1>>, <<3, 0>>}
ShortDigits == {<<4, 0>>, <<12, 0>>, <<5, 0>>}
Exps == {NoExp, 2, -2, 6, -6}
\* thorough instance (MC_C19_full.cfg substitutes these): more digit shapes, exponents, constructor and conversion values
MantissasT == {<<80, 1>>, <<1234, 3>>, <<12, 0>>, <<5, 1>>, <<100, 0>>, <<7, 0>>, <<25, 2>>, <<667430, 5>>, <<1, 1>>}
PmErrsT == {<<40, 1>>, <<4, 1>>, <<3, 0>>, <<25, 2>>, <<0, 0>>, <<100, 0>>, <<1, 3>>}
ShortDigitsT == {<<4, 0>>, <<12, 0>>, <<5, 0>>, <<15, 0>>, <<1, 0>>, <<123, 0>>}
ExpsT == {NoExp, 2, -2, 6, -6, 1, -1, 3, 0}
CtorVT == {R(3), R(-3), <<5, 2>>, <<1, 1000>>, R(1000), <<-7, 4>>}
CtorET == {<<1, 2>>, Zero, <<-1, 2>>, R(2), <<1, 1000>>, R(-3)}
ConvPoolT == {<<R(3), <<1, 2>>, "m">>, <<R(200), R(50), "cm">>, <<R(20), <<1, 2>>, "degC">>, <<R(68), <<9, 10>>, "degF">>, <<R(-40), R(1), "degF">>,
             <<R(300), R(3), "K">>, <<R(2), <<1, 4>>, "s">>, <<R(-273), R(1), "degC">>, <<Zero, <<1, 10>>, "K">>, <<R(212), R(2), "degF">>, <<R(5), <<1, 8>>, "km">>, <<R(-2), <<1, 4>>, "m">>}
VARIABLES kind, inp, out
vars == <<kind, inp, out>>
Init == kind = "init" /\ inp = <<>> /\ out = <<>>
Ctor == \E f \in Forms, v \in CtorV, e \in CtorE, u \in CtorU :
          /\ kind' = "ctor" /\ inp' = [form |-> f, v |-> v, e |-> e, u |-> u]
          /\ LET m == Construct(f, v, e, u) IN
             out' = IF IsErr(m) THEN [k |-> m.err, value |-> Zero, error |-> Zero, rel |-> Zero] ELSE [k |-> "ok", value |-> ValueOf(m), error |-> ErrorOf(m), rel |-> RelOf(m)]
Conv == \E c \in ConvPool, u1 \in UnitNames :
          /\ kind' = "conv" /\ inp' = [v |-> c[1], e |-> c[2], u0 |-> c[3], u1 |-> u1]
          /\ LET m == ConvertTo(Meas(c[1], c[2], "a", c[3]), c[3], u1) IN
             out' = IF IsErr(m) THEN [k |-> m.err, value |-> Zero, error |-> Zero] ELSE [k |-> "ok", value |-> ValueOf(m), error |-> ErrorOf(m)]
Arith1 == \E x \in Names, y \in Names, op \in Ops :
          /\ kind' = "arith" /\ inp' = <<x, op, y>> /\ out' = Obs(Apply(op, Pool[x], Pool[y]))
Arith2 == \E x \in Names, y \in Names, z \in Names, op \in Ops, op2 \in Ops :
          /\ kind' = "arith" /\ inp' = <<<<x, op, y>>, op2, z>> /\ out' = Obs(Apply(op2, Apply(op, Pool[x], Pool[y]), Pool[z]))
Sq == \E x \in Names : kind' = "arith" /\ inp' = <<x, "**2">> /\ out' = Obs(Pow2(Pool[x]))
Note == \E f \in {"pm", "ppm", "short", "short-dot"}, ng \in BOOLEAN, nm \in Mantissas, ue \in PmErrs \cup ShortDigits, ex \in Exps, mu \in {1, 2}, tl \in {"", "**2"}, un \in {"", "m"} :
          LET n == [form |-> f, neg |-> ng, nom |-> nm, unc |-> ue, exp |-> ex, mult |-> mu, tail |-> tl, unit |-> un] IN
          /\ WellFormedNotation(n)
          /\ (f = "short" <=> ue \in ShortDigits)
          /\ (tl = "**2" => ex \in {NoExp, 2, -2} /\ mu = 1 /\ nm # <<1234, 3>> /\ ~ng)
          /\ (mu = 2 => ex \in {NoExp, 2})
          /\ (nm[1] > 100000 => ex \in {NoExp, 0, 1, -1, 2, -2, 3} /\ tl = "")          \* 32-bit arithmetic of the model checker
          /\ kind' = "note" /\ inp' = n /\ LET m == NotationValue(n) IN out' = [k |-> "ok", nom |-> m.nom, std |-> RAbs(m.lin["a"]), un |-> m.un]
Render == \E f \in Flags, sh \in {"plain", "exp", "short", "short-exp"} :
          kind' = "render" /\ inp' = <<f, sh>> /\ out' = Rendered(f, sh)
Next == kind = "init" /\ (Ctor \/ Conv \/ Arith1 \/ Arith2 \/ Sq \/ Note \/ Render)
Spec == Init /\ [][Next]_vars
\* ---------------------------------------------------------------- laws
Mul3(u) == u \in {"m", "cm", "km", "s", "K"}
\* the relative error is unchanged under a multiplicative conversion; the deviation never depends on offsets
RelUnchanged == \A c \in ConvPool, u1 \in UnitNames :
    (DimOf(c[3]) = DimOf(u1) /\ Off(c[3]) = Zero /\ Off(u1) = Zero) =>
        LET m0 == Meas(c[1], c[2], "a", c[3])  m1 == ConvertTo(m0, c[3], u1) IN RelOf(m1) = RelOf(m0)
SlopeOnly == \A c \in ConvPool, u1 \in UnitNames : DimOf(c[3]) = DimOf(u1) =>
    LET m1 == ConvertTo(Meas(c[1], c[2], "a", c[3]), c[3], u1) IN ErrorOf(m1) = RMul(c[2], RDiv(Fac(c[3]), Fac(u1)))
ConvertBack == \A c \in ConvPool, u1 \in UnitNames : DimOf(c[3]) = DimOf(u1) =>
    LET m0 == Meas(c[1], c[2], "a", c[3]) IN ConvertTo(ConvertTo(m0, c[3], u1), u1, c[3]) = m0
\* negative errors are rejected by every form; all forms agree
NegativeRejected == \A f \in Forms, v \in CtorV, e \in CtorE, u \in CtorU : RSign(e) < 0 <=> IsErr(Construct(f, v, e, u))
FormsAgree == \A f \in Forms, g \in Forms, v \in CtorV, e \in CtorE, u \in CtorU : Construct(f, v, e, u) = Construct(g, v, e, u)
\* correlated operands
SelfCancels == \A x \in Names : LET X == Pool[x] IN
    /\ Variance(AddSub(X, X, -1)) = Zero /\ AddSub(X, X, -1).nom = Zero
    /\ (~RIsZero(X.nom) => Variance(Div(X, X)) = Zero /\ Div(X, X).nom = One)
AddThenSub == \A x \in Names, y \in Names : SameDim(Pool[x], Pool[y]) =>
    LET r == AddSub(AddSub(Pool[x], Pool[y], 1), Pool[y], -1) IN (Pool[x].bare = Pool[y].bare) => r.nom = Pool[x].nom /\ r.lin = Pool[x].lin
IndependentAdds == Variance(AddSub(Pool.A, Pool.B, 1)) = RAdd(Variance(Pool.A), Variance(InUnitsOf(Pool.B, Pool.A)))
FullyCorrelated == Variance(AddSub(Pool.A, Pool.A2, -1)) = Zero        \* 3 m +- 0.5 minus 300 cm +- 50 of the same variable
SquareIsProduct == \A x \in Names : Obs(Pow2(Pool[x])) = Obs(Mul(Pool[x], Pool[x]))
\* the shorthand digits are aligned with the last digits of the nominal value: 1.234(5) = 1.234 +/- 0.005, 12(3) = 12 +/- 3
ShorthandAligned ==
    /\ NotationValue([form |-> "short", neg |-> FALSE, nom |-> <<1234, 3>>, unc |-> <<5, 0>>, exp |-> NoExp, mult |-> 1, tail |-> "", unit |-> ""]).lin["a"] = <<1, 200>>
    /\ NotationValue([form |-> "short", neg |-> FALSE, nom |-> <<12, 0>>, unc |-> <<4, 0>>, exp |-> NoExp, mult |-> 1, tail |-> "", unit |-> ""]).lin["a"] = R(4)
    /\ NotationValue([form |-> "short", neg |-> FALSE, nom |-> <<80, 1>>, unc |-> <<4, 0>>, exp |-> 2, mult |-> 1, tail |-> "", unit |-> "m"]).lin["a"] = R(40)
Laws == RelUnchanged /\ SlopeOnly /\ ConvertBack /\ NegativeRejected /\ FormsAgree /\ SelfCancels /\ AddThenSub /\ IndependentAdds /\ FullyCorrelated
        /\ SquareIsProduct /\ ShorthandAligned
ASSUME LawsHold == Laws
=============================================================================
