------------------------------- MODULE MC_C08 -------------------------------
(* C08: unit names resolve deterministically - exact names first, then prefix + unit  *)
(* + plural.  Family of registries whose unit and prefix spellings are drawn from      *)
(* short strings over {a, k, m, s} *including collisions* (unit m and prefix m, unit   *)
(* ms, unit as, prefix ma ...); every string of length <= 4 is resolved in each.       *)
EXTENDS Names
Alphabet == {"a", "k", "m", "s"}
Strings(n) == UNION {[1..i -> Alphabet] : i \in 1..n}
UnitChoices == { <<"m">>, <<"s">>, <<"a">>, <<"m","s">>, <<"a","s">>, <<"k","m">>, <<"m","a">> }
PrefixChoices == { <<"k">>, <<"m">>, <<"m","a">> }
SetToSeq(S) == CHOOSE f \in [1..Cardinality(S) -> S] : \A i, j \in 1..Cardinality(S) : i # j => f[i] # f[j]
Str(u) == IF Len(u) = 1 THEN u[1] ELSE u[1] \o u[2]
CONSTANTS MaxLen, MinUnits, MinPrefixes
VARIABLES stage, t, s, res
vars == <<stage, t, s, res>>
\* the first unit of the family (in the order of SetToSeq) is an offset unit when `off` is chosen
MkT(us, ps, off) ==
    [usp |-> [u \in us |-> Str(u)],      \* canonical name = the spelling itself
     psp |-> [p \in ps \cup {<<>>} |-> IF p = <<>> THEN "" ELSE Str(p)],
     porder |-> <<<<>>>> \o SetToSeq(ps),
     offsetUnits |-> IF off THEN {Str(CHOOSE u \in us : \A v \in us : Len(u) >= Len(v))} ELSE {},
     longname |-> [x \in {} |-> ""]]
NoRes == [kind |-> "undef", prefix |-> "", unit |-> ""]
Init == stage = 0 /\ t = [usp |-> <<>>] /\ s = <<>> /\ res = NoRes
PickT == /\ stage = 0 /\ stage' = 1 /\ UNCHANGED <<s, res>>
         /\ \E us \in SUBSET UnitChoices, ps \in SUBSET PrefixChoices, off \in BOOLEAN :
               /\ Cardinality(us) \in MinUnits..3 /\ Cardinality(ps) \in MinPrefixes..2 /\ t' = MkT(us, ps, off)
PickS == /\ stage = 1 /\ stage' = 2 /\ UNCHANGED t
         /\ \E x \in Strings(MaxLen) : s' = x /\ res' = Resolve(t, x)
Next == PickT \/ PickS
Spec == Init /\ [][Next]_vars
\* ---- laws ----
OperationalWithinDeclarative == stage = 2 =>
      /\ res.kind \in {"ok", "offset"} => <<res.prefix, res.unit>> \in Denotations(t, s)
      /\ res.kind = "undef" <=> Denotations(t, s) = {}
ExactNameFirst == stage = 2 /\ s \in DOMAIN t.usp => res = [kind |-> "ok", prefix |-> "", unit |-> t.usp[s]]
OffsetNeverPrefixed == stage = 2 /\ res.kind = "ok" /\ res.prefix # "" => res.unit \notin t.offsetUnits
NoPluralOfOneLetter == stage = 2 /\ res.kind = "ok" /\ s \notin DOMAIN t.usp =>
      LET p == CHOOSE q \in DOMAIN t.psp : t.psp[q] = res.prefix /\ StartsWith(s, q)
                       /\ (Middle(s, q, <<>>) \in DOMAIN t.usp \/ Middle(s, q, <<"s">>) \in DOMAIN t.usp) IN TRUE
\* unambiguous strings: the answer is *the* decomposition
UniqueWhenUnambiguous == stage = 2 /\ Cardinality(Denotations(t, s)) = 1 /\ res.kind = "ok" => Denotations(t, s) = {<<res.prefix, res.unit>>}
=============================================================================
