------------------------------- MODULE MC_C11 -------------------------------
(* C11: context conversions apply the declared rules along a shortest chain.          *)
(* Instance of PintRegistry restricted to activations: four dimensions, contexts with  *)
(* colliding edges (most recent wins), a direct edge competing with a two-step chain   *)
(* (shortest wins), parameters (keyword, else enclosing context, else default), a      *)
(* redefinition reaching a dependent unit.  Every stack of up to three activations is  *)
(* a behaviour whose history carries the admissible answers for all probe pairs.       *)
EXTENDS PintRegistry, Json
NoP == <<0, 1>>
DA == Single("[A]", One)  DB == Single("[B]", One)  DG == Single("[G]", One)  DH == Single("[H]", One)
DR == Mul(DA, Single("[B]", R(-1)))          \* the derived dimension [R] = [A] / [B]
Base == [units |-> [x \in {"a", "b", "g", "h", "x", "y", "z", "r"} |->
            CASE x = "a" -> [base |-> TRUE, scale |-> One, ref |-> DA]
              [] x = "b" -> [base |-> TRUE, scale |-> One, ref |-> DB]
              [] x = "g" -> [base |-> TRUE, scale |-> One, ref |-> DG]
              [] x = "h" -> [base |-> TRUE, scale |-> One, ref |-> DH]
              [] x = "x" -> [base |-> FALSE, scale |-> R(3), ref |-> Single("a", One)]
              [] x = "y" -> [base |-> FALSE, scale |-> R(5), ref |-> Single("b", One)]
              [] x = "z" -> [base |-> FALSE, scale |-> R(2), ref |-> Single("x", One)]       \* depends on x
              [] x = "r" -> [base |-> FALSE, scale |-> R(6), ref |-> Mul(Single("a", One), Single("b", R(-1)))]],
         ddims |-> [d \in {"[R]"} |-> DR]]
Rule(s, d, c, pe) == [src |-> s, dst |-> d, coef |-> c, pexp |-> pe]
Pool == [c \in {"P", "Q", "S", "T"} |->
   CASE c = "P" -> [rules |-> {Rule(DA, DB, R(2), 1), Rule(DB, DG, R(3), 0)}, redefs |-> <<>>, default |-> R(2)]
     [] c = "Q" -> [rules |-> {Rule(DA, DB, R(7), 0), Rule(DG, DH, R(5), 0), Rule(DB, DA, <<1, 7>>, 0), Rule(DR, DG, R(17), 0)}, redefs |-> <<>>, default |-> NoP]
     [] c = "S" -> [rules |-> {Rule(DA, DG, R(11), 0), Rule(DH, DA, R(13), -1), Rule(DH, DR, R(19), 0)}, redefs |-> <<>>, default |-> R(4)]
     [] c = "T" -> [rules |-> {Rule(DB, DA, R(9), 0)}, redefs |-> <<[unit |-> "x", scale |-> R(4), ref |-> Single("a", One)]>>, default |-> NoP]]
Sys == [x \in {} |-> [old |-> "", new |-> ""]]
Kw == {<<5, 1>>}
Ops11 == {"enable"}
NoPairs == {}
Names == {"a", "b", "g", "h", "x", "y", "z"}
Probes11 == {<<"a", "b">>, <<"a", "g">>, <<"a", "h">>, <<"b", "a">>, <<"b", "g">>, <<"g", "h">>, <<"h", "a">>, <<"h", "b">>,
             <<"x", "y">>, <<"y", "x">>, <<"z", "g">>, <<"x", "a">>, <<"z", "a">>, <<"y", "b">>, <<"g", "a">>, <<"h", "g">>, <<"r", "g">>, <<"r", "h">>, <<"h", "r">>, <<"g", "r">>}
Keys11 == {<<"conv", pr[1], pr[2]>> : pr \in Probes11}
UnitJ(d) == [base |-> d.base, scale |-> d.scale, ref |-> HashKey(d.ref), prefixed |-> FALSE]
CtxJ(c) == [rules |-> {[src |-> HashKey(r.src), dst |-> HashKey(r.dst), coef |-> r.coef, pexp |-> r.pexp] : r \in c.rules},
            redefs |-> [i \in 1..Len(c.redefs) |-> [unit |-> c.redefs[i].unit, scale |-> c.redefs[i].scale, ref |-> HashKey(c.redefs[i].ref)]],
            default |-> c.default]
ASSUME PrintT(<<"CONST", ToJson([units |-> [n \in DOMAIN Base.units |-> UnitJ(Base.units[n])],
                                 ctxs |-> [c \in DOMAIN Pool |-> CtxJ(Pool[c])], systems |-> Sys, ddims |-> [d \in DOMAIN Base.ddims |-> HashKey(Base.ddims[d])], newunit |-> UnitJ(NewUnit),
                                 probes |-> Keys11])>>)

\* ---- laws (C11) ----
Graph == GraphOf(active)
Dims == {DA, DB, DG, DH, DR}
\* every path the search returns is a path of the graph, and none shorter exists (bounded: paths of <= 3 edges)
AllSeqs == UNION {[1..n -> Dims] : n \in 2..4}
PathsUpTo3(src, dst) == {p \in AllSeqs : p[1] = src /\ p[Len(p)] = dst /\ \A i \in 1..(Len(p) - 1) : <<p[i], p[i + 1]>> \in Graph}
ShortestIsShortest == \A src \in Dims : \A dst \in Dims \ {src} :
    LET sp == ShortestPaths(Graph, src, dst)  all == PathsUpTo3(src, dst) IN
    /\ \A p \in sp : \A i \in 1..(Len(p) - 1) : <<p[i], p[i + 1]>> \in Graph
    /\ \A p \in sp, q \in all : Len(p) <= Len(q)
    /\ (all # {} => sp # {})
\* the most recently enabled context providing an edge is the one whose rule is applied
MostRecentWins == \A e \in Graph : LET a == Provider(active, e) IN
    \A i \in 1..Len(active) : e \in EdgesOf(active[i].ctx) => (CHOOSE j \in 1..Len(active) : active[j] = a /\ e \in EdgesOf(active[j].ctx)) <= i
Unreachable == \A pr \in Probes11 :
    LET reg == EffectiveOf(active, extra)
        d1 == DimDecl(reg, Single(pr[1], One))  d2 == DimDecl(reg, Single(pr[2], One)) IN
    (d1 # d2 /\ (active = <<>> \/ ShortestPaths(Graph, d1, d2) = {})) => ConvAnswers(active, extra, R(3), pr[1], pr[2]) = {<<"dimerr", Zero>>}
\* same-dimension conversions are those of the (possibly redefined) units, whatever rules are active
SameDimPlain == \A pr \in {<<"x", "a">>, <<"z", "a">>, <<"y", "b">>} :
    ConvAnswers(active, extra, R(3), pr[1], pr[2]) = ConvAnswers(SelectSeq(active, LAMBDA a : Pool[a.ctx].redefs # <<>>), extra, R(3), pr[1], pr[2])
\* a redefinition applies, transitively, exactly while its context is active
RedefinitionScoped == ConvAnswers(active, extra, R(3), "z", "a") =
    {<<"ok", IF \E i \in 1..Len(active) : active[i].ctx = "T" THEN R(24) ELSE R(18)>>}
=============================================================================
