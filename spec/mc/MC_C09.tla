------------------------------- MODULE MC_C09 -------------------------------
(* C09: every textual format denotes the unit exactly.  All containers over three     *)
(* names with exponents in {-3..3, +-1/2, 3/2, -1/4} x formats D C P H x long / short: *)
(* the layout puts every unit with its |exponent| on the side of the fraction bar that  *)
(* its sign demands, and the rendered text is the one the library prints (replayed).    *)
EXTENDS Format
Names == {"ampere", "meter", "second"}
MCOrder == <<"ampere", "meter", "second">>
MCSymbol == [n \in Names |-> CASE n = "ampere" -> "A" [] n = "meter" -> "m" [] n = "second" -> "s"]
ExpPool == {R(-3), R(-2), R(-1), Zero, One, R(2), R(3), <<1, 2>>, <<-1, 2>>, <<3, 2>>, <<-1, 4>>}
VARIABLES stage, u, fmt, short, out
vars == <<stage, u, fmt, short, out>>
Init == stage = 0 /\ u = Empty /\ fmt = "" /\ short = FALSE /\ out = ""
PickU == /\ stage = 0 /\ stage' = 1 /\ \E f \in [Names -> ExpPool] : u' = Canon(f, Names) /\ UNCHANGED <<fmt, short, out>>
Fmt == /\ stage = 1 /\ stage' = 2 /\ UNCHANGED u
       /\ \E f \in {"D", "C", "P", "H"}, sh \in BOOLEAN : fmt' = f /\ short' = sh /\ out' = Render(f, sh, u)
Next == PickU \/ Fmt
Spec == Init /\ [][Next]_vars
DenotesExactly == stage >= 1 => Denote(u, Layout(u)) = u
NumeratorPositive == stage >= 1 => /\ \A i \in 1..Len(Layout(u)[1]) : RSign(u[Layout(u)[1][i]]) > 0
                                   /\ \A i \in 1..Len(Layout(u)[2]) : RSign(u[Layout(u)[2][i]]) < 0
EveryUnitOnce == stage >= 1 => LET l == Layout(u) IN
    /\ {l[1][i] : i \in 1..Len(l[1])} \cup {l[2][i] : i \in 1..Len(l[2])} = DOMAIN u
    /\ Len(l[1]) + Len(l[2]) = Cardinality(DOMAIN u)
=============================================================================
