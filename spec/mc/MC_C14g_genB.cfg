SPECIFICATION SpecB
CONSTANTS
  DimNames = {"[A]"}
  Dev_PowKeepsZeros = FALSE
  MaxOps = 3
CHECK_DEADLOCK FALSE
