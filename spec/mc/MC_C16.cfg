SPECIFICATION Spec
INVARIANT OutputMatchesHomogeneity
INVARIANT AcceptanceInvariant
INVARIANT Refusals
INVARIANT BareResults
CHECK_DEADLOCK FALSE
