------------------------------- MODULE MC_C15 -------------------------------
(* C15: the rewriting helpers preserve the physical quantity.                          *)
(*  (a) reduce: all containers over {m, cm, km, s, ms, are (= 100 m**2), n} with          *)
(*      exponents -2..2: the library's nested loop ends in a container without mergeable  *)
(*      units, of the same dimensionality, and the exact conversion factor exists;        *)
(*  (b) compact: magnitudes mant * 10^k (k in -36..36) x unit exponents +-1, +-2, +-3:      *)
(*      the chosen prefix power is an available one, the only change, and for exponent 1   *)
(*      with an unclamped choice the new magnitude lies in [1, 1000).                       *)
EXTENDS Rewrite
L == Single("[L]", One)  T == Single("[T]", One)
U(base, scale, ref) == [base |-> base, scale |-> scale, ref |-> ref]
S(n) == Single(n, One)
Reg == [units |-> [x \in {"m", "cm", "km", "s", "ms", "are", "n"} |->
          CASE x = "m" -> U(TRUE, One, L) [] x = "s" -> U(TRUE, One, T) [] x = "n" -> U(TRUE, One, Empty)
            [] x = "cm" -> U(FALSE, <<1, 100>>, S("m")) [] x = "km" -> U(FALSE, R(1000), S("m"))
            [] x = "ms" -> U(FALSE, <<1, 1000>>, S("s")) [] x = "are" -> U(FALSE, R(100), Single("m", R(2)))],
        ddims |-> <<>>]
Order == <<"are", "cm", "km", "m", "ms", "n", "s">>
Names == {"m", "cm", "km", "s", "ms", "are", "n"}
Exps == {R(-2), R(-1), Zero, One, R(2)}
Powers == <<-30, -27, -24, -21, -18, -15, -12, -9, -6, -3, -2, -1, 0, 1, 2, 3, 6, 9, 12, 15, 18, 21, 24, 27, 30>>
VARIABLES kind, uc, red, m, p, pw
vars == <<kind, uc, red, m, p, pw>>
Init == kind = "init" /\ uc = Empty /\ red = Empty /\ m = <<One, 0>> /\ p = 1 /\ pw = 0
\* containers with at most three units (stage the choice to keep the fan-out small)
PickReduce == /\ kind = "init" /\ kind' = "reduce" /\ UNCHANGED <<m, p, pw>>
              /\ \E a \in Names, b \in Names, c \in Names, ea \in Exps, eb \in Exps, ec \in Exps :
                    LET x == Mul(Mul(Single(a, ea), Single(b, eb)), Single(c, ec)) IN uc' = x /\ red' = ReducedUnits(Reg, x, Order)
PickCompact == /\ kind = "init" /\ kind' = "compact" /\ UNCHANGED <<uc, red>>
               /\ \E mant \in {One, <<5, 2>>, <<999, 100>>}, k \in -36..36, e \in {1, 2, 3, -1, -2} :
                    m' = <<mant, k>> /\ p' = e /\ pw' = ChosenPower(<<mant, k>>, e, Powers)
Next == PickReduce \/ PickCompact
Spec == Init /\ [][Next]_vars
\* ---- laws ----
ReduceEndsReduced == kind = "reduce" => Reduced(Reg, red)
ReduceKeepsDim == kind = "reduce" => SameDim(Reg, uc, red)
ReduceOnlyMerges == kind = "reduce" => DOMAIN red \subseteq DOMAIN uc
ReduceIdempotent == kind = "reduce" => ReducedUnits(Reg, red, Order) = red
CompactPowerAvailable == kind = "compact" => \E i \in 1..Len(Powers) : Powers[i] = pw
\* first-power leading unit: whenever the ideal multiple of three is available, the magnitude ends in [1, 1000)
CompactRange == kind = "compact" /\ p = 1 /\ Power3(m, p) = pw => NewLog10(m, p, pw) \in 0..2
\* higher powers: the magnitude ends within one prefix step of 1: [1, 1000^|p|)
CompactRangePower == kind = "compact" /\ p > 1 /\ Power3(m, p) = pw => NewLog10(m, p, pw) \in 0..(3 * p - 1)
=============================================================================
