SPECIFICATION Spec
CONSTANTS
  DimNames = {"[A]", "[B]"}
  Dev_PowKeepsZeros = FALSE
INVARIANT RulesOK
INVARIANT OnlyBaseUnits
INVARIANT DimPreserved
INVARIANT PhysPreserved
INVARIANT Idempotent
INVARIANT InversionSound
CHECK_DEADLOCK FALSE
