------------------------------- MODULE MC_C07 -------------------------------
(* C07: every token sequence up to MaxLen over {2, 3, m, + - * / // ** ( )}: the       *)
(* library's precedence-climbing parser (transcribed) and Python's grammar agree on     *)
(* acceptance and on the value.  Each state carries the sequence and the value; the      *)
(* same states are rendered as strings (several spellings) and parsed by the library.    *)
EXTENDS Expr
CONSTANT MaxLen
VARIABLES ts, val
vars == <<ts, val>>
Init == ts = <<>> /\ val = <<"E">>
Next == /\ Len(ts) < MaxLen
        /\ \E a \in Alphabet : ts' = Append(ts, a) /\ val' = ValueOf(Append(ts, a))
Spec == Init /\ [][Next]_vars
Agree == ts # <<>> => LET a == ParsePint(ts) b == ParsePy(ts) IN
            /\ (a = Err) = (b = Err)
            /\ (a # Err => LET x == Eval(a) y == Eval(b) IN x[1] = "B" \/ y[1] = "B" \/ x = y)
\* unbalanced parentheses and dangling operators never yield a value
Balanced(s) == LET RECURSIVE D(_, _)
                   D(i, d) == IF i > Len(s) THEN d = 0 ELSE IF s[i] = "(" THEN D(i + 1, d + 1)
                              ELSE IF s[i] = ")" THEN (d > 0 /\ D(i + 1, d - 1)) ELSE D(i + 1, d)
               IN D(1, 0)
NoValueWhenMalformed == ts # <<>> /\ (~Balanced(ts) \/ ts[Len(ts)] \in BinOps) => ParsePint(ts) = Err /\ val = <<"E">>
=============================================================================
