SPECIFICATION Spec
CONSTANTS
  DimNames = {"[A]", "[B]"}
  Dev_PowKeepsZeros = FALSE
  CtxPool <- Pool
  BaseReg <- Base
  Systems <- Sys
  NoParam <- NoP
  KwVals <- Kw
  MaxOps = 8
  Alphabet <- AllOps
CHECK_DEADLOCK FALSE
