SPECIFICATION Spec
CONSTANTS
  DimNames = {"[A]", "[B]"}
  Dev_PowKeepsZeros = FALSE
  CtxPool <- Pool
  BaseReg <- Base
  Systems <- Sys
  NoParam <- NoP
  KwVals <- Kw
  MaxOps = 8
  CtxPairs <- Pairs
  Alphabet <- AllOps
CHECK_DEADLOCK FALSE
