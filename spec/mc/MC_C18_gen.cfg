SPECIFICATION Spec
CONSTANT MaxOps = 3
CHECK_DEADLOCK FALSE
