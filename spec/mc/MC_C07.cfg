SPECIFICATION Spec
CONSTANTS
  MaxLen = 5
  Dev_GroupBindsImmediately = FALSE
INVARIANT Agree
INVARIANT NoValueWhenMalformed
CHECK_DEADLOCK FALSE
