SPECIFICATION Spec
CONSTANTS
  DimNames = {"[A]", "[B]", "[V]"}
  Dev_PowKeepsZeros = FALSE
INVARIANT OrderAndLayoutIndependent
INVARIANT IllFormedRejected
INVARIANT MeaningIsWhatIsWritten
CHECK_DEADLOCK FALSE
