SPECIFICATION Spec
CONSTANTS
  DimNames = {"[A]", "[B]", "[V]", "[W]", "[X]"}
  Dev_PowKeepsZeros = FALSE
INVARIANT OrderAndLayoutIndependent
INVARIANT IllFormedRejected
INVARIANT MeaningIsWhatIsWritten
CHECK_DEADLOCK FALSE
