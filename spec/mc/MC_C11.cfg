SPECIFICATION Spec
CONSTANTS
  DimNames = {"[A]", "[B]", "[G]", "[H]", "[R]"}
  Dev_PowKeepsZeros = FALSE
  CtxPool <- Pool
  BaseReg <- Base
  Systems <- Sys
  NoParam <- NoP
  KwVals <- Kw
  MaxOps = 3
  CtxPairs <- NoPairs
  Alphabet <- Ops11
  ConvProbes <- Probes11
  ProbeKeys <- Keys11
  QueryKeys <- Keys11
INVARIANT ShortestIsShortest
INVARIANT MostRecentWins
INVARIANT Unreachable
INVARIANT SameDimPlain
INVARIANT RedefinitionScoped
INVARIANT SameContextTwice
CHECK_DEADLOCK FALSE
