------------------------------- MODULE MC_Reg -------------------------------
(* Bounded family F1 for C01/C02: a fixed skeleton of base units, derived units,      *)
(* derived dimensions, a prefix and an alias, whose scales and exponents vary          *)
(* (768 registries).  Stage 1 states carry the registry (the replay materialises it    *)
(* as definition-file text); stage 2 states carry one probe container together with    *)
(* the specification's answers (dimensionality, root units, root factor).              *)
EXTENDS Registry

CONSTANT Quick                     \* TRUE: 48 registries (every-change run); FALSE: 768
Scales == IF Quick THEN {<<1, 3>>, <<5, 9>>} ELSE {<<2, 1>>, <<1, 3>>, <<10, 1>>, <<5, 9>>}
Exps1 == IF Quick THEN {R(-1), R(2)} ELSE {R(-2), R(-1), R(1), R(2)}
Exps2 == IF Quick THEN {R(2), R(-1)} ELSE {R(1), R(2), R(-1)}
Scales3 == IF Quick THEN {<<2, 1>>} ELSE {<<2, 1>>, <<1, 3>>}

BaseUnits == [a |-> [base |-> TRUE, scale |-> One, ref |-> Single("[A]", One)],
              b |-> [base |-> TRUE, scale |-> One, ref |-> Single("[B]", One)],
              n |-> [base |-> TRUE, scale |-> One, ref |-> Empty]]
DDims == [x \in {"[C]", "[H]"} |-> IF x = "[C]" THEN Mul(Single("[A]", One), Single("[B]", R(-1)))
                                     ELSE Single("[C]", <<1, 2>>)]
\* prefix "k" = 20: the prefixed unit is an on-the-fly derived unit  k * {u: 1}  (what pint does)
MkReg(rid) ==
    LET s1 == rid[1]  e1 == rid[2]  s2 == rid[3]  e2 == rid[4]  s3 == rid[5]  e3 == rid[6] IN
    [units |-> [x \in {"a", "b", "n", "u1", "u2", "u3", "q", "ku1", "ka", "ku3"} |->
        CASE x = "u1" -> [base |-> FALSE, scale |-> s1, ref |-> Mul(Single("a", e1), Single("n", One))]
          [] x = "u2" -> [base |-> FALSE, scale |-> s2, ref |-> Mul(Single("u1", e2), Single("b", R(-1)))]
          [] x = "u3" -> [base |-> FALSE, scale |-> s3, ref |-> Mul(Single("u2", One), Single("ka", e3))]
          [] x = "q"  -> [base |-> FALSE, scale |-> One, ref |-> Single("a", <<1, 2>>)]   \* fractional, scale 1
          [] x = "ku1" -> [base |-> FALSE, scale |-> R(20), ref |-> Single("u1", One)]
          [] x = "ka" -> [base |-> FALSE, scale |-> R(20), ref |-> Single("a", One)]
          [] x = "ku3" -> [base |-> FALSE, scale |-> R(20), ref |-> Single("u3", One)]
          [] OTHER    -> BaseUnits[x]],
     ddims |-> DDims]
Prefixed == {"ku1", "ka", "ku3"}      \* materialised through the prefix definition  k- = 20

Probes == {Single("a", One), Single("b", One), Single("n", One), Single("u1", One), Single("u2", One),
           Single("u3", One), Single("q", R(2)), Single("q", One), Single("a", R(2)), Single("u1", R(-1)),
           Single("ku1", One), Single("ka", R(2)), Single("u1", R(-2)), Single("ku1", R(-1)), Single("ku1", R(-2)),
           Single("a", R(-1)), Single("a", R(-2)), Single("ka", R(-1)), Single("ka", R(-2)), Mul(Single("ku3", One), Single("u3", R(-1))),
           Mul(Single("a", One), Single("b", R(-1))), Mul(Single("u2", One), Single("b", One)),
           Mul(Single("u3", One), Single("u1", R(-1))), Mul(Single("u2", <<1, 2>>), Single("b", <<1, 2>>)),
           Single("[C]", One), Single("[H]", R(2)), Single("[H]", One), Single("[C]", R(2)), Single("[C]", R(-1)),
           Mul(Single("[H]", R(-2)), Single("[A]", One)), Mul(Single("[C]", One), Single("[B]", One)), Empty}
UnitProbes == {p \in Probes : \A k \in DOMAIN p : ~IsDimName(k)}

VARIABLES stage, rid, regv, p1, obs
vars == <<stage, rid, regv, p1, obs>>
NoReg == [units |-> <<>>, ddims |-> <<>>]
NoObs == [dim |-> Empty, exact |-> FALSE, strict |-> FALSE, f |-> One, ru |-> Empty]
Init == stage = 0 /\ rid = <<>> /\ regv = NoReg /\ p1 = Empty /\ obs = NoObs
PickReg == /\ stage = 0 /\ stage' = 1
           /\ \E s1 \in Scales, s2 \in Scales \cup {<<10, 1>>}, s3 \in Scales3, e1 \in Exps1, e2 \in Exps2, e3 \in {R(1), R(-2)} :
                 /\ rid' = <<s1, e1, s2, e2, s3, e3>>
                 /\ regv' = MkReg(<<s1, e1, s2, e2, s3, e3>>)
           /\ UNCHANGED <<p1, obs>>
PickProbe == /\ stage = 1 /\ stage' = 2 /\ regv' = NoReg /\ UNCHANGED rid
             /\ \E p \in Probes :
                  /\ p1' = p
                  /\ obs' = LET isu == p \in UnitProbes
                                ex == isu /\ Exact(regv, p) /\ ExactOp(regv, p, One)
                                ro == IF ex THEN RootOp(regv, p) ELSE <<One, IF isu THEN RootUnitsDecl(regv, p) ELSE Empty>>
                            IN [dim |-> DimOp(regv, p), exact |-> ex, strict |-> isu /\ ExactStrict(regv, p, One), f |-> ro[1], ru |-> ro[2]]
Next == PickReg \/ PickProbe
Spec == Init /\ [][Next]_vars

\* ---- laws: operational |= declarative, and the algebra the properties list ----
Reg == MkReg(rid)
DimOpIsDecl == stage = 2 => obs.dim = DimDecl(Reg, p1)
RootOpIsDecl == stage = 2 /\ obs.exact => <<obs.f, obs.ru>> = RootDecl(Reg, p1)
RootUnitsAreBase == stage = 2 => \A k \in DOMAIN obs.ru : Reg.units[k].base
RootKeepsDim == stage = 2 /\ p1 \in UnitProbes => DimDecl(Reg, obs.ru) = obs.dim
\* pair laws, over every second probe (dimensionalities and factors computed once per state)
DimTab == [p \in Probes |-> DimDecl(Reg, p)]
ConvEquivalence == stage = 2 => LET D == TLCEval(DimTab) IN \A p2 \in Probes :
                     /\ Convertible(Reg, p1, p2) = (D[p1] = D[p2])
                     /\ Convertible(Reg, p1, p2) = Convertible(Reg, p2, p1)
                     \* transitivity: Convertible coincides with equality of D (first conjunct), which is transitive
                     /\ \A p3 \in Probes : D[p1] = D[p2] /\ D[p2] = D[p3] => D[p1] = D[p3]
ConvCongruence == stage = 2 => LET D == TLCEval(DimTab) IN \A p2 \in Probes : (D[p1] = D[p2] =>
                     /\ Convertible(Reg, Mul(p1, p1), Mul(p2, p1))
                     /\ Convertible(Reg, Div(p1, p2), Empty)
                     /\ Convertible(Reg, Pow(p1, R(-1)), Pow(p2, R(-1)))
                     /\ Convertible(Reg, Pow(p1, <<1, 2>>), Pow(p2, <<1, 2>>)))
DimHomomorphism == stage = 2 => LET D == TLCEval(DimTab) IN \A p2 \in Probes :
                     /\ DimDecl(Reg, Mul(p1, p2)) = Mul(D[p1], D[p2])
                     /\ DimDecl(Reg, Div(p1, p2)) = Div(D[p1], D[p2])
                     /\ DimDecl(Reg, Pow(p1, <<3, 2>>)) = Pow(D[p1], <<3, 2>>)
Third == {Mul(Single("u3", One), Single("u1", R(-1))), Single("ku1", One)}
FactorLaws == stage = 2 /\ obs.exact => LET D == TLCEval(DimTab) IN \A p2 \in UnitProbes :
                 (D[p1] = D[p2] /\ Exact(Reg, p2) /\ Exact(Reg, Div(p1, p2))) =>
                     LET f12 == FactorAB(Reg, p1, p2) IN
                     /\ FactorAB(Reg, p1, p1) = One
                     /\ RMul(f12, FactorAB(Reg, p2, p1)) = One
                     /\ f12 = RDiv(obs.f, FactorDecl(Reg, p2))     \* what the replay uses
                     /\ \A p3 \in Third : (D[p2] = D[p3] /\ Exact(Reg, Div(p2, p3)) /\ Exact(Reg, Div(p1, p3)))
                            => RMul(f12, FactorAB(Reg, p2, p3)) = FactorAB(Reg, p1, p3)
PrefixLaw == stage = 2 => \A u \in {"u1", "a", "u3"} :
                 FactorOfUnit(Reg, "k" \o u) = RMul(R(20), FactorOfUnit(Reg, u))
=============================================================================
