------------------------------- MODULE MC_C04 -------------------------------
(* Bounded instance for C04: all containers over Names with exponents in ExpPool.     *)
(* Each state with op # "init" is one test case for the spec -> code replay:          *)
(* operands, operation, expected result (computed by the *operational* model, which   *)
(* the invariants below tie to the declarative, pointwise one).                       *)
EXTENDS UnitAlgebra

CONSTANTS Names, MaxExp, WithHalves
IntExps == (-MaxExp .. MaxExp) \ {0}
ExpPool == {R(i) : i \in IntExps} \cup (IF WithHalves THEN {<<1, 2>>, <<-1, 2>>} ELSE {})
Full == [Names -> ExpPool \cup {Zero}]
Containers == {Canon(f, Names) : f \in Full}
Small == {Canon(f, Names) : f \in [Names -> {R(-1), Zero, One}]}       \* for triples
Powers == {R(-2), R(-1), Zero, One, R(2), R(3), <<1, 2>>, <<-1, 2>>, <<3, 2>>, <<1, 3>>}

VARIABLES op, x, y, z, k, res
vars == <<op, x, y, z, k, res>>

Init == /\ op = "init" /\ x \in Containers /\ y = Empty /\ z = Empty /\ k = Zero /\ res = Empty
Binary == /\ op = "init"
          /\ \E o \in {"mul", "div"}, yy \in Containers :
               /\ op' = o /\ y' = yy
               /\ res' = IF o = "mul" THEN OpMul(x, yy) ELSE OpDiv(x, yy)
          /\ UNCHANGED <<x, z, k>>
Power == /\ op = "init" /\ op' = "pow"
         /\ \E kk \in Powers : k' = kk /\ res' = OpPow(x, kk)
         /\ UNCHANGED <<x, y, z>>
Recip == /\ op = "init" /\ op' = "rdiv" /\ res' = OpRDiv(x) /\ UNCHANGED <<x, y, z, k>>
Triple == /\ op = "init" /\ x \in Small /\ op' = "assoc"
          /\ \E yy \in Small, zz \in Small : y' = yy /\ z' = zz /\ res' = OpMul(OpMul(x, yy), zz)
          /\ UNCHANGED <<x, k>>
\* UnitsContainer.add / remove / rename (and ParserHelper * "name", / "name", which go through add)
Edit == /\ op = "init" /\ UNCHANGED <<x, k>>
        /\ \/ \E n \in Names, e \in ExpPool : op' = "add1" /\ y' = Single(n, e) /\ z' = Empty /\ res' = OpMul(x, Single(n, e))
           \/ \E n \in DOMAIN x : op' = "remove" /\ y' = Single(n, One) /\ z' = Empty /\ res' = Remove(x, {n})
           \/ \E n \in DOMAIN x, m \in Names \ DOMAIN x :
                 op' = "rename" /\ y' = Single(n, One) /\ z' = Single(m, One) /\ res' = Rename(x, n, m)
Next == Binary \/ Power \/ Recip \/ Triple \/ Edit
Spec == Init /\ [][Next]_vars

\* ---- laws (C04) ----
OperationalIsDeclarative ==
    /\ op = "mul" => res = Mul(x, y)
    /\ op = "div" => res = Div(x, y)
    /\ op = "pow" => res = Pow(x, k)
    /\ op = "rdiv" => res = Inv(x)
EditLaws == /\ op = "add1" => res = Add1(x, CHOOSE n \in DOMAIN y : TRUE, y[CHOOSE n \in DOMAIN y : TRUE])
            /\ op = "remove" => DOMAIN res = DOMAIN x \ DOMAIN y /\ \A n \in DOMAIN res : res[n] = x[n]
            /\ op = "rename" => LET n == CHOOSE q \in DOMAIN y : TRUE  m == CHOOSE q \in DOMAIN z : TRUE IN
                                    Exp(res, m) = x[n] /\ n \notin DOMAIN res /\ Remove(res, {m}) = Remove(x, {n})
Canonical == IsContainer(res)                                  \* no zero exponent survives
Commutative == op = "mul" => res = OpMul(y, x)
Associative == op = "assoc" => res = OpMul(x, OpMul(y, z)) /\ OpDiv(OpDiv(x, y), z) = OpDiv(x, OpMul(y, z))
InverseLaw == /\ op = "div" /\ x = y => res = Empty
              /\ op = "div" => OpMul(res, y) = x
PowZero == op = "pow" /\ k = Zero => res = Empty
PowOne == op = "pow" /\ k = One => res = x
PowPow == op = "pow" => \A j \in {R(-1), R(2), <<1, 2>>, Zero} : OpPow(res, j) = OpPow(x, RMul(k, j))
PowDistributes == op = "mul" => \A j \in {R(-1), R(2), <<1, 2>>} : OpPow(res, j) = OpMul(OpPow(x, j), OpPow(y, j))
DivIsMulInv == op = "div" => res = OpMul(x, OpPow(y, R(-1)))
EqIffSameExponents == (x = y) <=> (\A n \in Names : Exp(x, n) = Exp(y, n))
HashConsistent == (x = y) <=> HashKey(x) = HashKey(y)
=============================================================================
