------------------------------ MODULE MC_C14b ------------------------------
(* C14, base units: rule inversion ( new / new:old, also with exponents other than 1 )  *)
(* and re-expression of containers in a system's base units.  State = (system, probe)    *)
(* with the specification's answer, replayed on real registries.                         *)
EXTENDS Systems, Json
A == Single("[A]", One)  B == Single("[B]", One)
U(base, scale, ref) == [base |-> base, scale |-> scale, ref |-> ref]
S(n) == Single(n, One)
Reg == [units |-> [x \in {"a", "b", "c", "d", "e", "k", "sq"} |->
          CASE x = "a" -> U(TRUE, One, A) [] x = "b" -> U(TRUE, One, B)
            [] x = "c" -> U(FALSE, R(2), Mul(S("a"), Single("b", R(2))))
            [] x = "d" -> U(FALSE, R(3), S("a"))
            [] x = "e" -> U(FALSE, R(5), Single("b", R(-1)))
            [] x = "k" -> U(FALSE, R(7), Mul(S("c"), Single("d", R(-1))))
            [] x = "sq" -> U(FALSE, R(4), Single("a", R(2)))],          \* a root unit squared
        ddims |-> <<>>]
Rule(n, o) == [new |-> n, old |-> o]
Sys == [s \in {"S1", "S2", "S3", "S4", "S5", "S6", "none"} |->
   CASE s = "S1" -> <<Rule("d", "")>>
     [] s = "S2" -> <<Rule("c", "a")>>
     [] s = "S3" -> <<Rule("c", "b")>>
     [] s = "S4" -> <<Rule("d", ""), Rule("e", "")>>
     [] s = "S5" -> <<Rule("c", "a"), Rule("e", "")>>
     [] s = "S6" -> <<Rule("sq", "")>>                                   \* a |-> sq ** (1/2)
     [] s = "none" -> <<>>]
Probes == {S("a"), S("b"), S("c"), S("d"), S("e"), S("k"), Mul(S("a"), S("b")), Single("c", R(2)), Mul(S("d"), Single("e", R(-1))),
           Single("b", R(-2)), Mul(S("k"), S("e")), Single("a", <<1, 2>>), Empty}
VARIABLES stage, sys, p, obs
vars == <<stage, sys, p, obs>>
Init == stage = 0 /\ sys = "none" /\ p = Empty /\ obs = [f |-> One, u |-> {}, exact |-> TRUE]
Pick == /\ stage = 0 /\ stage' = 1
        /\ \E s \in DOMAIN Sys, q \in Probes :
             /\ sys' = s /\ p' = q
             /\ LET ex == BaseExact(Reg, Sys[s], q)
                    r == IF ex THEN BaseUnits(Reg, Sys[s], q) ELSE <<One, BaseDest(Reg, Sys[s], q)>>
                IN obs' = [f |-> r[1], u |-> HashKey(r[2]), exact |-> ex]
Spec == Init /\ [][Pick]_vars
ASSUME PrintT(<<"CONST", ToJson([units |-> [n \in DOMAIN Reg.units |-> [base |-> Reg.units[n].base, scale |-> Reg.units[n].scale, ref |-> HashKey(Reg.units[n].ref)]],
                                 systems |-> Sys])>>)
\* ---- laws ----
Dest == BaseDest(Reg, Sys[sys], p)
NewUnits == {Sys[sys][i].new : i \in 1..Len(Sys[sys])}
Replaced == {RuleSubst(Reg, Sys[sys][i])[1] : i \in 1..Len(Sys[sys])}
RulesOK == \A s \in DOMAIN Sys : \A i \in 1..Len(Sys[s]) : RuleOK(Reg, Sys[s][i])
OnlyBaseUnits == stage = 1 => \A n \in DOMAIN Dest : n \in NewUnits \/ (Reg.units[n].base /\ n \notin Replaced)
                                                      \/ \E i \in 1..Len(Sys[sys]) : n \in DOMAIN RuleSubst(Reg, Sys[sys][i])[2]
DimPreserved == stage = 1 => DimDecl(Reg, Dest) = DimDecl(Reg, p)
PhysPreserved == stage = 1 /\ obs.exact => RMul(obs.f, FactorDecl(Reg, Dest)) = FactorDecl(Reg, p)
Idempotent == stage = 1 /\ Sys[sys] # <<>> /\ sys \notin {"S3", "S6"} => BaseDest(Reg, Sys[sys], Dest) = Dest
\* the inverted rule really expresses the old root unit: substituting back gives the old unit's dimensionality
InversionSound == \A s \in DOMAIN Sys : \A i \in 1..Len(Sys[s]) :
    LET sb == RuleSubst(Reg, Sys[s][i]) IN DimDecl(Reg, sb[2]) = DimDecl(Reg, S(sb[1])) /\ RootUnitsDecl(Reg, sb[2]) = S(sb[1])
=============================================================================
