------------------------------- MODULE MC_C17 -------------------------------
(* C17: every (specification, arguments, call style, strictness) for 2 parameters, a     *)
(* reduced pool for 3 parameters; return specifications; ureg.check.                      *)
EXTENDS Wraps
Specs2 == {"m", "cm", "s", "none", "defA", "depA2"}       \* "defA" twice: the first defines A, the second refers to it
Specs3 == {"cm", "none", "defA", "depA2"}
K3 == {0, 1, 3}
\* thorough instance (MC_C17_full.cfg): three parameters over the full specification pool and every number of positional arguments
Specs3T == {"m", "cm", "s", "none", "defA", "depA2"}
K3T == {0, 1, 2, 3}
ArgPool == {<<R(2), "m">>, <<R(300), "cm">>, <<R(5), "s">>, <<R(7), "">>}
RetPool == {<<"scalar", "none">>, <<"scalar", "m">>, <<"scalar", "defA">>, <<"scalar", "depA2">>, <<"tuple", "m", "none">>, <<"tuple", "dimensionless", "defA">>}
DimPool == {"L", "T", "", "none"}
VARIABLES kind, specs, args, k, strict, ret, out
vars == <<kind, specs, args, k, strict, ret, out>>
None == [k |-> "", errs |-> {}, recv |-> <<>>]
Init == kind = "init" /\ specs = <<>> /\ args = <<>> /\ k = 0 /\ strict = TRUE /\ ret = <<"scalar", "none">> /\ out = None
W2 == /\ kind = "init" /\ kind' = "wraps" /\ ret' = <<"scalar", "none">>
      /\ \E s1 \in Specs2, s2 \in Specs2, a1 \in ArgPool, a2 \in ArgPool, kk \in 0..2, st \in BOOLEAN :
            specs' = <<s1, s2>> /\ args' = <<a1, a2>> /\ k' = kk /\ strict' = st /\ out' = Outcome(<<s1, s2>>, <<a1, a2>>, st)
W3 == /\ kind = "init" /\ kind' = "wraps" /\ ret' = <<"scalar", "none">>
      /\ \E s1 \in Specs3, s2 \in Specs3, s3 \in Specs3, a1 \in ArgPool, a2 \in ArgPool, a3 \in ArgPool, kk \in K3, st \in BOOLEAN :
            specs' = <<s1, s2, s3>> /\ args' = <<a1, a2, a3>> /\ k' = kk /\ strict' = st /\ out' = Outcome(<<s1, s2, s3>>, <<a1, a2, a3>>, st)
Ret == /\ kind = "init" /\ kind' = "ret" /\ k' = 2 /\ strict' = TRUE
       /\ \E r \in RetPool, a1 \in ArgPool :
            specs' = <<"defA", "none">> /\ args' = <<a1, <<R(7), "">>>> /\ ret' = r /\ out' = Outcome(<<"defA", "none">>, <<a1, <<R(7), "">>>>, TRUE)
Chk == /\ kind = "init" /\ kind' = "check" /\ ret' = <<"scalar", "none">> /\ strict' = TRUE
       /\ \E d1 \in DimPool, d2 \in DimPool, a1 \in ArgPool, a2 \in ArgPool, kk \in 0..2 :
            specs' = <<d1, d2>> /\ args' = <<a1, a2>> /\ k' = kk
            /\ out' = [k |-> IF CheckRaises(<<d1, d2>>, <<a1, a2>>) THEN "error" ELSE "ok", errs |-> IF CheckRaises(<<d1, d2>>, <<a1, a2>>) THEN {"dimerr"} ELSE {}, recv |-> <<>>]
Next == W2 \/ W3 \/ Ret \/ Chk
Spec == Init /\ [][Next]_vars
\* ---- laws ----
\* the index-based packing of positional + keyword + default values hands every parameter the value bound to its name
IndexIsName == kind = "wraps" /\ out.k = "ok" => \A i \in 1..Len(specs) : OpReceived(specs, args, k, strict, i) = out.recv[i]
StrictRefusesBare == kind = "wraps" /\ strict /\ DecorationOK(specs) /\ (\E i \in 1..Len(specs) : specs[i] \in {"m", "cm", "s"} /\ IsBare(args[i])) => out.k = "error" /\ "valueerr" \in out.errs
NonStrictPassesBare == kind = "wraps" /\ ~strict /\ out.k = "ok" => \A i \in 1..Len(specs) : (specs[i] \in {"m", "cm", "s"} /\ IsBare(args[i])) => out.recv[i] = <<"mag", args[i][1]>>
NoneUntouched == kind = "wraps" /\ out.k = "ok" => \A i \in 1..Len(specs) : specs[i] = "none" /\ ~IsBare(args[i]) => out.recv[i] = <<"q", args[i][1], args[i][2]>>
IncompatibleRaises == kind = "wraps" /\ DecorationOK(specs) /\ (\E i \in 1..Len(specs) : specs[i] \in {"m", "cm", "s"} /\ ~IsBare(args[i]) /\ DimOfU(args[i][2]) # DimOfU(specs[i])) => out.k = "error" /\ "dimerr" \in out.errs
=============================================================================
