"""Replay of PintRegistry behaviours (MC_Pint) on real registries: Materialise the model's constants, step the real
registry through each logged operation, Project the probe vector, compare with the specification after each step
(dense: C12) or only at explicitly logged queries and at the end, also against a fresh registry brought into the same
declarative state (sparse: C13)."""
import glob
import os
import re
from fractions import Fraction as F

from . import tlaval
from .engine import MachineryError


def fr(x):
    return F(x[0], x[1])


def cont(pairs):
    return {n: fr(e) for n, e in pairs}


def fmt_cont(c):
    parts = []
    for n in sorted(c):
        e = c[n]
        parts.append(n if e == 1 else "%s ** %s" % (n, e if e.denominator == 1 else "(%s)" % e))
    return " * ".join(parts)


class Model:
    """The constants printed by MC_Pint (units, contexts, systems) and their materialisation."""

    def __init__(self, const):
        self.c = const
        self.base_of = {}       # dimension container (as sorted tuple) -> base unit name
        for n, d in const["units"].items():
            if d["base"]:
                self.base_of[tuple(sorted((k, tuple(v)) for k, v in d["ref"]))] = n

    def unit_expr(self, dimpairs):
        """expression in base units with the dimensionality `dimpairs` (a monomial over the base units)"""
        parts = []
        for k, e in dimpairs:
            b = self.base_of[((k, (1, 1)),)]
            ee = fr(e)
            parts.append(b if ee == 1 else "%s ** %s" % (b, ee if ee.denominator == 1 else "(%s)" % ee))
        return " * ".join(parts)

    def unit_line(self, n, d):
        if d["base"]:
            return "%s = %s" % (n, fmt_cont(cont(d["ref"])))
        return "%s = %s * %s" % (n, fr(d["scale"]), fmt_cont(cont(d["ref"])))

    def dimname(self, pairs):
        """a derived-dimension *name* for this container when the model declares one (API-built contexts use it on one
        side of a rule: the registry must reduce it to base dimensions at first activation)"""
        key = sorted((k, tuple(v)) for k, v in pairs)
        for n, c in (self.c.get("ddims") or {}).items() if isinstance(self.c.get("ddims"), dict) else []:
            if sorted((k, tuple(v)) for k, v in c) == key:
                return n
        return None

    def lines(self):
        out = []
        for n, c in ((self.c.get("ddims") or {}).items() if isinstance(self.c.get("ddims"), dict) else []):
            out.append("%s = %s" % (n, fmt_cont(cont(c))))
        prefixed = [n for n, d in self.c["units"].items() if d["prefixed"]]
        if prefixed:
            out.append("k- = %s" % fr(self.c["units"][prefixed[0]]["scale"]))
        for n, d in sorted(self.c["units"].items(), key=lambda kv: (not kv[1]["base"], kv[0])):
            if not d["prefixed"]:
                out.append(self.unit_line(n, d))
        for name, s in (self.c["systems"].items() if isinstance(self.c["systems"], dict) else []):
            out += ["@system %s" % name, "    %s" % s["new"], "@end"]
        return out

    def context(self, name):
        """a fresh pint.Context for the pool entry (API form: also admits ill-formed redefinitions)"""
        import pint
        c = self.c["ctxs"][name]
        default = fr(c["default"])
        ctx = pint.Context(name, defaults={"p": default} if default != 0 else None)
        for r in c["rules"]:
            src, dst = cont(r["src"]), cont(r["dst"])
            bs = self.unit_expr(r["src"])
            bd = self.unit_expr(r["dst"])
            coef, pexp = fr(r["coef"]), r["pexp"]
            srcname = self.dimname(r["src"]) or fmt_cont(src)
            dstname = self.dimname(r["dst"]) or fmt_cont(dst)

            def fn(ureg, value, p=None, coef=coef, pexp=pexp, bs=bs, bd=bd):
                v = value * coef * ureg.Quantity(1, ureg.parse_units(bd)) / ureg.Quantity(1, ureg.parse_units(bs))
                if pexp == 1:
                    v = v * p
                elif pexp == -1:
                    v = v / p
                return v
            if pexp == 0:
                ctx.add_transformation(srcname, dstname, lambda ureg, value, fn=fn, **kw: fn(ureg, value))
            else:
                ctx.add_transformation(srcname, dstname, lambda ureg, value, p, fn=fn: fn(ureg, value, p))
        for rd in c["redefs"]:
            ctx.redefine("%s = %s * %s" % (rd["unit"], fr(rd["scale"]), fmt_cont(cont(rd["ref"]))))
        return ctx

    def registry(self, T=F):
        import pint
        u = pint.UnitRegistry(self.lines(), non_int_type=T)
        for name in self.c["ctxs"]:
            u.add_context(self.context(name))
        return u

    def define_new(self, u):
        d = self.c["newunit"]
        u.define("new1 = %s * %s" % (fr(d["scale"]), fmt_cont(cont(d["ref"]))))


# ---------------------------------------------------------------------------------------------- projection
def probe(u, key):
    """real answer to one probe key, in the abstract vocabulary of Answer()"""
    import pint
    kind, x, y = key
    try:
        if kind == "conv":
            return ("ok", F(u.Quantity(F(3), x).to(y).magnitude))
        if kind == "base":
            q = u.Quantity(F(1), x).to_base_units()
            return ("ok", F(q.magnitude), frozenset((k, F(v)) for k, v in q.unit_items()))
        if kind == "gbase":
            f, un = u.get_base_units(x)
            return ("ok", F(f), frozenset((k, F(v)) for k, v in (1 * un).unit_items()))
        if kind == "sbase":
            f, un = u.get_base_units(x, system=y)
            return ("ok", F(f), frozenset((k, F(v)) for k, v in (1 * un).unit_items()))
        if kind == "root":
            f, un = u.get_root_units(x)
            return ("ok", F(f), frozenset((k, F(v)) for k, v in (1 * un).unit_items()))
        if kind == "compat":
            return frozenset(next(iter((1 * un).unit_items()))[0] for un in u.get_compatible_units(x))
    except pint.UndefinedUnitError:
        return ("undef",) if kind != "compat" else frozenset(["<undef>"])
    except pint.DimensionalityError:
        return ("dimerr",)
    except Exception as e:
        return ("err", type(e).__name__)


def allowed(key, answers):
    """spec answers (a set, parsed TLA) -> set of python values comparable with probe()"""
    out = set()
    for a in answers:
        if key[0] == "conv":
            out.add(("ok", fr(a[1])) if a[0] == "ok" else (a[0],))
        elif key[0] in ("base", "gbase", "sbase", "root"):
            out.add(("ok", fr(a[1]), frozenset((n, fr(e)) for n, e in a[2])) if a[0] == "ok" else (a[0],))
        else:
            out.add(frozenset(a))
    return out


def matches(key, got, answers):
    al = allowed(key, answers)
    if key[0] == "compat" and frozenset(["<any>"]) in al:
        return True
    if got in al:
        return True
    if isinstance(got, tuple) and got[0] == "err" and ("err",) in al:
        return True
    return False


def stack_names(u):
    try:
        return [c.name for c in u._active_ctx.contexts]
    except AttributeError:          # internal layout changed: the stack is then observed through the probes only
        return None


# ---------------------------------------------------------------------------------------------- behaviours
def parse_const(out):
    m = re.search(r'<<"CONST", "((?:[^"\\]|\\.)*)">>', out)
    if not m:
        raise MachineryError("MC_Pint printed no constants")
    import json
    return json.loads(m.group(1).encode().decode("unicode_escape"))


def behaviours_from_dump(path, maxops):
    """maximal behaviours (hist of full length, or shorter ones that cannot be extended are covered as prefixes)"""
    out = []
    for st in tlaval.parse_states(open(path).read()):
        if len(st["hist"]) == maxops:
            out.append(st["hist"])
    return out


def thin_two_name(behs, thorough, keep=4):
    """quick tier: every behaviour without a two-name activation, and a fixed 1-in-`keep` sample (by position in the operation
    sequence order) of those with one; thorough tier: everything"""
    if thorough:
        return behs
    import zlib
    def two(h):
        return any(x["op"][0] in ("enable2", "with_enter2") for x in h)
    return [h for h in behs if not two(h) or zlib.crc32(repr([x["op"] for x in h]).encode()) % keep == 0]


def behaviours_from_sim(pattern):
    out = []
    for f in sorted(glob.glob(pattern)):
        sts = list(tlaval.parse_states(open(f).read()))
        if sts:
            out.append(sts[-1]["hist"])
    return out


class Stepper:
    """Executes abstract operations on a real registry (real with-blocks, real exceptions)."""

    def __init__(self, model):
        self.m = model
        self.u = model.registry()
        self.cms = []

    def step(self, op):
        u = self.u
        kind = op[0]
        try:
            if kind == "enable":
                kw = fr(op[2])
                if kw != 0:
                    u.enable_contexts(op[1], p=kw)
                else:
                    u.enable_contexts(op[1])
            elif kind == "enable2":
                u.enable_contexts(op[1], op[2])
            elif kind == "with_enter2":
                cm = u.context(op[1], op[2])
                cm.__enter__()
                self.cms.append(cm)
            elif kind == "disable":
                u.disable_contexts(op[1])
            elif kind == "with_enter":
                cm = u.context(op[1])
                cm.__enter__()
                self.cms.append(cm)
            elif kind == "with_exit":
                cm = self.cms.pop()
                if op[1] == "raise":
                    try:
                        cm.__exit__(ValueError, ValueError("left by an exception"), None)
                    except ValueError:
                        pass
                else:
                    cm.__exit__(None, None, None)
            elif kind == "define":
                self.m.define_new(u)
            elif kind == "setsys":
                u.default_system = None if op[1] == "none" else op[1]
            elif kind == "query":
                return "ok", probe(u, tuple(op[1]))
            else:
                raise MachineryError("unknown op %r" % (op,))
            return "ok", None
        except MachineryError:
            raise
        except Exception as e:
            return "error", type(e).__name__


def fresh_in_state(model, hist_entry, extra_defined):
    """A new registry brought into the declarative state of `hist_entry` (C13's reference)."""
    u = model.registry()
    if extra_defined:
        model.define_new(u)
    if hist_entry["sys"] != "none":
        u.default_system = hist_entry["sys"]
    for a in reversed(hist_entry["stack"]):          # oldest first
        p = fr(a["p"])
        if p != 0:
            u.enable_contexts(a["ctx"], p=p)
        else:
            u.enable_contexts(a["ctx"])
    return u


def classify(hist, k, key):
    """Abstract features of the failing step, for known-finding matching (functions of the abstract case only)."""
    ops = [h["op"] for h in hist[:k + 1]]
    kinds = [o[0] for o in ops]
    failed_before = any(h["res"] == "error" for h in hist[:k + 1])
    define_idx = [i for i, o in enumerate(ops) if o[0] == "define"]
    redef_ctx = {"D", "RD", "BAD"}
    define_inside_overlay = any(any(a["ctx"] in redef_ctx for a in (hist[i - 1]["stack"] if i > 0 else [])) for i in define_idx)
    key = key or (None, None)
    return {"after_failed_activation": failed_before, "after_define": bool(define_idx), "define_inside_overlay": define_inside_overlay,
            "probe": key[0], "probe_unit": key[1] if key[0] in ("compat", "base", "gbase", "sbase") or key[1] == "new1" else None}


# ---------------------------------------------------------------------------------------------- code -> spec traces
def enc_answer(key, got):
    if key[0] == "compat":
        if isinstance(got, frozenset):
            return ["set", sorted(got)]
        return ["set", ["<" + got[0] + ">"]]
    if got[0] == "ok":
        out = ["ok", [got[1].numerator, got[1].denominator]]
        if key[0] in ("base", "gbase", "sbase", "root"):
            out.append(sorted([n, [e.numerator, e.denominator]] for n, e in got[2]))
        return out
    return [got[0]]


def random_histories(model, rng, ntraces, length, dense, tid0=0):
    """Random operation sequences on real registries; one event per call with the probes asked after it.
    dense: the whole probe vector after every step (C12); sparse: one probe at explicit query steps, the whole
    vector only after the last step, followed by a fresh registry brought into the same state (C13)."""
    keys = [tuple(k) for k in model.c["probes"]]
    ctxs = list(model.c["ctxs"])
    events, tid = [], tid0
    for _ in range(ntraces):
        tid += 1
        st = Stepper(model)
        defined = False
        mine = []
        for i in range(length):
            r = rng.random()
            if r < 0.22:
                c = rng.choice(ctxs)
                kw = [5, 1] if (c == "R" and rng.random() < 0.4) else [0, 1]
                op = ["enable", c, kw]
            elif r < 0.30:
                op = ["with_enter", rng.choice(ctxs), [0, 1]]
            elif r < 0.36:
                op = [rng.choice(["enable2", "with_enter2"]), rng.choice(ctxs), rng.choice(ctxs)]
            elif r < 0.50 and st.cms:
                op = ["with_exit", rng.choice(["normal", "raise"])]
            elif r < 0.62:
                op = ["disable", rng.choice([1, 1, 2, 0, 3])]
            elif r < 0.68 and not defined:
                op = ["define", "new1"]
                defined = True
            elif r < 0.80:
                op = ["setsys", rng.choice(["S", "none"])]
            else:
                op = ["query", list(rng.choice(keys))]
            res, ans = st.step(op)
            if op[0] == "with_enter" and res == "error" and st.cms and False:
                pass
            ev = {"tid": tid, "op": op, "res": res, "probes": []}
            if op[0] == "query":
                ev["probes"] = [[op[1], enc_answer(tuple(op[1]), ans)]]
            if dense or i == length - 1:
                ev["probes"] = [[list(k), enc_answer(k, probe(st.u, k))] for k in keys]
            sn = stack_names(st.u)
            if sn is not None:
                ev["stack"] = sn
            mine.append(ev)
        events += mine
        if not dense:
            # a fresh registry brought into the same declarative state: replay only what determines it
            tid += 1
            u2 = Stepper(model)
            evs2 = []
            if defined:
                r2, _ = u2.step(["define", "new1"])
                evs2.append({"tid": tid, "op": ["define", "new1"], "res": r2, "probes": []})
            sysops = [e["op"][1] for e in mine if e["op"][0] == "setsys"]
            if sysops and sysops[-1] != "none":
                r2, _ = u2.step(["setsys", sysops[-1]])
                evs2.append({"tid": tid, "op": ["setsys", sysops[-1]], "res": r2, "probes": []})
            for op in surviving_activations(mine):
                r2, _ = u2.step(["enable", op[1], op[2]])
                evs2.append({"tid": tid, "op": ["enable", op[1], op[2]], "res": r2, "probes": []})
            evs2.append({"tid": tid, "op": ["query", list(keys[0])], "res": "ok",
                         "probes": [[list(k), enc_answer(k, probe(u2.u, k))] for k in keys], "fresh_of": tid - 1})
            events += evs2
    return events, tid


def surviving_activations(evs):
    """Abstract stack bookkeeping on the op log (what the operations imply): activations still in force, oldest first."""
    stack, frames = [], []
    for e in evs:
        op = e["op"]
        if op[0] in ("enable", "with_enter") and e["res"] == "ok":
            stack.append(op)
            if op[0] == "with_enter":
                frames.append(1)
        elif op[0] in ("enable2", "with_enter2") and e["res"] == "ok":
            stack += [["enable", op[1], [0, 1]], ["enable", op[2], [0, 1]]]
            if op[0] == "with_enter2":
                frames.append(2)
        elif op[0] == "disable":
            del stack[max(0, len(stack) - op[1]):]
        elif op[0] == "with_exit" and frames:
            n = frames.pop()
            del stack[max(0, len(stack) - n):]
    return stack


def validate_histories(chk, events, label="pint-trace", chunk=3000):
    """Trace_Pint over the events; returns [(event, clause, prefix-of-trace)]"""
    import json
    bad = []
    i = 0
    while i < len(events):
        j = min(len(events), i + chunk)
        while j < len(events) and events[j]["tid"] == events[j - 1]["tid"]:      # never split a trace
            j += 1
        part = events[i:j]
        wd = chk.workdir("%s%d" % (label, i))
        path = os.path.join(wd, "trace.json")
        with open(path, "w") as fh:
            json.dump({"trace": [{k: v for k, v in e.items() if k != "fresh_of"} for e in part]}, fh)
        r = chk.tlc("%s%d" % (label, i), "Trace_Pint", "Trace_Pint.cfg", wd=wd, workers=1, env={"TRACE_FILE": path}, timeout=3000)
        v = r.printed("VERDICT")
        if not v or v[-1]["consumed"] != len(part):
            raise MachineryError("Trace_Pint did not consume the trace\n" + r.out[-2000:])
        for ln, clause in v[-1]["bad"]:
            bad.append((part[ln - 1], clause, part[:ln]))
        chk.traces += len({e["tid"] for e in part})
        os.remove(path)
        i = j
    return bad


# ---------------------------------------------------------------------------------------------- definition-file form
def context_lines(model, name, alias=None):
    """The pool entry as an @context block (valid contexts only): equations written in the base units of the dimensions."""
    c = model.c["ctxs"][name]
    default = fr(c["default"])
    head = "@context%s %s%s" % ("(p=%s)" % default if default != 0 else "", name, " = " + alias if alias else "")
    out = [head]
    for r in c["rules"]:
        bs = model.unit_expr(r["src"])
        bd = model.unit_expr(r["dst"])
        eq = "%s * value" % fr(r["coef"])
        if r["pexp"] == 1:
            eq += " * p"
        elif r["pexp"] == -1:
            eq += " / p"
        eq += " * (%s) / (%s)" % (bd, bs)
        out.append("    %s -> %s: %s" % (fmt_cont(cont(r["src"])), fmt_cont(cont(r["dst"])), eq))
    for rd in c["redefs"]:
        out.append("    %s = %s * %s" % (rd["unit"], fr(rd["scale"]), fmt_cont(cont(rd["ref"]))))
    out.append("@end")
    return out


def registry_from_text(model, T=F):
    import pint
    lines = model.lines()
    for name in model.c["ctxs"]:
        lines += context_lines(model, name, alias=name.lower() + "_alias")
    return pint.UnitRegistry(lines, non_int_type=T)
