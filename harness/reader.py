"""Independent lexical reader of pint definition files (no pint import).

It splits lines on `=`, `;`, `:`, recognises @import/@group/@system/@context/@defaults/@alias, and evaluates
numeric literals / numeric sub-expressions with its own tokenizer and exact-rational evaluator.  It emits
*abstract lines*; what they mean (names, prefixes, reference chains, groups, systems, contexts) is the
business of the TLA+ modules (DefTable / Systems / Context), not of this file.
"""
import os
import re
from fractions import Fraction as F

P1, P2 = 46337, 46327

TOK = re.compile(r"\s*(\*\*|\^|[-+*/()]|\d+\.?\d*(?:[eE][-+]?\d+)?|\.\d+(?:[eE][-+]?\d+)?|[^\W\d][\w]*|\[[\w]*\])", re.UNICODE)


def read_lines(path):
    out = []
    with open(path, encoding="utf-8") as fh:
        for raw in fh.read().split("\n"):
            line = raw.split("#", 1)[0].strip()
            if not line:
                continue
            if line.startswith("@import"):
                out += read_lines(os.path.join(os.path.dirname(path), line[len("@import"):].strip()))
            else:
                out.append(line)
    return out


def tokenize(s):
    pos, toks = 0, []
    s = s.strip()
    while pos < len(s):
        m = TOK.match(s, pos)
        if not m:
            raise ValueError("cannot tokenize %r at %d" % (s, pos))
        toks.append(m.group(1))
        pos = m.end()
    return toks


class Val:
    """scale * prod(name ** exp); irr = an irrational (non-integer) power of a number was taken"""
    def __init__(self, scale=F(1), units=None, irr=False):
        self.scale, self.units, self.irr = scale, dict(units or {}), irr

    def mul(self, o, sign=1):
        u = dict(self.units)
        for k, v in o.units.items():
            u[k] = u.get(k, 0) + sign * v
            if u[k] == 0:
                del u[k]
        sc = self.scale * o.scale if sign == 1 else self.scale / o.scale
        return Val(sc, u, self.irr or o.irr)

    def pow(self, e):
        if e.units:
            raise ValueError("unit in exponent")
        ex = e.scale
        if isinstance(ex, float) or ex.denominator != 1:
            if self.scale == 1:
                sc, irr = F(1), self.irr
            else:
                sc, irr = float(self.scale) ** float(ex), True
        else:
            sc, irr = self.scale ** int(ex), self.irr
        return Val(sc, {k: v * F(ex) for k, v in self.units.items()}, irr)


def parse_expr(text):
    toks = tokenize(text)
    pos = [0]

    def peek():
        return toks[pos[0]] if pos[0] < len(toks) else None

    def nxt():
        t = peek()
        pos[0] += 1
        return t

    def expr():
        v = term()
        while peek() in ("+", "-"):
            op = nxt()
            w = term()
            if v.units or w.units:
                raise ValueError("sum of units")
            v = Val(v.scale + w.scale if op == "+" else v.scale - w.scale)
        return v

    def term():
        v = factor()
        while True:
            t = peek()
            if t in ("*", "/"):
                nxt()
                v = v.mul(factor(), 1 if t == "*" else -1)
            elif t is not None and t not in (")", "+", "-", "**", "^"):
                v = v.mul(power())
            else:
                break
        return v

    def factor():
        if peek() in ("+", "-"):
            op = nxt()
            v = factor()
            return Val(-v.scale, v.units, v.irr) if op == "-" else v
        return power()

    def power():
        v = atom()
        if peek() in ("**", "^"):
            nxt()
            v = v.pow(factor())
        return v

    def atom():
        t = nxt()
        if t == "(":
            v = expr()
            if nxt() != ")":
                raise ValueError("unbalanced")
            return v
        if t is None:
            raise ValueError("unexpected end")
        if re.match(r"[\d.]", t):
            return Val(F(t))
        return Val(F(1), {t: F(1)})

    v = expr()
    if pos[0] != len(toks):
        raise ValueError("trailing tokens in %r" % text)
    return v


# the tree under test: /repo, or a scratch worktree when tools/mutcheck.sh evaluates a seeded change in isolation (VERIF_PINT_ROOT)
PINT_ROOT = os.environ.get("VERIF_PINT_ROOT", "/repo").rstrip("/")


def read_registry(path=None):
    path = path or PINT_ROOT + "/pint/default_en.txt"
    lines = read_lines(path)
    R = {"prefixes": {}, "units": {}, "dims": {}, "basedims": [], "aliases": [], "groups": {}, "systems": {},
         "contexts": {}, "defaults": {}, "order": []}
    block = None        # (kind, name)
    for ln in lines:
        if ln.startswith("@end"):
            block = None
            continue
        if ln.startswith("@alias"):
            parts = [p.strip() for p in ln[len("@alias"):].split("=")]
            R["aliases"].append((parts[0], parts[1:]))
            continue
        if ln.startswith("@defaults"):
            block = ("defaults", None)
            continue
        if ln.startswith("@group"):
            m = re.match(r"@group\s+(\w+)(?:\s+using\s+(.*))?$", ln)
            name = m.group(1)
            R["groups"][name] = {"using": [x.strip() for x in (m.group(2) or "").split(",") if x.strip()], "units": []}
            block = ("group", name)
            continue
        if ln.startswith("@system"):
            m = re.match(r"@system\s+(\w+)(?:\s+using\s+(.*))?$", ln)
            name = m.group(1)
            R["systems"][name] = {"using": [x.strip() for x in (m.group(2) or "").split(",") if x.strip()], "rules": []}
            block = ("system", name)
            continue
        if ln.startswith("@context"):
            m = re.match(r"@context\s*(?:\((.*?)\))?\s*(.*)$", ln)
            names = [x.strip() for x in m.group(2).split("=")]
            defaults = {}
            if m.group(1):
                for kv in m.group(1).split(","):
                    k, v = kv.split("=")
                    defaults[k.strip()] = parse_expr(v).scale
            R["contexts"][names[0]] = {"aliases": names[1:], "defaults": defaults, "relations": [], "redefs": []}
            block = ("context", names[0])
            continue
        if ln.startswith("@"):
            raise ValueError("unknown directive " + ln)
        if block and block[0] == "defaults":
            k, v = [x.strip() for x in ln.split("=")]
            R["defaults"][k] = v
            continue
        if block and block[0] == "system":
            if ":" in ln:
                new, old = [x.strip() for x in ln.split(":")]
            else:
                new, old = ln.strip(), None
            R["systems"][block[1]]["rules"].append((new, old))
            continue
        if block and block[0] == "context":
            if "->" in ln:
                lhs, eq = ln.split(":", 1)
                bidir = "<->" in lhs
                src, dst = lhs.split("<->" if bidir else "->")
                R["contexts"][block[1]]["relations"].append(
                    {"src": src.strip(), "dst": dst.strip(), "bidir": bidir, "eq": eq.strip()})
            else:
                R["contexts"][block[1]]["redefs"].append(ln)
            continue
        if "=" not in ln:
            if block and block[0] == "group":
                R["groups"][block[1]]["units"].append(ln.strip())
            continue
        parts = [p.strip() for p in ln.split("=")]
        name = parts[0]
        if name.startswith("["):
            R["dims"][name] = {k: v for k, v in parse_expr(parts[1]).units.items() if k != "[]"}
            continue
        if name.endswith("-"):
            val = parse_expr(parts[1])
            sp = [name[:-1]] + [p.rstrip("-") for p in parts[2:] if p not in ("_", "")]
            # third field: the symbol ("_" = none); further fields: aliases
            sym = parts[2].rstrip("-") if len(parts) > 2 and parts[2] not in ("_", "") else None
            R["prefixes"][name[:-1]] = {"value": val.scale, "spellings": sp, "symbol": sym, "aliases": [p.rstrip("-") for p in parts[3:] if p not in ("_", "")]}
            continue
        rhs, mods = parts[1], {}
        if ";" in rhs:
            rhs, *ms = rhs.split(";")
            for m_ in ms:
                k, v = m_.split(":")
                mods[k.strip()] = parse_expr(v).scale
        v = parse_expr(rhs)
        symbol = parts[2] if len(parts) > 2 and parts[2] != "_" else None
        als = [p for p in parts[3:] if p not in ("_", "")]
        isbase = bool(v.units) and all(k.startswith("[") for k in v.units) or rhs.strip() == "[]"
        R["units"][name] = {"scale": v.scale, "ref": {} if rhs.strip() == "[]" else v.units, "irr": v.irr, "mods": mods,
                            "symbol": symbol, "aliases": als, "base": isbase,
                            "group": block[1] if block and block[0] == "group" else None}
        R["order"].append(name)
        if isbase:
            for k in v.units:
                if k not in R["basedims"]:
                    R["basedims"].append(k)
        if block and block[0] == "group":
            R["groups"][block[1]]["units"].append(name)
    return R


# ------------------------------------------------------------------------------------------------
def esc(s):
    """ASCII token for a spelling: TLC record keys and JSON keys stay plain identifiers."""
    if s == "":
        return "_empty"
    return "".join(c if c.isascii() and (c.isalnum() or c == "_") else "_u%04X" % ord(c) for c in s)


def modp(fr, p):
    """Residue of a rational modulo p, or None when its denominator is divisible by p."""
    if fr.denominator % p == 0:
        return None
    return fr.numerator % p * pow(fr.denominator % p, p - 2, p) % p


def fp(fr):
    a, b = modp(fr, P1), modp(fr, P2)
    return None if a is None or b is None else [a, b]


def splits_of(s):
    """All <<head, middle, tail>> with head+middle+tail = s and tail in {"", "s"}: pure slicing."""
    out = []
    for i in range(0, len(s) + 1):
        for t in ("", "s"):
            if t and not s.endswith("s"):
                continue
            end = len(s) - len(t)
            if end <= i:
                continue
            mid = s[i:end]
            out.append({"h": esc(s[:i]), "m": esc(mid), "t": t, "mlen": len(mid)})
    return out


def spelling_tables(R):
    usp = {}
    for n, d in R["units"].items():
        for s in [n] + ([d["symbol"]] if d["symbol"] else []) + d["aliases"]:
            usp[s] = n
        if d["mods"].get("offset") and "logbase" not in d["mods"]:      # a zero offset is a plain scale
            dn = "delta_" + n
            usp[dn] = dn
            if d["symbol"]:
                usp["Δ" + d["symbol"]] = dn
            for a in d["aliases"]:
                usp["Δ" + a] = dn
                usp["delta_" + a] = dn
    for base, als in R["aliases"]:
        for a in als:
            usp[a] = usp[base]
    psp, porder = {"": ""}, [""]
    for n, d in R["prefixes"].items():
        for s in d["spellings"]:
            if s not in psp:
                porder.append(s)
            psp[s] = n
    nonmult = [n for n, d in R["units"].items() if d["mods"].get("offset") or "logbase" in d["mods"]]
    return usp, psp, porder, nonmult


def tla_table(R):
    """The abstract registry as JSON for DefTable.tla (all names escaped, numbers as residues / [n, d])."""
    usp, psp, porder, nonmult = spelling_tables(R)
    units, refspell = {}, set()
    for n, d in R["units"].items():
        ok = (not d["irr"]) and isinstance(d["scale"], F)
        s = fp(d["scale"]) if ok else None
        if s is None:
            ok, s = False, [1, 1]
        ref = []
        for k, e in d["ref"].items():
            ref.append([esc(k), [e.numerator, e.denominator]])
            if not k.startswith("["):
                refspell.add(k)
        off = fp(d["mods"]["offset"]) if isinstance(d["mods"].get("offset"), F) else None
        units[esc(n)] = {"base": bool(d["base"]), "ok": ok, "s": s, "ref": ref,
                         "nonmult": n in nonmult, "off": off or [0, 0], "isoffset": bool(d["mods"].get("offset")) and "logbase" not in d["mods"], "isdelta": False}
    for n, d in R["units"].items():     # automatic delta units: scale-only copies of offset units
        if d["mods"].get("offset") and "logbase" not in d["mods"]:      # a zero offset is a plain scale
            units[esc("delta_" + n)] = dict(units[esc(n)], nonmult=False, off=[0, 0], isoffset=False, isdelta=True)
    ddims = {esc(k): [[esc(x), [e.numerator, e.denominator]] for x, e in v.items()] for k, v in R["dims"].items()}
    pval = {"_empty": [1, 1]}
    pexact = {"_empty": [1, 1]}
    for n, d in R["prefixes"].items():
        pval[esc(n)] = fp(d["value"])
        pexact[esc(n)] = [d["value"].numerator, d["value"].denominator] if max(abs(d["value"].numerator), d["value"].denominator) < 2 ** 30 else [0, 1]
    return {
        "units": units, "ddims": ddims,
        "usp": {esc(k): esc(v) for k, v in usp.items()},
        "psp": {esc(k): esc(v) for k, v in psp.items()},
        "porder": [esc(p) for p in porder],
        "pval": pval,
        "refsplits": {esc(s): splits_of(s) for s in sorted(refspell)},
    }
