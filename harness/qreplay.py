"""Replay of quantity-operator cases (MC_C03 / MC_C05 / MC_C06 states) on real registries:
Materialise (registry with offset units), abstract <-> concrete quantities, operator table, result projection."""
import copy
import operator
from decimal import Decimal
from fractions import Fraction as F

from .regfamily import cont_of, fmt_cont, fmt_num


def reg_of(v):
    """TLA registry value (with offset fields) -> python dict"""
    units = {}
    for n, d in v["units"].items():
        units[n] = {"base": d["base"], "scale": F(*d["scale"]), "ref": cont_of(d["ref"]), "offset": F(*d["offset"]),
                    "nonmult": d["nonmult"], "delta": d["delta"], "deltaOf": d["deltaOf"],
                    "log": d.get("log", False), "lb": F(*d["lb"]) if "lb" in d else F(1), "lf": F(*d["lf"]) if "lf" in d else F(1)}
    return {"units": units}


def lines_of(reg):
    out = []
    order = sorted(reg["units"], key=lambda n: (not reg["units"][n]["base"], n))
    for n in order:
        d = reg["units"][n]
        if d["delta"]:
            continue            # pint creates delta_<unit> itself for every offset unit
        if d["base"]:
            rhs = fmt_cont(d["ref"]) or "[]"
        else:
            rc = fmt_cont(d["ref"])
            rhs = fmt_num(d["scale"]) + (" * " + rc if rc else "")
        if d.get("log"):
            rhs += "; logbase: %s; logfactor: %s" % (fmt_num(d["lb"]), fmt_num(d["lf"]))
        elif d["nonmult"]:
            rhs += "; offset: " + fmt_num(d["offset"])
        out.append("%s = %s" % (n, rhs))
    return out


def materialise(reg, T=F, **kw):
    import pint
    return pint.UnitRegistry(lines_of(reg), non_int_type=T, **kw)


def num(x, T):
    x = F(*x) if not isinstance(x, F) else x
    if T is F:
        return x
    if T is Decimal:
        return Decimal(x.numerator) / Decimal(x.denominator)
    if T is int:
        return int(x)
    return x.numerator / x.denominator


def mkq(ureg, v, T=F):
    """abstract quantity / number -> real object"""
    if v["num"]:
        return num(v["m"], T)
    c = {k: (int(e) if e.denominator == 1 else num(e, T)) for k, e in cont_of(v["u"]).items()}
    return ureg.Quantity(num(v["m"], T), ureg.UnitsContainer(c))


BIN = {
    "add": operator.add, "sub": operator.sub, "mul": operator.mul, "div": operator.truediv,
    "floordiv": operator.floordiv, "mod": operator.mod, "divmod": divmod,
    "eq": operator.eq, "ne": operator.ne, "lt": operator.lt, "le": operator.le, "gt": operator.gt, "ge": operator.ge,
}
REFL = {"radd": operator.add, "rsub": operator.sub, "rmul": operator.mul, "rdiv": operator.truediv,
        "rfloordiv": operator.floordiv, "rmod": operator.mod}
INPLACE = {"add": operator.iadd, "sub": operator.isub, "mul": operator.imul, "div": operator.itruediv,
           "floordiv": operator.ifloordiv, "mod": operator.imod}
POW = {"pow0": 0, "pow1": 1, "pow2": 2, "pow3": 3, "pow-1": -1, "pow-2": -2}


def apply(op, x, y):
    if op in BIN:
        return BIN[op](x, y)
    if op in REFL:
        return REFL[op](y, x)          # number on the left
    if op == "neg":
        return -x
    if op == "abs":
        return abs(x)
    if op == "bool":
        return bool(x)
    if op in POW:
        return x ** POW[op]
    if op == "to":
        return x.to(y.units)
    raise KeyError(op)


def kind_of_exception(e):
    import pint
    if isinstance(e, pint.OffsetUnitCalculusError):
        return "offseterr"
    if isinstance(e, pint.DimensionalityError):
        return "dimerr"
    if isinstance(e, ArithmeticError):       # ZeroDivisionError, decimal.InvalidOperation / DivisionByZero / Overflow
        return "zerodiv"
    if isinstance(e, ValueError):
        return "valueerr"
    return "other:" + type(e).__name__


def project(r):
    """real result -> abstract result (exact rationals)"""
    if isinstance(r, bool) or type(r).__name__ in ("bool_", "bool"):
        return {"k": "bool", "b": bool(r)}
    if isinstance(r, tuple):
        return {"k": "pair", "q": project(r[0]), "r": project(r[1])}
    if hasattr(r, "unit_items"):
        return {"k": "ok", "m": frac(r.magnitude), "u": {k: frac(v) for k, v in r.unit_items()}}
    return {"k": "num", "m": frac(r)}


def frac(x):
    if isinstance(x, float):
        return x
    try:
        return F(x)
    except (TypeError, ValueError):
        return x


def expected(res):
    """TLA result value -> comparable python structure"""
    k = res["k"]
    if k == "ok":
        return {"k": "ok", "m": F(*res["m"]) if res["m"][1] != 0 else None, "u": cont_of(res["u"])}     # None: Irr
    if k == "pair":
        return {"k": "pair", "q": expected(res["q"]), "r": expected(res["r"])}
    if k == "bool":
        return {"k": "bool", "b": res["b"]}
    return {"k": k}


def run_case(ureg, a, b, op, T=F):
    x, y = mkq(ureg, a, T), mkq(ureg, b, T)
    try:
        return project(apply(op, x, y))
    except Exception as e:
        return {"k": kind_of_exception(e)}


def approx_equal(got, exp, rel=1e-12):
    """float / Decimal comparison of projected results against exact expectations"""
    if got.get("k") != exp.get("k"):
        return False
    if exp["k"] == "ok":
        if set(got["u"]) != set(exp["u"]) or any(abs(float(got["u"][k]) - float(e)) > 1e-12 for k, e in exp["u"].items()):
            return False
        g, e = float(got["m"]), float(exp["m"])
        return abs(g - e) <= rel * max(1.0, abs(e))
    if exp["k"] == "pair":
        return approx_equal(got["q"], exp["q"], rel) and approx_equal(got["r"], exp["r"], rel)
    return got == exp


def snapshot(x):
    if hasattr(x, "unit_items"):
        m = x.magnitude
        return (repr(m.tolist()) if hasattr(m, "tolist") else repr(m), sorted((k, repr(v)) for k, v in x.unit_items()))
    return repr(x)
