"""Regenerates MANIFEST.json from the table below:  /venv/bin/python -m harness.manifest"""
import json
import os

ROOT = os.path.dirname(os.path.dirname(os.path.abspath(__file__)))

CHECKS = {
    "C01": dict(
        technique="TLA+ spec (Registry, DefTable) model-checked with TLC; TLC-generated registries and probes replayed into pint; conversions over the bundled registry validated by a TLC trace spec against an independently read definition table",
        text="TLC checks over a family of registries (768 in thorough, 48 in quick) that the transcribed accumulator recursion for dimensionality equals the "
             "declarative definition and that convertibility is an equivalence and a congruence; every registry is materialised as definition text, loaded "
             "by pint in several configurations and every ordered probe pair is put through to/ito/m_as/convert and all compatibility predicates; over the "
             "bundled registry, dimensionalities of all spellings and the outcome of unit pairs (all ~1.5e5 ordered pairs in thorough) are logged and "
             "recomputed inside TLC from the independent reader's abstract lines.",
        design_ref="DESIGN.md section 3, C01",
        note="Small-scope hypothesis for the family; the lexical reader (harness/reader.py) is trusted for the bundled-registry part; contexts off."),
    "C02": dict(
        technique="TLA+ spec (Registry, DefTable, ModArith) model-checked with TLC; TLC-computed exact factors replayed into Fraction/Decimal/float registries; bundled-registry factors validated by TLC through modular fingerprints",
        text="TLC checks that the transcribed root-unit recursion equals the product along the reference chain and the identity / inverse / path laws; "
             "each family registry is materialised and every convertible probe pair converted through eight API forms and compared exactly (Fraction), "
             "to 1e-25 (Decimal) or 16 ulp (float); over the bundled registry, factors of same-dimension pairs (canonical, alias, symbol, prefixed, plural, "
             "compound, two-step paths) are logged as residues modulo two primes and recomputed by Trace_Reg from the written literals.",
        design_ref="DESIGN.md section 3, C02",
        note="Fingerprints miss a wrong factor with probability ~5e-10 per event; units with irrational chains (fractional powers of non-trivial "
             "scales) are compared in float only; an edited constant in default_en.txt is invisible here by construction (C20's job)."),
    "C03": dict(
        technique="TLA+ spec (Quantity, Offset) model-checked with TLC for covariance laws; every TLC state replayed on real quantities in plain/reflected/in-place/ndarray form; random expression trees over the bundled registry validated by a TLC trace spec in physical (fingerprint) space",
        text="TLC checks for every operator form of PlainQuantity (transcribed branch by branch) over a pool of 55 quantities x 3 bare numbers that the "
             "result is invariant, as a physical value or error kind, under re-expression of each operand in every alternative compatible unit, and the "
             "dimension / bare-number / divmod / reflected-form laws; all 43k states are executed on Fraction (exact), Decimal and float registries, "
             "including in-place and ndarray twins with operand-immutability checks; random trees of depth <= 4 over the bundled registry are "
             "recomputed by Trace_C03 from the independent reader's table.",
        design_ref="DESIGN.md section 3, C03",
        note="Offset units are C06's; // % comparisons are checked only on generated registries (not ring operations, no fingerprints)."),
    "C05": dict(
        technique="TLA+ spec (Quantity, Offset) model-checked with TLC for the equivalence / order / hash laws in both registry modes; every TLC state replayed on real quantities; constructed equal and adjacent pairs over the bundled registry validated by a TLC trace spec",
        text="TLC checks over a pool of 77 quantities (multiplicative, offset, delta, absolute, dimensionless units; 1 inch = 2.54 cm, 0 C = 273 K) and 3 bare "
             "numbers that == is exactly 'same dimensionality and equal magnitude after conversion', reflexive, symmetric, transitive, that equal "
             "quantities have equal hash keys, that != negates ==, trichotomy / order by root magnitude, and the cross-dimension and bare-number rules; "
             "all 86k states (two modes) are executed on materialised Fraction registries; over the bundled registry pairs constructed physically "
             "equal or adjacent are compared with all six operators and hash, the construction being validated by Trace_Reg through fingerprints.",
        design_ref="DESIGN.md section 3, C05",
        note="Triples mixing offset and delta units are outside transitivity / trichotomy by design (offset <-> delta conversion is refused); NaN is "
             "checked relationally in the harness."),
    "C06": dict(
        technique="TLA+ spec (Offset, Quantity) model-checked with TLC against the documented offset/delta/log table in both registry modes; every TLC state replayed on real quantities (scalar and ndarray in-place); temperature conversions of the bundled registry validated by TLC through affine maps in fingerprint arithmetic",
        text="NonMultiplicativeRegistry._convert, the seven _add_sub branches, _mul_div and __pow__ are transcribed in Offset.tla; TLC checks in both modes, "
             "over a pool of absolute / scaled-absolute / offset / other-scale offset / delta / compound / squared / logarithmic quantities, that the "
             "operational answers are exactly the documented table (defining affine maps, inverse and path-independent conversions, delta by scale only, "
             "delta <-> offset refused, offset - offset = delta, offset +- delta = offset, offset + offset refused, products and powers refused or through "
             "base units, log units on the exact lattice); all states are executed on materialised registries; conversions among all bundled temperature "
             "units (Fraction magnitudes) are recomputed by Trace_Reg and log units checked against their formula in float.",
        design_ref="DESIGN.md section 3, C06",
        note="Logarithms are floating point: tolerance 1e-9; // and % with offset units are outside the documented table and not claimed."),
    "C07": dict(
        technique="TLA+ spec (Expr) with the library's precedence-climbing parser transcribed and Python's grammar as a recursive-descent parser, compared by TLC on every token sequence; TLC states rendered as strings and parsed by the real library; audited fuzzing for the no-execution clause",
        text="TLC checks for every token sequence up to length 5 (quick, 1.8e5) or 6 (thorough, 1.9e6) over {2, 3, m, + - * / // ** ( )} that the "
             "transcription of pint_eval._build_eval_tree and a parser for Python's grammar (juxtaposition at * level, ** right-associative and tighter "
             "than unary minus) agree on acceptance and on the exact value, and that unbalanced or dangling input yields no value; every state is "
             "rendered in two or three spellings and parsed by parse_expression (Fraction registry, exact; float / Decimal / ureg() / Quantity(str) on a "
             "share); word forms, unicode exponents and literal types are checked against their operator form; 1500 (thorough 6000) fuzz inputs are "
             "parsed under an audit hook that reports any exec / compile / import / open / os / subprocess / socket event.",
        design_ref="DESIGN.md section 3, C07",
        note="The token model has one unit and small integers (values beyond 1e5 are not compared); +/- notation belongs to C19."),
    "C08": dict(
        technique="TLA+ spec (Names; DefTable.Resolve) model-checked with TLC over colliding-spelling registries; TLC states replayed on real registries in two lookup orders and case-insensitively; bundled-registry strings validated by the TLC trace spec Trace_Names",
        text="The candidate loop of parse_unit_name / get_name (suffix-major, prefix insertion order, de-duplication, exact hit first, offset refusal) "
             "is transcribed and TLC checks over 672 registries with colliding short spellings and all 340 strings of length <= 4 that it stays within the "
             "declarative readings, is undefined exactly when none exists and never prefixes an offset unit; 210 registries x 84 strings are replayed "
             "through get_name / parse_units / Quantity / `in`, in two lookup orders and with case_sensitive=False; ~10^4 (thorough: all ~1.4e5) "
             "prefix+spelling+plural strings and perturbed non-units of the bundled registry are resolved by Trace_Names from the reader's spelling tables "
             "with the root factor checked through fingerprints; offset-prefix refusal, as_delta parsing and canonical name / symbol are checked directly.",
        design_ref="DESIGN.md section 3, C08",
        note="pint's 'no plural of a one-letter unit part' rule is part of the operational model; double prefixes are outside the statement."),
    "C09": dict(
        technique="TLA+ spec (Format) model-checked with TLC for the denotation of layouts; every TLC state rendered by the real formatter and compared / read back / parsed back; bundled units in six formats read back lexically and validated by the TLC trace spec Trace_Format (names resolved with the C08 rules)",
        text="TLC checks over 1331 containers x {D, C, P, H} x {long, ~} that the layout puts every unit once, with |exponent|, on the side of the fraction bar "
             "its sign demands, and computes the text; each state is rendered by format(unit, spec) in float (all), Fraction and Decimal registries: "
             "the text must match, must not raise or alter the object, and for D / C (and P with integer exponents) parse back to an equal unit; every "
             "canonical unit and random compounds of the bundled registry are formatted in D, C, P, H, L, Lx (long and ~) and the text is read back by "
             "per-format lexical readers into (term, exponent, side) lists which Trace_Format resolves with the C08 rules and compares with the unit; "
             "quantity specs are checked against Python's own number formatting, str(q) round trips and the # modifier.",
        design_ref="DESIGN.md section 3, C09",
        note="babel / locale output is outside the statement; LaTeX / siunitx are read back only for names and symbols made of letters."),
    "C10": dict(
        technique="TLA+ spec (DefFile: abstract lines, Load as a fold, well-formedness) model-checked with TLC over all line orders, paddings and eight kinds of damage; every TLC variant written out as text and loaded through five loading paths in three numeric types; bundled files compared across loading paths",
        text="TLC checks for a core file (prefix, bases, derived dimension, forward-referring derived units, alias) in all 720 orders of its unit and prefix "
             "lines x 3 paddings that Load gives the same meaning and exactly what is written, and that each of eight damaged variants (invalid name, "
             "mixed dimension/unit reference, cycle, non-numeric / unknown modifier, unknown directive, unterminated block, dangling reference) is not "
             "well-formed; variants are rendered as text in four layouts and loaded from a file, an iterable, define() calls, a cold and a warm disk "
             "cache in float / Decimal / Fraction registries, and names, symbols, aliases, dimensionalities, exact factors, prefix values and listings "
             "compared with the specification; damaged files must raise at load or on first use; the bundled files are loaded through four paths and "
             "every definition's answers compared.",
        design_ref="DESIGN.md section 3, C10",
        note="Groups / systems / contexts as written are validated by C14 / C11 (Trace_Sys, Trace_Ctx) from the same reader; load_definitions after "
             "construction ignoring @defaults is recorded under C13."),
    "C11": dict(
        technique="TLA+ spec (PintRegistry instance MC_C11) model-checked with TLC for shortest-chain / precedence / parameter laws; every TLC stack realised through nine activation forms on real registries with set-valued comparison; bundled-context conversions validated by the TLC trace spec Trace_Ctx in fingerprint arithmetic",
        text="TLC explores every stack of up to three activations over contexts with colliding edges, a direct edge competing with a two-step chain, "
             "parameters (keyword / enclosing context / default) and a redefinition, and checks that the search returns exactly the shortest chains, "
             "that the most recent provider wins, that unreachable targets are refused, that same-dimension conversions are untouched and that a "
             "redefinition reaches dependent units exactly while active.  Each stack is then realised through enable_contexts (sequential, single "
             "call), nested with-blocks, to(u, ctx, **kw), ureg.convert, @with_context, alias, Context object, text-loaded and API-built contexts and "
             "16 probe conversions are compared with the specification's admissible set (exact).  Conversions under random stacks of the bundled "
             "contexts (spectroscopy, boltzmann, energy, chemistry, textile) are recomputed by Trace_Ctx from the equations as read by the independent "
             "reader.",
        design_ref="DESIGN.md section 3, C11",
        note="Which enclosing context lends parameters is left open by the statement: the specification admits any active one (set-valued). Gaussian / "
             "ESU (irrational factors) are covered relationally by C13 only."),
    "C12": dict(
        technique="TLA+ state machine (PintRegistry) model-checked with TLC (action properties AtomicFailure, NoResidue, StackDiscipline); every TLC behaviour of length 3 replayed step by step on real registries; random histories of real calls validated by the total TLC trace spec Trace_Pint",
        text="PintRegistry.tla has one action per public mutating call (enable of one or of two names in one call / disable / with-enter of one or two names / with-exit normal and by exception / define / "
             "default_system) and per query; TLC explores every sequence up to length 4 (quick) or 5 (thorough) over a pool of contexts (rule with "
             "parameter, redefinition, both, ill-formed) and checks that a failed activation changes nothing, that leaving a block restores every answer, "
             "and the stack discipline; every behaviour of length 3 is executed on a fresh real registry with real with-blocks and exceptions, the stack "
             "and a 12-probe answer vector compared after every step; random 25-call histories are logged and followed by Trace_Pint; context objects "
             "(also shared between registries, re-entered with other parameters) must stay unmodified.",
        design_ref="DESIGN.md section 3, C12",
        note="The ordered stack is read from ureg._active_ctx when that attribute exists, otherwise only observed through the probes; listings while a "
             "rule-bearing context is active are unconstrained."),
    "C13": dict(
        technique="TLA+ state machine (PintRegistry) with the law Transparent model-checked by TLC; behaviours executed sparsely (only logged queries ask) and compared with the spec; sparse random histories with fresh-registry twins validated by Trace_Pint; bundled-registry histories validated by Trace_Hist (first answer per declarative state and question)",
        text="In PintRegistry.tla every answer is defined on the declarative state <<active stack, definitions, default system>> only; TLC checks that queries "
             "move nothing.  All behaviours of length 3 are executed with only their own query steps asking, so the set and order of earlier queries "
             "varies, and the final 12-probe vector is compared with the specification; random sparse histories and registries built afresh and brought "
             "into the same declarative state are validated by Trace_Pint; 40-call histories over the bundled registry (7 contexts, 8 default systems, new "
             "definitions, 38 questions incl. lazily registered prefixed units, formatting, to_compact) and their fresh twins are validated by Trace_Hist; "
             "registries of different numeric type and the application registry are checked for isolation; a context edited or replaced after use answers by its current content.",
        design_ref="DESIGN.md section 3, C13",
        note="Bundled-registry answers are compared as digests rounded to 10 significant digits (different cache paths may multiply floats in a different "
             "order)."),
    "C14": dict(
        technique="TLA+ spec (Systems) model-checked with TLC for membership closure under edits and for rule inversion / base-unit substitution; TLC behaviours and states replayed on real Group / System objects and registries; bundled groups, systems and to_base_units validated by the TLC trace spec Trace_Sys",
        text="MC_C14g explores every sequence of up to 4 edits (add/remove units, add/remove used groups, system add/remove groups, interleaved member "
             "queries) over three groups and two systems and checks that members are the least fixed point, cycles are refused, a system's members are "
             "those of its groups and edits are immediate; MC_C14b checks for five systems (rules new and new:old, also with exponent 2) that base-unit "
             "re-expression uses only base units, preserves dimensionality and physical value and is idempotent.  Behaviours of length 3 are executed "
             "on real objects (members of every group and system and restricted compatible-unit listings after each step, and again reading only the systems / nothing until the last step); every (system, probe) is "
             "put through to_base_units, ito_base_units, get_base_units and default_system switching in random order; over the bundled registry, "
             "members of all groups and systems, to_base_units of canonical and compound units in 7 systems and restricted listings are recomputed by "
             "Trace_Sys from the reader's @group / @system blocks.",
        design_ref="DESIGN.md section 3, C14",
        note="Irrational base factors (fractional powers, Planck / atomic compounds overflowing exact arithmetic) are compared on the container only."),
    "C15": dict(
        technique="TLA+ spec (Rewrite: post-conditions and the library's reduce / compact procedures) model-checked with TLC; TLC states replayed on real registries; helper calls over the bundled registry validated by the TLC trace spec Trace_Rewrite",
        text="TLC checks that the transcribed nested loop of to_reduced_units, over all containers of up to three of seven units, ends without a mergeable "
             "pair, keeps the dimensionality, only merges and is idempotent, and that the prefix choice of to_compact over 3 mantissas x 73 decades x 5 unit "
             "exponents is an available power which, for a first-power leading unit, brings the magnitude into [1, 1000); reduce states are replayed "
             "(to_ and ito_ form: same container as the model, same value, operands untouched), compact states are replayed with exact Fraction magnitudes "
             "on the bundled registry (chosen prefix = the model's); 500 (thorough 2500) random quantities x {to_root_units, to_base_units, "
             "to_reduced_units, to_compact} x 6 default systems are logged with input and output and Trace_Rewrite checks dimensionality, physical value "
             "(fingerprints), root-only / no mergeable pair / single prefix change; special magnitudes (0, NaN, +-inf, unitless, ufloat) and "
             "auto_reduce_dimensions registries are checked relationally.",
        design_ref="DESIGN.md section 3, C15",
        note="Exact decade boundaries are excluded (the library decides them with a floating-point logarithm); to_preferred needs the optional mip "
             "solver and is only exercised when importable."),
    "C20": dict(
        technique="hand-curated standards table as the specification; its internal consistency relations and every registry answer checked by the TLC trace spec Trace_Std in modular fingerprint arithmetic",
        text="234 units and constants, 32 prefixes and 3 temperature scales curated from the SI brochure, NIST SP 811 / Handbook 44, the 1959 yard and pound "
             "agreement, the Weights and Measures Act 1985, IAU 2012 and CODATA 2022 (never generated from the definition files); Trace_Std first checks "
             "43 consistency relations of the table itself (12 inch = foot ... kibi = 2^10) and then compares, entry by entry, the exact SI factor "
             "of the Fraction registry (as residues), the symbol and the dimensionality; the float registry must agree within 4 ulp.",
        design_ref="DESIGN.md section 3, C20",
        note="This is the thinnest use of the technique: the specification is the table. Units outside the table are not covered."),
    "C16": dict(
        technique="TLA+ spec (NumpyPlan: hand-written unit plans with NumPy uninterpreted) model-checked with TLC; every TLC state executed with real NumPy on seeded arrays; covariance sweep over the functions pint handles",
        text="TLC checks for 47 functions x all unit assignments over {m, cm, s, ms, rad, quarter-turn, none, percent} that the output unit carries the "
             "exponents of the function's homogeneity degrees, that acceptance does not depend on the units chosen, that incompatible / non-angle / "
             "non-dimensionless inputs are refused and that predicates and index results are bare; each of the 1.5k states is executed on seeded random "
             "arrays: np.f(Quantity...) must have the plan's unit and np.f of the plan-converted magnitudes as magnitude, must leave its inputs "
             "unchanged, or must raise DimensionalityError; a sweep over ~150 call templates (functions, ufuncs, methods, keyword forms) checks "
             "that re-expressing the inputs in other compatible units leaves the physical result and the error kind unchanged, that incompatible "
             "inputs raise and offset units are refused.",
        design_ref="DESIGN.md section 3, C16",
        note="Numerical agreement with NumPy is harness arithmetic (rtol 1e-12 / 1e-9); the rounding family rounds in the unit it is given by design "
             "and is exempt from the re-expression clause."),
    "C17": dict(
        technique="TLA+ spec (Wraps: binding by name vs the library's index arithmetic, conversion plan, return wrapping, check) model-checked with TLC; every TLC state executed on real decorated functions in several call styles",
        text="TLC checks for every specification over {unit, None, '=A' (definition / later reference), '=A**2'} x arguments {m, cm, s quantities, bare "
             "number} x number of positional arguments x strictness (two parameters exhaustively, three with a reduced pool), for return "
             "specifications (scalar / tuple, unit / None / '=A' / '=A**2' / dimensionless) and for ureg.check, that the index-based packing of "
             "positional, keyword and default values hands every parameter the value bound to its name and the strict / non-strict / None / "
             "incompatible rules; for each of the 28k states the harness compiles a real function, decorates it with ureg.wraps / ureg.check and "
             "calls it with keywords in signature order, in reversed order and through defaults, comparing the received arguments, the wrapped "
             "return value and the error kind; count mismatches must be rejected at decoration time; random five-parameter signatures on the "
             "bundled registry cross-check at scale.",
        design_ref="DESIGN.md section 3, C17",
        note="When several refusals apply to one call the specification gives the set of admissible error kinds."),
    "C18": dict(
        technique="TLA+ spec (Serial: three registries with declarative facts, objects with owners, serialisation protocols, cross-registry operations) model-checked with TLC; TLC behaviours replayed on real registries, plus an object / exception catalogue through every protocol",
        text="TLC checks over all behaviours of up to four operations on {source registry, its deep copy, application registry} - deep-copy the "
             "registry, assert a fact in one registry (define a unit / edit a group / enable a context / choose a default system), make a "
             "quantity / unit / measurement (a prefixed unit parsed for the first time included), serialise the last object (pickle / copy / "
             "deepcopy / tuple), combine two quantities - that serialisation preserves kind and value, unpickling attaches to the application "
             "registry, copies keep their owner, a fact asserted in one registry moves no other registry and a deep copy starts equal to its "
             "source. Behaviours of length three are replayed on real registries: after every step the facts exhibited by every existing registry "
             "(through the direct group, a group using it and a system using that; conversions; base units) must be its own; serialised objects "
             "must be equal and owned as specified (random pickle protocol); add / mul / lt / le between quantities must raise ValueError exactly "
             "when the owners differ. A catalogue of every pint.errors class (constructed and as raised by pint), unit containers, quantities over "
             "int / float / Fraction / Decimal / ndarray magnitudes x units goes through copy, deepcopy, to_tuple / from_tuple and pickle "
             "protocols 0-5; prefixed units are unpickled into a fresh application registry; the lazy default registry is compared with an "
             "explicit one in a subprocess.",
        design_ref="DESIGN.md section 3, C18",
        note="Quick replays a seeded sample of 1500 of the ~13k behaviours of length three; thorough replays all."),
    "C19": dict(
        technique="TLA+ spec (Measure: nominal value + first-order dependence on independent variables + units; conversion, constructor forms, arithmetic, value of a notation record, composition of rendered forms) model-checked with TLC; every TLC state executed on pint",
        text="TLC checks the laws of the measurement model (relative error unchanged under multiplicative conversion; deviation scaled by the "
             "slope only, offsets move the nominal value; converting back is the identity; every constructor form rejects a negative error and "
             "all forms agree; x - x and x / x carry no uncertainty; (x + y) - y = x; independent variances add, fully correlated operands "
             "cancel; x**2 = x * x; shorthand digits align with the last digits of the nominal value) and enumerates 5189 states which are all "
             "executed on pint: 252 constructor cases over 7 forms (value, error, rel, units; ValueError for negative errors), 49 conversions "
             "(m / cm / km / s / K / degC / degF; to, ito, plain nominal, quantity with ufloat magnitude), 3606 arithmetic expressions of depth "
             "<= 2 over a pool with shared variables, a plain quantity and a bare number, in two representations (Measurement objects and "
             "quantities with ufloat magnitudes): nominal value, derivative with respect to every variable, variance, units or the refusal "
             "kind; 1326 notation records rendered in every spelling (about 18k texts: '+/-' and the unicode sign, spacing, exponent "
             "spellings e6 / e+6 / e+06 / E+06 / e-6, sign inside and outside the parentheses, shorthand v(d) and v(.d), a numeric factor in "
             "front, **2 behind, with / without unit, at the end of the input) parsed by the registry; 16 (flag, shape) renderings assembled "
             "from the pieces of the magnitude and compared with format(m, spec) over numeric specs, units and the abbreviation flag. Random "
             "conversions (offset units included) and random expressions on the bundled registry are compared with plain quantities and "
             "numerical differentiation.",
        design_ref="DESIGN.md section 3, C19",
        note="The rendering of the numbers themselves (rounding to the uncertainty's digits) is the uncertainties package's, taken as given; the check is about how pint composes the pieces. LaTeX / siunitx measurement formats are not modelled."),
    "C04": dict(
        technique="TLA+ spec (UnitAlgebra, LinAlg) model-checked with TLC; TLC-generated cases replayed into pint; recorded operations validated by a TLC trace spec",
        text="TLC checks exhaustively (3 names, exponents -2..2 and +-1/2, all pairs, all powers, triples) that the operational model of "
             "UnitsContainer arithmetic satisfies the group laws and canonical form; every reachable state of the generator instance is then "
             "executed on UnitsContainer/ParserHelper/Unit/Quantity with int/float/Fraction/Decimal exponents and compared (result, ==, hash, "
             "operand immutability, dimensionality); random operations and pi_theorem calls over the default registry are logged and "
             "re-computed by Trace_C04 inside TLC.",
        design_ref="DESIGN.md section 3, C04",
        note="Small-scope hypothesis for the exhaustive part; replay trusts harness/tlaval.py and the projection through public accessors "
             "(items(), unit_items(), dimensionality)."),
}

NOT_YET = "check not built yet in this revision of /verif (planned, see DESIGN.md section 3)"


def main():
    props = [json.loads(l) for l in open(os.path.join(ROOT, "properties.jsonl"))]
    checks, na = [], []
    for p in props:
        pid = p["id"]
        c = CHECKS.get(pid)
        if not c:
            na.append({"property_id": pid, "reason": NOT_YET})
            continue
        checks.append({
            "property_id": pid,
            "quick_cmd": "./check %s --tier quick" % pid,
            "thorough_cmd": "./check %s --tier thorough" % pid,
            "evidence_file": "evidence/%s.json" % pid,
            "replay_cmd_template": "./check %s --replay {path}" % pid,
            "engine": "tlc-conformance",
            "level_claimed": {"category": "model_checking", "text": c["text"], "design_ref": c["design_ref"]},
            "level_note": c["note"] + " Further targeted cases added after each round of independent seeded changes (DESIGN.md 7.6) run in both tiers; "
                                      "their expectations are derived from the statement and written next to the case in harness/props/%s.py." % pid.lower(),
            "technique": c["technique"],
        })
    m = {
        "version": 1,
        "setup_cmd": "./setup.sh",
        "hooks": {
            "guard": "PINT_VERIF_TRACE",
            "enable": "no in-tree hooks: harness/tracer.py wraps pint's public methods at run time when PINT_VERIF_TRACE is set; "
                      "checks import pint from /repo's working tree (development-mode install in /venv)",
            "baseline_off_cmd": "cd /repo && /venv/bin/python -m pytest -ra -q -p no:cacheprovider --timeout=900 --continue-on-collection-errors",
            "source_commits": [],
            "add_only": True,
        },
        "engines": [{
            "name": "tlc-conformance", "path": "harness/engine.py",
            "serves_properties": sorted(CHECKS),
            "kind_free_text": "TLA+ specification under spec/ checked by TLC (laws, bounded exhaustive); TLC state dumps / simulation "
                              "behaviours replayed into pint; NDJSON/JSON traces recorded from pint validated by total TLC trace specs",
        }],
        "checks": checks,
        "not_applicable": na,
        "notes": "exit 0 = held, 1 = VIOLATION line(s), 2 = machinery failure. KNOWN_FINDINGS.json lists genuine defects (known / fixed).",
    }
    with open(os.path.join(ROOT, "MANIFEST.json"), "w") as fh:
        json.dump(m, fh, indent=1)
    print("MANIFEST.json: %d checks, %d not yet claimed" % (len(checks), len(na)))


if __name__ == "__main__":
    main()
