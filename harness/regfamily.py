"""Family F1 (MC_Reg.tla): TLC law run + state dump, Materialise (abstract registry -> definition text ->
real UnitRegistry) and Project helpers shared by C01 and C02."""
import os
from decimal import Decimal
from fractions import Fraction as F

from . import tlaval
from .engine import MachineryError

ALIASES = {"u1": ("U1", "uone"), "a": ("A_", "aa"), "u3": ("U3", "uthree")}   # name: (symbol, alias)
PREFIXED = {"ku1": ("k", "u1"), "ka": ("k", "a"), "ku3": ("k", "u3")}
PREFIX_VALUE = 20


def cont_of(v):
    if v == [] or v == {}:
        return {}
    return {k: F(e[0], e[1]) for k, e in v.items()}


def generate(chk, full):
    """Runs the law run with a state dump; returns [(rid, reg, {probe-key: (probe, obs)})]"""
    wd = chk.workdir("regfam")
    dump = os.path.join(wd, "reg.dump")
    r = chk.tlc("laws+gen", "MC_Reg", "MC_Reg_full.cfg" if full else "MC_Reg.cfg", wd=wd,
                args=["-dump", dump, "-coverage", "1"], timeout=1800)
    chk.require_coverage(r, ["PickReg", "PickProbe"])
    regs, probes = {}, {}
    for st in tlaval.parse_states(open(dump).read()):
        rid = repr(st["rid"])
        if st["stage"] == 1:
            regs[rid] = st["regv"]
        elif st["stage"] == 2:
            p = cont_of(st["p1"])
            o = st["obs"]
            probes.setdefault(rid, []).append(
                (p, {"dim": cont_of(o["dim"]), "exact": o["exact"], "strict": o["strict"], "f": F(*o["f"]), "ru": cont_of(o["ru"])}))
    os.remove(dump)
    if not regs or set(regs) != set(probes):
        raise MachineryError("generator dump incomplete: %d registries, %d probe groups" % (len(regs), len(probes)))
    out = []
    for rid in sorted(regs):
        reg = {"units": {n: {"base": d["base"], "scale": F(*d["scale"]), "ref": cont_of(d["ref"])}
                         for n, d in regs[rid]["units"].items()},
               "ddims": {n: cont_of(c) for n, c in regs[rid]["ddims"].items()}}
        out.append((rid, reg, probes[rid]))
    return out


def fmt_num(fr):
    return str(fr.numerator) if fr.denominator == 1 else "%d/%d" % (fr.numerator, fr.denominator)


def fmt_exp(e):
    if e.denominator == 1:
        return str(e.numerator)
    # decimal literal when exact, so that float/Decimal/Fraction registries all read the same number
    if e.denominator in (2, 4, 5, 10):
        return str(Decimal(e.numerator) / Decimal(e.denominator))
    return "(%d/%d)" % (e.numerator, e.denominator)


def fmt_cont(c, spell=lambda n: n):
    if not c:
        return None
    parts = []
    for n in sorted(c):
        e = c[n]
        parts.append(spell(n) if e == 1 else "%s ** %s" % (spell(n), fmt_exp(e)))
    return " * ".join(parts)


def lines_of(reg, layout=0):
    """Definition-file text of an abstract registry.  layout varies spacing / comments (meaning-free)."""
    eq = [" = ", "=", "  =  ", " = "][layout % 4]
    out = []
    if layout % 2:
        out.append("# generated registry")
    out.append("k-%s%d" % (eq, PREFIX_VALUE))
    for n, c in sorted(reg["ddims"].items()):
        out.append("%s%s%s" % (n, eq, fmt_cont(c)))
    order = sorted(reg["units"], key=lambda n: (not reg["units"][n]["base"], n))
    for n in order:
        if n in PREFIXED:
            continue
        d = reg["units"][n]
        if d["base"]:
            rhs = fmt_cont(d["ref"]) or "[]"
        else:
            rc = fmt_cont(d["ref"])
            rhs = fmt_num(d["scale"]) + (" * " + rc if rc else "")
        line = "%s%s%s" % (n, eq, rhs)
        if n in ALIASES:
            line += "%s%s%s%s" % (eq, ALIASES[n][0], eq, ALIASES[n][1])
        if layout % 2:
            line += "   # comment"
        out.append(line)
        if layout == 3:
            out.append("")
    return out


def materialise(reg, T=F, layout=0, **kw):
    import pint
    return pint.UnitRegistry(lines_of(reg, layout), non_int_type=T, **kw)


def ucont(ureg, c, T):
    """abstract container -> pint UnitsContainer with exponents in the registry's numeric type"""
    d = {}
    for n, e in c.items():
        d[n] = int(e) if e.denominator == 1 else (e if T is F else (Decimal(e.numerator) / Decimal(e.denominator)) if T is Decimal
                                                  else e.numerator / e.denominator)
    return ureg.UnitsContainer(d)


def same_cont(got, expected, T):
    got = dict(got)
    if set(got) != set(expected):
        return False
    for k, e in expected.items():
        g = got[k]
        if isinstance(g, float):
            if abs(g - float(e)) > 1e-12:
                return False
        elif abs(F(g) - e) > (0 if T is F else F(1, 10 ** 20)):
            return False
    return True


def is_unit_probe(p):
    return all(not n.startswith("[") for n in p)


def variants(p):
    """The same unit written through symbol / alias / plural spellings (relational clause of C01/C02)."""
    outs = []
    for style in (0, 1, 2):
        q = {}
        for n, e in p.items():
            base = n
            if n in ALIASES:
                base = ALIASES[n][style] if style < 2 else (n + "s" if len(n) > 1 else n)
            elif n in PREFIXED and PREFIXED[n][1] in ALIASES:
                pre, u = PREFIXED[n]
                base = pre + (ALIASES[u][style] if style < 2 else (u + "s" if len(u) > 1 else u))
            q[base] = e
        if q != p:
            outs.append(q)
    return outs
