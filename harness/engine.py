"""Shared engine: TLC runner, verdict bookkeeping, known findings, evidence, replay files.

Exit codes of a check: 0 = property held on everything explored, 1 = VIOLATION line(s) printed,
2 = machinery failure (TLC abort, law of the specification broken, parse failure): no verdict.
"""
from __future__ import annotations

import atexit
import hashlib
import json
import os
import re
import shutil
import signal
import subprocess
import sys
import tempfile
import time

ROOT = os.path.dirname(os.path.dirname(os.path.abspath(__file__)))
SPEC = os.path.join(ROOT, "spec")
JAR = "/opt/veriftools/tla/tla2tools.jar:/opt/veriftools/tla/CommunityModules-deps.jar"
PY = "/venv/bin/python"


TRACE_RESULT_KEYS = ("res", "ans", "probes", "num", "eq", "lt", "hash_eq", "val", "read", "members", "sym", "dim", "units", "bm", "ok", "b")


def selftest_trace(path, mode):
    """Self-test of the binding (VERIF_SELFTEST=corrupt|drop): falsify one recorded field of, or remove, an event in the middle of
    every recorded trace before TLC validates it.  The check must then report a violation (exit 1)."""
    from .tlaval import mutate
    data = json.load(open(path))
    tr = data["trace"]
    if len(tr) < 3:
        return
    k = len(tr) // 2
    if mode == "drop":
        del tr[k]
    else:
        for i in list(range(k, len(tr))) + list(range(k)):
            key = next((x for x in TRACE_RESULT_KEYS if x in tr[i]), None)
            if key:
                tr[i][key] = mutate(tr[i][key])
                break
    with open(path, "w") as fh:
        json.dump(data, fh)
    if os.environ.get("VERIF_SELFTEST_LOG"):
        with open(os.environ["VERIF_SELFTEST_LOG"], "a") as fh:
            fh.write("%s %s\n" % (mode, path))


class MachineryError(Exception):
    """Something in the pipeline did not run: never a verdict."""


def _jsonable(x):
    from fractions import Fraction
    if isinstance(x, dict):
        return {str(k): _jsonable(v) for k, v in x.items()}
    if isinstance(x, (list, tuple, set, frozenset)):
        return [_jsonable(v) for v in x]
    if isinstance(x, Fraction):
        return [x.numerator, x.denominator]
    if isinstance(x, (str, int, float, bool)) or x is None:
        return x
    return repr(x)


class TLCRun:
    def __init__(self, out, rc, wall):
        self.out, self.rc, self.wall = out, rc, wall
        m = re.findall(r"(\d+) states generated, (\d+) distinct states found, (\d+) states left", out)
        self.generated = int(m[-1][0]) if m else 0
        self.distinct = int(m[-1][1]) if m else 0
        m = re.search(r"The depth of the complete state graph search is (\d+)", out)
        self.depth = int(m.group(1)) if m else 0
        self.ok = (rc == 0 and ("No error has been found" in out or "Finished in" in out)
                   and "Error:" not in out)
        self.violated = re.findall(r"Invariant (\w+) is violated|Action property (\w+) is violated"
                                   r"|Temporal properties were violated", out)
        # per-action coverage: "<Action line .. of module M>: distinct:generated"
        self.coverage = {}
        for name, d, g in re.findall(r"<(\w+) line \d+, col \d+ to line \d+, col \d+ of module \w+>: (\d+):(\d+)", out):
            a = self.coverage.setdefault(name, [0, 0])
            a[0] += int(d); a[1] += int(g)

    def printed(self, tag):
        """Values printed by PrintT(<<tag, json-string>>): returns list of decoded JSON payloads."""
        res = []
        for m in re.finditer(r'<<"%s", "((?:[^"\\]|\\.)*)">>' % re.escape(tag), self.out):
            s = m.group(1).encode().decode("unicode_escape")
            res.append(json.loads(s))
        return res


class Check:
    LEVEL = "model_checking"

    def __init__(self, pid, tier="quick", seed=0):
        self.pid, self.tier, self.seed = pid, tier, int(seed)
        self.t0 = time.time()
        base = os.environ.get("VERIF_SCRATCH") or "/var/tmp"
        self.scratch = tempfile.mkdtemp(prefix="verif.%s." % pid, dir=base)
        atexit.register(shutil.rmtree, self.scratch, True)
        self.tlc_runs = []          # (label, TLCRun)
        self.states = 0
        self.transitions = 0
        self.traces = 0             # behaviours replayed into pint + trace batches (tids) validated by TLC
        self.evaluations = 0
        self._distinct = set()
        self.samples = []
        self.violations = {}        # signature-hash -> record
        self.known_hits = {}        # finding id -> count
        self.notes = {}
        self.assumptions = []
        self.skipped = 0
        self.checker_cmds = []
        self.findings = [f for f in load_findings() if f["property"] == pid]
        shutil.rmtree(os.path.join(ROOT, "replays", pid), ignore_errors=True)

    # ------------------------------------------------------------------ TLC
    def workdir(self, name):
        d = os.path.join(self.scratch, name)
        os.makedirs(d, exist_ok=True)
        for sub in ("", "mc", "trace"):
            sd = os.path.join(SPEC, sub)
            for f in os.listdir(sd):
                if f.endswith(".tla") or f.endswith(".cfg"):
                    dst = os.path.join(d, f)
                    if not os.path.exists(dst):
                        os.symlink(os.path.join(sd, f), dst)
        return d

    def tlc(self, label, module, cfg=None, *, workers=16, args=(), env=None, timeout=900,
            wd=None, count=True, heap="8g", dfs=False, expect_ok=True):
        """Run TLC on `module` (a .tla name without suffix, found in spec/, spec/mc or spec/trace, or
        written into wd beforehand).  Returns TLCRun; raises MachineryError when TLC did not finish
        cleanly (a broken law in a registered configuration is a defect of the specification)."""
        wd = wd or self.workdir(label)
        cfg = cfg or module + ".cfg"
        meta = os.path.join(wd, "meta")
        cmd = ["java", "-XX:+UseParallelGC", "-Xss256m", "-Xmx" + heap]
        if dfs:
            cmd.append("-Dtlc2.tool.queue.IStateQueue=StateDeque")
        cmd += ["-cp", JAR, "tlc2.TLC", "-workers", str(workers), "-metadir", meta,
                "-noGenerateSpecTE", "-config", cfg] + list(args) + [module + ".tla"]
        e = dict(os.environ)
        e.pop("JAVA_TOOL_OPTIONS", None)
        if env:
            e.update(env)
        if os.environ.get("VERIF_SELFTEST") in ("corrupt", "drop") and env and "TRACE_FILE" in env:
            selftest_trace(env["TRACE_FILE"], os.environ["VERIF_SELFTEST"])
        t = time.time()
        try:
            p = subprocess.run(cmd, cwd=wd, env=e, capture_output=True, text=True, timeout=timeout)
        except subprocess.TimeoutExpired:
            subprocess.run(["pkill", "-f", meta], capture_output=True)
            raise MachineryError("TLC timeout after %ss: %s" % (timeout, label))
        run = TLCRun(p.stdout + p.stderr, p.returncode, time.time() - t)
        shutil.rmtree(meta, ignore_errors=True)
        self.checker_cmds.append("tlc -workers %d -config %s %s %s" % (workers, cfg, " ".join(args), module))
        if count:
            self.tlc_runs.append((label, run))
            self.states += run.distinct
            self.transitions += run.generated
        if os.environ.get("VERIF_VERBOSE"):
            print("[tlc %s] %.1fs distinct=%d generated=%d rc=%d" % (label, run.wall, run.distinct, run.generated, run.rc), file=sys.stderr)
        if expect_ok and not run.ok:
            tail = "\n".join(run.out.splitlines()[-40:])
            raise MachineryError("TLC run %s failed (rc=%s, violated=%s)\n%s" % (label, run.rc, run.violated, tail))
        return run

    def require_coverage(self, run, actions):
        """Vacuity guard: every named action must have been taken at least once."""
        for a in actions:
            if run.coverage.get(a, [0, 0])[1] == 0:
                raise MachineryError("vacuous TLC run: action %s never taken" % a)

    def mark(self, label):
        """phase timing (stderr, VERIF_VERBOSE only; also recorded in the evidence)"""
        now = time.time()
        self.notes.setdefault("phase_s", {})[label] = round(now - getattr(self, "_tm", self.t0), 1)
        self._tm = now
        if os.environ.get("VERIF_VERBOSE"):
            print("[phase %s] %.1fs" % (label, self.notes["phase_s"][label]), file=sys.stderr)

    # ------------------------------------------------------------------ bookkeeping
    def case(self, key, nontrivial=True, sample=None):
        """Count one evaluated case; `key` identifies it for the distinct count."""
        self.evaluations += 1
        if nontrivial:
            h = hashlib.blake2b(repr(key).encode(), digest_size=8).digest()
            if h not in self._distinct:
                self._distinct.add(h)
                if sample is not None and len(self.samples) < 5:
                    self.samples.append(_jsonable(sample))

    def diverge(self, sig, detail):
        """Report a divergence between the specification and the implementation.
        sig: small dict describing the *abstract* failing case (used for known-finding matching and
        de-duplication); detail: the full replayable case."""
        sig = _jsonable(sig)
        for f in self.findings:
            if f.get("status", "known") != "known":
                continue
            if all(_match(sig.get(k), v) for k, v in f["match"].items()):
                self.known_hits[f["id"]] = self.known_hits.get(f["id"], 0) + 1
                return "known"
        h = hashlib.blake2b(json.dumps(sig, sort_keys=True).encode(), digest_size=6).hexdigest()
        if h not in self.violations:
            self.violations[h] = {"property": self.pid, "signature": sig, "detail": _jsonable(detail),
                                  "seed": self.seed, "tier": self.tier, "count": 0,
                                  "cmd": "./check %s --replay replays/%s/%s.json" % (self.pid, self.pid, h)}
        self.violations[h]["count"] += 1
        return "violation"

    # ------------------------------------------------------------------ end of run
    def finish(self, rule, exhaustive=False, extra=None):
        wall = time.time() - self.t0
        for f in self.findings:
            if f["id"] in self.known_hits:
                print("KNOWN-FINDING: property=%s %s [%s, %d case(s)]" % (self.pid, f["what"], f["id"], self.known_hits[f["id"]]))
        shown = 0
        rdir = os.path.join(ROOT, "replays", self.pid)
        for h, v in self.violations.items():
            os.makedirs(rdir, exist_ok=True)
            path = os.path.join(rdir, h + ".json")
            with open(path, "w") as fh:
                json.dump(v, fh, indent=1, sort_keys=True)
            if shown < 20:
                print("VIOLATION property=%s replay=%s" % (self.pid, path))
                print("  signature: %s" % json.dumps(v["signature"], sort_keys=True)[:400])
                shown += 1
        cov = {
            "states": self.states, "transitions": self.transitions,
            "traces_validated_against_impl": self.traces,
            "evaluations": self.evaluations, "distinct_nontrivial": len(self._distinct),
            "rule": rule, "samples": self.samples or ["(no sample recorded)"],
            "exhaustive": bool(exhaustive),
            "checker_cmd": " ; ".join(dict.fromkeys(self.checker_cmds))[:2000],
            "tlc_runs": [{"label": l, "distinct_states": r.distinct, "states_generated": r.generated,
                          "depth": r.depth, "wall_s": round(r.wall, 1),
                          "actions": {k: v[1] for k, v in r.coverage.items()}} for l, r in self.tlc_runs],
            "known_findings_hit": self.known_hits, "skipped_cases": self.skipped,
            "trusted_base": ["TLC 1.8 + CommunityModules", "harness/tlaval.py", "CPython Fraction"],
        }
        cov.update(self.notes)
        if extra:
            cov.update(extra)
        ev = {"property_id": self.pid, "tier": self.tier, "seed": self.seed, "level": self.LEVEL,
              "coverage": _jsonable(cov), "assumptions": self.assumptions, "wall_s": round(wall, 2),
              "violations": len(self.violations)}
        # runs against a seeded change (VERIF_PINT_ROOT) or with the machinery sabotaged (VERIF_SELFTEST) are not evidence
        evdir = os.path.join(ROOT, "evidence") if not (os.environ.get("VERIF_PINT_ROOT") or os.environ.get("VERIF_SELFTEST")) else self.scratch
        os.makedirs(evdir, exist_ok=True)
        with open(os.path.join(evdir, self.pid + ".json"), "w") as fh:
            json.dump(ev, fh, indent=1, sort_keys=True)
        print("%s %s: states=%d transitions=%d traces=%d evaluations=%d distinct=%d known=%d violations=%d wall=%.1fs" % (
            self.pid, self.tier, self.states, self.transitions, self.traces, self.evaluations,
            len(self._distinct), sum(self.known_hits.values()), len(self.violations), wall))
        return 1 if self.violations else 0


def _match(val, pat):
    if isinstance(pat, list):
        return val in pat
    if isinstance(pat, dict) and "re" in pat:
        return isinstance(val, str) and re.fullmatch(pat["re"], val) is not None
    return val == pat


def load_findings():
    p = os.path.join(ROOT, "KNOWN_FINDINGS.json")
    if not os.path.exists(p):
        return []
    with open(p) as fh:
        return json.load(fh)["findings"]


# ---------------------------------------------------------------------- helpers for pint-side code
class CaseTimeout(Exception):
    pass


class alarm:
    """Per-case wall-clock guard: a timeout is a skipped case, never a verdict."""
    def __init__(self, seconds=5):
        self.s = seconds

    def _h(self, *a):
        raise CaseTimeout()

    def __enter__(self):
        self.old = signal.signal(signal.SIGALRM, self._h)
        signal.setitimer(signal.ITIMER_REAL, self.s)

    def __exit__(self, *a):
        signal.setitimer(signal.ITIMER_REAL, 0)
        signal.signal(signal.SIGALRM, self.old)
        return False


def assert_repo_pint():
    import pint
    root = os.environ.get("VERIF_PINT_ROOT", "/repo").rstrip("/") + "/"      # registered commands never set VERIF_PINT_ROOT
    if not os.path.realpath(pint.__file__).startswith(root):
        raise MachineryError("pint imported from %s, not %s" % (pint.__file__, root))
    return pint


# ---------------------------------------------------------------------- Python value -> TLA+ text
def tla(v):
    from fractions import Fraction
    if isinstance(v, bool):
        return "TRUE" if v else "FALSE"
    if isinstance(v, int):
        return str(v) if v >= 0 else "(%d)" % v
    if isinstance(v, Fraction):
        return "<<%s, %d>>" % (tla(v.numerator), v.denominator)
    if isinstance(v, str):
        return '"%s"' % v.replace("\\", "\\\\").replace('"', '\\"')
    if isinstance(v, (list, tuple)):
        return "<<" + ", ".join(tla(x) for x in v) + ">>"
    if isinstance(v, (set, frozenset)):
        return "{" + ", ".join(sorted(tla(x) for x in v)) + "}"
    if isinstance(v, dict):
        if not v:
            return "<<>>"
        if all(isinstance(k, str) and re.fullmatch(r"[A-Za-z][A-Za-z0-9_]*", k) for k in v):
            return "[" + ", ".join("%s |-> %s" % (k, tla(x)) for k, x in v.items()) + "]"
        return "(" + " @@ ".join("%s :> %s" % (tla(k), tla(x)) for k, x in v.items()) + ")"
    raise TypeError("cannot render %r as TLA+" % (v,))
