"""Shared pieces for checks that validate the *bundled* registry against DefTable.tla:
the reader's table, spelling pools, event encoding, TLC validation of a trace."""
import json
import os
from fractions import Fraction as F

from . import reader
from .engine import MachineryError

_cache = {}


def table():
    if "t" not in _cache:
        R = reader.read_registry(reader.PINT_ROOT + "/pint/default_en.txt")
        _cache["R"] = R
        _cache["t"] = reader.tla_table(R)
        _cache["sp"] = reader.spelling_tables(R)
    return _cache["R"], _cache["t"]


def pools():
    """canonical multiplicative names, all multiplicative unit spellings, prefix spellings"""
    R, T = table()
    usp, psp, porder, nonmult = _cache["sp"]
    nm = set(nonmult)
    canon = [n for n in R["units"] if n not in nm]
    spell = [s for s, c in usp.items() if c not in nm and not c.startswith("delta_")]
    return canon, spell, [p for p in porder if p]


def readings(t):
    """every reading of a token by the naming rule (exact spelling; prefix + unit [+ s]), from the reader's tables only"""
    table()
    usp, psp = _cache["sp"][0], _cache["sp"][1]
    out = set()
    if t in usp:
        out.add(("", usp[t]))
    for p_ in psp:
        if p_ and t.startswith(p_):
            rest = t[len(p_):]
            for r in (rest, rest[:-1] if rest.endswith("s") else None):
                if r and r in usp:
                    out.add((psp[p_], usp[r]))
    if t.endswith("s") and t[:-1] in usp:
        out.add(("", usp[t[:-1]]))
    return out


def float_factor(name, _memo={}):
    """root factor of a canonical unit as a float, from the reader's table alone (irrational chains included): scale * prod(ref ** exp)"""
    R, T = table()
    if name in _memo:
        return _memo[name]
    d = R["units"][name]
    if d["base"]:
        f = 1.0
    else:
        f = float(d["scale"])
        for k, e in d["ref"].items():
            k2 = k
            if k2 not in R["units"]:
                rd = [(p_, c_) for p_, c_ in readings(k2)]
                if not rd:
                    raise KeyError(k2)
                p_, c_ = sorted(rd)[0] if ("", k2) not in rd else ("", k2)
                f *= (float(R["prefixes"][p_]["value"]) if p_ else 1.0) ** float(e) * float_factor(c_) ** float(e)
            else:
                f *= float_factor(k2) ** float(e)
    _memo[name] = f
    return f


def item(s, e):
    e = F(e)
    return {"s": reader.esc(s), "e": [e.numerator, e.denominator], "sp": reader.splits_of(s)}


def cont(d):
    """{spelling: exponent} -> event container"""
    return [item(s, e) for s, e in d.items()]


def expr(d):
    """{spelling: exponent} -> expression string pint can parse"""
    parts = []
    for s, e in d.items():
        e = F(e)
        if e == 1:
            parts.append(s)
        elif e.denominator == 1:
            parts.append("%s**%d" % (s, e.numerator) if e > 0 else "%s**(%d)" % (s, e.numerator))
        else:
            parts.append("%s**(%d/%d)" % (s, e.numerator, e.denominator))
    return " * ".join(parts) if parts else "dimensionless"


def pairs(itms):
    return sorted([reader.esc(k), [F(v).numerator, F(v).denominator]] for k, v in itms)


def residues(fr):
    fr = F(fr)
    return ([fr.numerator % reader.P1, fr.numerator % reader.P2],
            [fr.denominator % reader.P1, fr.denominator % reader.P2])


def validate(chk, module, events, label="trace", extra=None, chunk=40000):
    """Run the total trace validator `module` over events (in chunks); returns list of (event, clause)."""
    R, T = table()
    bad, inexact = [], 0
    for c0 in range(0, len(events), chunk):
        part = events[c0:c0 + chunk]
        wd = chk.workdir("%s%d" % (label, c0))
        path = os.path.join(wd, "trace.json")
        data = dict(T)
        if extra:
            data.update(extra)
        data["trace"] = [{k: v for k, v in e.items() if not k.startswith("_")} for e in part]
        with open(path, "w") as fh:
            json.dump(data, fh)
        r = chk.tlc("%s%d" % (label, c0), module, module + ".cfg", wd=wd, workers=1, env={"TRACE_FILE": path}, timeout=3000)
        v = r.printed("VERDICT")
        if not v:
            raise MachineryError("trace validator %s printed no verdict\n%s" % (module, r.out[-3000:]))
        v = v[-1]
        if v["consumed"] != len(part):
            raise MachineryError("trace validator consumed %s of %d events" % (v["consumed"], len(part)))
        for ln in v.get("inexact", []):
            part[ln - 1]["_inexact"] = True
            inexact += 1
        for ln, clause in v["bad"]:
            bad.append((part[ln - 1], clause))
        os.remove(path)
        chk.traces += 1
    chk.notes["trace_events"] = chk.notes.get("trace_events", 0) + len(events)
    chk.notes["events_outside_fingerprint_scope"] = chk.notes.get("events_outside_fingerprint_scope", 0) + inexact
    return bad
