"""Command line: ./check <id> [--tier quick|thorough] [--seed N] [--replay file]"""
import argparse
import importlib
import json
import logging
import os
import sys
import traceback
import warnings

from .engine import Check, MachineryError, assert_repo_pint


def main(argv=None):
    ap = argparse.ArgumentParser()
    ap.add_argument("pid")
    ap.add_argument("--tier", default=os.environ.get("VERIF_TIER", "quick"), choices=["quick", "thorough"])
    ap.add_argument("--seed", type=int, default=int(os.environ.get("VERIF_SEED", "0") or 0))
    ap.add_argument("--replay")
    a = ap.parse_args(argv)
    logging.disable(logging.CRITICAL)
    warnings.simplefilter("ignore")
    try:
        assert_repo_pint()
        mod = importlib.import_module("harness.props." + a.pid.lower())
        chk = Check(a.pid.upper(), a.tier, a.seed)
        if a.replay:
            with open(a.replay) as fh:
                rec = json.load(fh)
            rc = mod.replay(chk, rec)
        else:
            rc = mod.run(chk)
        sys.stdout.flush()
        return rc
    except MachineryError as e:
        print("MACHINERY-FAILURE %s: %s" % (a.pid, e), file=sys.stderr)
        return 2
    except Exception:
        traceback.print_exc()
        print("MACHINERY-FAILURE %s: unexpected exception in the harness" % a.pid, file=sys.stderr)
        return 2


if __name__ == "__main__":
    sys.exit(main())
