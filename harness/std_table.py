# Hand-curated from the SI brochure (9th ed., 2019 + 2022 prefixes), NIST SP 811 / Handbook 44, the
# international yard and pound agreement (1959), the Weights and Measures Act 1985 (imperial gallon),
# IAU 2012 (au) and CODATA 2022.  Values are in coherent SI units (kg m s A K mol cd), exact unless kind='measured'.
# (name, value-expression, dimension exponents dict over L M T I Th N J, symbol or None, kind)
L,M,T,I,Th,N,J = 'L','M','T','I','Th','N','J'
D = dict
PI = '3.1415926535897932384626433832795028841971693993751'
E = [
 # --- SI base and coherent derived units
 ('meter','1',D(L=1),'m','def'), ('second','1',D(T=1),'s','def'), ('ampere','1',D(I=1),'A','def'), ('kelvin','1',D(Th=1),'K','def'),
 ('mole','1',D(N=1),'mol','def'), ('candela','1',D(J=1),'cd','def'), ('gram','1/1000',D(M=1),'g','def'), ('kilogram','1',D(M=1),'kg','def'),
 ('radian','1',D(),'rad','def'), ('steradian','1',D(),'sr','def'),
 ('hertz','1',D(T=-1),'Hz','def'), ('newton','1',D(M=1,L=1,T=-2),'N','def'), ('pascal','1',D(M=1,L=-1,T=-2),'Pa','def'),
 ('joule','1',D(M=1,L=2,T=-2),'J','def'), ('watt','1',D(M=1,L=2,T=-3),'W','def'), ('coulomb','1',D(I=1,T=1),'C','def'),
 ('volt','1',D(M=1,L=2,T=-3,I=-1),'V','def'), ('farad','1',D(M=-1,L=-2,T=4,I=2),'F','def'), ('ohm','1',D(M=1,L=2,T=-3,I=-2),'Ω','def'),
 ('siemens','1',D(M=-1,L=-2,T=3,I=2),'S','def'), ('weber','1',D(M=1,L=2,T=-2,I=-1),'Wb','def'), ('tesla','1',D(M=1,T=-2,I=-1),'T','def'),
 ('henry','1',D(M=1,L=2,T=-2,I=-2),'H','def'), ('lumen','1',D(J=1),'lm','def'), ('lux','1',D(J=1,L=-2),'lx','def'),
 ('becquerel','1',D(T=-1),'Bq','def'), ('gray','1',D(L=2,T=-2),'Gy','def'), ('sievert','1',D(L=2,T=-2),'Sv','def'), ('katal','1',D(N=1,T=-1),'kat','def'),
 # --- non-SI units accepted for use with the SI
 ('minute','60',D(T=1),'min','def'), ('hour','3600',D(T=1),'h','def'), ('day','86400',D(T=1),'d','def'),
 ('degree',PI+'/180',D(),'deg','def'), ('arcminute',PI+'/10800',D(),'arcmin','def'), ('arcsecond',PI+'/648000',D(),'arcsec','def'),
 ('hectare','10000',D(L=2),'ha','def'), ('are','100',D(L=2),None,'def'), ('liter','1/1000',D(L=3),'l','def'), ('metric_ton','1000',D(M=1),'t','def'),
 ('astronomical_unit','149597870700',D(L=1),'au','def'), ('electron_volt','1.602176634e-19',D(M=1,L=2,T=-2),'eV','def'),
 ('angstrom','1e-10',D(L=1),'Å','def'), ('nautical_mile','1852',D(L=1),'nmi','def'), ('knot','1852/3600',D(L=1,T=-1),'kt','def'),
 ('bar','100000',D(M=1,L=-1,T=-2),'bar','def'), ('barn','1e-28',D(L=2),'b','def'), ('micron','1e-6',D(L=1),'µ','def'), ('fermi','1e-15',D(L=1),'fm','def'),
 ('light_year','9460730472580800',D(L=1),'ly','def'), ('turn','2*'+PI,D(),None,'def'), ('grade',PI+'/200',D(),'grad','def'),
 # --- time
 ('week','604800',D(T=1),None,'def'), ('fortnight','1209600',D(T=1),None,'def'), ('year','31557600',D(T=1),'a','def'), ('julian_year','31557600',D(T=1),None,'def'),
 ('gregorian_year','31556952',D(T=1),None,'def'), ('common_year','31536000',D(T=1),None,'def'), ('leap_year','31622400',D(T=1),None,'def'),
 ('month','2629800',D(T=1),None,'def'), ('century','3155760000',D(T=1),None,'def'), ('millennium','31557600000',D(T=1),None,'def'),
 ('shake','1e-8',D(T=1),None,'def'), ('svedberg','1e-13',D(T=1),None,'def'),
 # --- 2019 SI defining constants and exact derived ones
 ('speed_of_light','299792458',D(L=1,T=-1),'c','def'), ('planck_constant','6.62607015e-34',D(M=1,L=2,T=-1),'ℎ','def'),
 ('elementary_charge','1.602176634e-19',D(I=1,T=1),'e','def'), ('boltzmann_constant','1.380649e-23',D(M=1,L=2,T=-2,Th=-1),'k','def'),
 ('avogadro_constant','6.02214076e23',D(N=-1),'N_A','def'), ('avogadro_number','6.02214076e23',D(),None,'def'),
 ('molar_gas_constant','1.380649e-23*6.02214076e23',D(M=1,L=2,T=-2,Th=-1,N=-1),'R','def'),
 ('faraday_constant','1.602176634e-19*6.02214076e23',D(I=1,T=1,N=-1),None,'def'),
 ('josephson_constant','2*1.602176634e-19/6.62607015e-34',D(M=-1,L=-2,T=2,I=1),'K_J','def'),
 ('von_klitzing_constant','6.62607015e-34/(1.602176634e-19)**2',D(M=1,L=2,T=-3,I=-2),'R_K','def'),
 ('conductance_quantum','2*(1.602176634e-19)**2/6.62607015e-34',D(M=-1,L=-2,T=3,I=2),'G_0','def'),
 ('magnetic_flux_quantum','6.62607015e-34/(2*1.602176634e-19)',D(M=1,L=2,T=-2,I=-1),'Φ_0','def'),
 ('standard_gravity','9.80665',D(L=1,T=-2),'g_0','def'), ('standard_atmosphere','101325',D(M=1,L=-1,T=-2),'atm','def'),
 ('conventional_josephson_constant','4.835979e14',D(M=-1,L=-2,T=2,I=1),'K_J90','def'), ('conventional_von_klitzing_constant','25812.807',D(M=1,L=2,T=-3,I=-2),'R_K90','def'),
 ('second_radiation_constant','6.62607015e-34*299792458/1.380649e-23',D(L=1,Th=1),'c_2','def'),
 # --- pressure, force, energy, power conventional units
 ('torr','101325/760',D(M=1,L=-1,T=-2),None,'def'), ('technical_atmosphere','98066.5',D(M=1,L=-1,T=-2),'at','def'),
 ('millimeter_Hg','133.322387415',D(M=1,L=-1,T=-2),'mmHg','def'), ('inch_Hg','3386.388640341',D(M=1,L=-1,T=-2),'inHg','def'),
 ('kilogram_force','9.80665',D(M=1,L=1,T=-2),'kgf','def'), ('dyne','1e-5',D(M=1,L=1,T=-2),'dyn','def'), ('erg','1e-7',D(M=1,L=2,T=-2),None,'def'),
 ('calorie','4.184',D(M=1,L=2,T=-2),'cal','def'), ('international_calorie','4.1868',D(M=1,L=2,T=-2),'cal_it','def'), ('fifteen_degree_calorie','4.1855',D(M=1,L=2,T=-2),'cal_15','def'),
 ('british_thermal_unit','1055.056',D(M=1,L=2,T=-2),'Btu','def'), ('international_british_thermal_unit','1055.05585262',D(M=1,L=2,T=-2),'Btu_it','def'),
 ('thermochemical_british_thermal_unit','4.184*453.59237*5/9',D(M=1,L=2,T=-2),'Btu_th','def'),
 ('watt_hour','3600',D(M=1,L=2,T=-2),'Wh','def'), ('horsepower','550*0.3048*0.45359237*9.80665',D(M=1,L=2,T=-3),'hp','def'), ('metric_horsepower','75*9.80665',D(M=1,L=2,T=-3),None,'def'),
 ('poise','0.1',D(M=1,L=-1,T=-1),'P','def'), ('stokes','1e-4',D(L=2,T=-1),'St','def'), ('galileo','0.01',D(L=1,T=-2),'Gal','def'), ('barye','0.1',D(M=1,L=-1,T=-2),'Ba','def'),
 ('kayser','100',D(L=-1),None,'def'), ('curie','3.7e10',D(T=-1),'Ci','def'), ('rutherford','1e6',D(T=-1),'Rd','def'), ('rem','0.01',D(L=2,T=-2),None,'def'), ('roentgen','2.58e-4',D(I=1,T=1,M=-1),None,'def'),
 ('carat','0.0002',D(M=1),'ct','def'), ('tex','1e-6',D(M=1,L=-1),'Tt','def'), ('denier','1/9000000',D(M=1,L=-1),'den','def'),
 ('stilb','10000',D(J=1,L=-2),None,'def'), ('nit','1',D(J=1,L=-2),None,'def'),
 # --- international yard and pound, US customary and imperial
 ('inch','0.0254',D(L=1),'in','def'), ('foot','0.3048',D(L=1),'ft','def'), ('yard','0.9144',D(L=1),'yd','def'), ('mile','1609.344',D(L=1),'mi','def'),
 ('thou','0.0000254',D(L=1),'th','def'), ('hand','0.1016',D(L=1),None,'def'),
 ('survey_foot','1200/3937',D(L=1),'sft','def'), ('survey_mile','5280*1200/3937',D(L=1),'smi','def'), ('rod','16.5*1200/3937',D(L=1),'rd','def'),
 ('chain','66*1200/3937',D(L=1),None,'def'), ('furlong','660*1200/3937',D(L=1),'fur','def'), ('fathom','6*1200/3937',D(L=1),None,'def'), ('link','0.66*1200/3937',D(L=1),'li','def'),
 ('acre','43560*(1200/3937)**2',D(L=2),None,'def'), ('square_mile','1609.344**2',D(L=2),None,'def'),
 ('point','0.0254/72',D(L=1),'pp','def'), ('pica','0.0254/6',D(L=1),None,'def'),
 ('pound','0.45359237',D(M=1),'lb','def'), ('ounce','0.45359237/16',D(M=1),'oz','def'), ('grain','0.00006479891',D(M=1),'gr','def'), ('dram','0.45359237/256',D(M=1),'dr','def'),
 ('stone','14*0.45359237',D(M=1),None,'def'), ('quarter','28*0.45359237',D(M=1),None,'def'), ('long_hundredweight','112*0.45359237',D(M=1),None,'def'), ('US_hundredweight','100*0.45359237',D(M=1),None,'def'),
 ('long_ton','2240*0.45359237',D(M=1),None,'def'), ('US_ton','2000*0.45359237',D(M=1),None,'def'), ('slug','0.45359237*9.80665/0.3048',D(M=1),None,'def'),
 ('troy_ounce','0.0311034768',D(M=1),None,'def'), ('troy_pound','0.3732417216',D(M=1),None,'def'), ('pennyweight','24*0.00006479891',D(M=1),'dwt','def'),
 ('scruple','20*0.00006479891',D(M=1),None,'def'), ('apothecary_dram','60*0.00006479891',D(M=1),None,'def'), ('apothecary_ounce','480*0.00006479891',D(M=1),None,'def'), ('apothecary_pound','5760*0.00006479891',D(M=1),None,'def'),
 ('force_pound','0.45359237*9.80665',D(M=1,L=1,T=-2),'lbf','def'), ('poundal','0.45359237*0.3048',D(M=1,L=1,T=-2),'pdl','def'), ('pound_force_per_square_inch','0.45359237*9.80665/0.0254**2',D(M=1,L=-1,T=-2),'psi','def'),
 ('gallon','231*0.0254**3',D(L=3),'gal','def'), ('quart','231*0.0254**3/4',D(L=3),'qt','def'), ('pint','231*0.0254**3/8',D(L=3),'pt','def'), ('cup','231*0.0254**3/16',D(L=3),'cp','def'),
 ('gill','231*0.0254**3/32',D(L=3),'gi','def'), ('fluid_ounce','231*0.0254**3/128',D(L=3),'floz','def'), ('tablespoon','231*0.0254**3/256',D(L=3),'tbsp','def'), ('teaspoon','231*0.0254**3/768',D(L=3),'tsp','def'),
 ('fluid_dram','231*0.0254**3/1024',D(L=3),'fldr','def'), ('minim','231*0.0254**3/61440',D(L=3),None,'def'), ('oil_barrel','42*231*0.0254**3',D(L=3),None,'def'),
 ('bushel','2150.42*0.0254**3',D(L=3),'bu','def'), ('peck','2150.42*0.0254**3/4',D(L=3),'pk','def'), ('dry_gallon','2150.42*0.0254**3/8',D(L=3),None,'def'), ('dry_quart','2150.42*0.0254**3/32',D(L=3),None,'def'), ('dry_pint','2150.42*0.0254**3/64',D(L=3),None,'def'),
 ('cubic_inch','0.0254**3',D(L=3),'cu_in','def'), ('cubic_foot','0.3048**3',D(L=3),'cu_ft','def'), ('cubic_yard','0.9144**3',D(L=3),'cu_yd','def'), ('board_foot','144*0.0254**3',D(L=3),'FBM','def'),
 ('imperial_gallon','0.00454609',D(L=3),None,'def'), ('imperial_quart','0.00454609/4',D(L=3),None,'def'), ('imperial_pint','0.00454609/8',D(L=3),None,'def'), ('imperial_gill','0.00454609/32',D(L=3),None,'def'),
 ('imperial_fluid_ounce','0.00454609/160',D(L=3),None,'def'), ('imperial_fluid_dram','0.00454609/1280',D(L=3),None,'def'), ('imperial_minim','0.00454609/76800',D(L=3),None,'def'),
 ('imperial_peck','2*0.00454609',D(L=3),None,'def'), ('imperial_bushel','8*0.00454609',D(L=3),None,'def'), ('imperial_barrel','36*0.00454609',D(L=3),None,'def'),
 # --- temperature scales (scale part; offsets checked separately)
 ('degree_Rankine','5/9',D(Th=1),'°R','def'), ('delta_degree_Celsius','1',D(Th=1),'Δ°C','def'), ('delta_degree_Fahrenheit','5/9',D(Th=1),'Δ°F','def'),
 # --- information
 ('bit','1',D(),None,'def'), ('byte','8',D(),'B','def'), ('baud','1',D(T=-1),'Bd','def'),
 # --- dimensionless ratios
 ('percent','0.01',D(),'%','def'), ('permille','0.001',D(),'‰','def'), ('ppm','1e-6',D(),None,'def'),
 # --- CODATA 2022 measured constants, digits as published
 ('newtonian_constant_of_gravitation','6.67430e-11',D(L=3,M=-1,T=-2),None,'measured'), ('rydberg_constant','10973731.568157',D(L=-1),'R_∞','measured'),
 ('electron_g_factor','-2.00231930436092',D(),'g_e','measured'), ('atomic_mass_constant','1.66053906892e-27',D(M=1),'m_u','measured'),
 ('electron_mass','9.1093837139e-31',D(M=1),'m_e','measured'), ('proton_mass','1.67262192595e-27',D(M=1),'m_p','measured'), ('neutron_mass','1.67492750056e-27',D(M=1),'m_n','measured'),
 ('x_unit_Cu','1.00207697e-13',D(L=1),'Xu_Cu','measured'), ('x_unit_Mo','1.00209952e-13',D(L=1),'Xu_Mo','measured'), ('angstrom_star','1.00001495e-10',D(L=1),'Å_star','measured'),
 ('unified_atomic_mass_unit','1.66053906892e-27',D(M=1),'u','measured'), ('dalton','1.66053906892e-27',D(M=1),'Da','measured'),
 # --- compound customary and technical units (products / quotients of the defined ones; NIST SP 811 appendix B)
 ('foot_pound','0.3048*0.45359237*9.80665',D(M=1,L=2,T=-2),None,'def'), ('kip','1000*0.45359237*9.80665',D(M=1,L=1,T=-2),None,'def'),
 ('force_ounce','0.45359237*9.80665/16',D(M=1,L=1,T=-2),'ozf','def'), ('force_kilogram','9.80665',D(M=1,L=1,T=-2),'kgf','def'),
 ('kilometer_per_hour','1000/3600',D(L=1,T=-1),None,'def'), ('mile_per_hour','1609.344/3600',D(L=1,T=-1),'mph','def'), ('foot_per_second','0.3048',D(L=1,T=-1),None,'def'),
 ('square_inch','0.0254**2',D(L=2),None,'def'), ('square_foot','0.3048**2',D(L=2),None,'def'), ('square_yard','0.9144**2',D(L=2),None,'def'),
 ('ton_TNT','4.184e9',D(M=1,L=2,T=-2),None,'def'), ('tonne_of_oil_equivalent','41.868e9',D(M=1,L=2,T=-2),'toe','def'), ('therm','1055.056e5',D(M=1,L=2,T=-2),None,'def'),
 ('ampere_hour','3600',D(I=1,T=1),'Ah','def'), ('volt_ampere','1',D(M=1,L=2,T=-3),'VA','def'), ('langley','41840',D(M=1,T=-2),None,'def'),
]
PREFIXES = [('quecto','1e-30','q'),('ronto','1e-27','r'),('yocto','1e-24','y'),('zepto','1e-21','z'),('atto','1e-18','a'),('femto','1e-15','f'),('pico','1e-12','p'),('nano','1e-9','n'),('micro','1e-6','µ'),('milli','1e-3','m'),('centi','1e-2','c'),('deci','1e-1','d'),('deca','1e1','da'),('hecto','1e2','h'),('kilo','1e3','k'),('mega','1e6','M'),('giga','1e9','G'),('tera','1e12','T'),('peta','1e15','P'),('exa','1e18','E'),('zetta','1e21','Z'),('yotta','1e24','Y'),('ronna','1e27','R'),('quetta','1e30','Q'),
 ('kibi','2**10','Ki'),('mebi','2**20','Mi'),('gibi','2**30','Gi'),('tebi','2**40','Ti'),('pebi','2**50','Pi'),('exbi','2**60','Ei'),('zebi','2**70','Zi'),('yobi','2**80','Yi')]
OFFSETS = [('degree_Celsius','1','273.15','°C'), ('degree_Fahrenheit','5/9','459.67*5/9','°F'), ('degree_Reaumur','5/4','273.15','°Re')]
