"""Parser for TLA+ values as printed by TLC (-dump, simulation files, PrintT).
   Records -> dict, sequences/tuples -> list, sets -> frozenset-like sorted list tagged ('set', [...]),
   functions (a :> b @@ c :> d) -> dict with hashable keys, strings -> str, ints -> int, TRUE/FALSE -> bool."""
import re
_TOK = re.compile(r'\s*(<<|>>|\[|\]|\{|\}|\(|\)|\|->|:>|@@|,|"(?:[^"\\]|\\.)*"|-?\d+|[A-Za-z_][A-Za-z0-9_]*)')
class TLASet(list):
    pass
def _hashable(v):
    if isinstance(v, list): return tuple(_hashable(x) for x in v)
    if isinstance(v, dict): return tuple(sorted((_hashable(k), _hashable(x)) for k, x in v.items()))
    return v
def tokenize(s):
    pos, out = 0, []
    while pos < len(s):
        m = _TOK.match(s, pos)
        if not m:
            if s[pos:].strip() == '': break
            raise ValueError('cannot tokenize at %d: %r' % (pos, s[pos:pos+40]))
        out.append(m.group(1)); pos = m.end()
    return out
def parse_value(s):
    toks = tokenize(s); pos = [0]
    def peek(): return toks[pos[0]] if pos[0] < len(toks) else None
    def nxt(): t = toks[pos[0]]; pos[0] += 1; return t
    def expect(t):
        got = nxt()
        if got != t: raise ValueError('expected %r got %r at %d' % (t, got, pos[0]))
    def value():
        t = nxt()
        if t == '<<':
            items = []
            while peek() != '>>':
                items.append(value())
                if peek() == ',': nxt()
            expect('>>'); return items
        if t == '{':
            items = TLASet()
            while peek() != '}':
                items.append(value())
                if peek() == ',': nxt()
            expect('}'); return items
        if t == '[':
            rec = {}
            while peek() != ']':
                k = nxt(); expect('|->'); rec[k] = value()
                if peek() == ',': nxt()
            expect(']'); return rec
        if t == '(':
            fn = {}
            while True:
                k = value(); expect(':>'); v = value(); fn[_hashable(k)] = v
                if peek() == '@@': nxt(); continue
                break
            expect(')'); return fn
        if t.startswith('"'): return bytes(t[1:-1], 'utf-8').decode('unicode_escape')
        if re.fullmatch(r'-?\d+', t): return int(t)
        if t == 'TRUE': return True
        if t == 'FALSE': return False
        return t            # model value / identifier
    v = value()
    if pos[0] != len(toks): raise ValueError('trailing tokens: %r' % toks[pos[0]:pos[0]+5])
    return v
RESULT_KEYS = ("hist", "out", "obs", "decl", "known", "plan", "red", "pw", "res", "expected", "exp", "ans", "ret", "val", "value", "nom", "k")


def mutate(v):
    """self-test only: the smallest change of a value (engine.selftest)"""
    if isinstance(v, bool): return not v
    if isinstance(v, int): return v + 1
    if isinstance(v, str): return v + "~"
    if isinstance(v, dict):
        for k in RESULT_KEYS:
            if k in v:
                v[k] = mutate(v[k]); return v
        for k in sorted(v, key=str):
            v[k] = mutate(v[k]); return v
        v["~"] = 1; return v
    if isinstance(v, list):
        if v: v[-1] = mutate(v[-1])
        else: v.append(1)
        return v
    return 1


def parse_states(text):
    """Yield dict var->value for each 'State n:' block of a -dump file or each STATE_n of a simulation file.
    Self-test (VERIF_SELFTEST=expect): the expectation of every 97th state is falsified; the check must then report violations."""
    import os
    if os.environ.get("VERIF_SELFTEST") == "expect":
        for i, st in enumerate(_parse_states(text)):
            if i % 97 == 50:
                mutate(st)
                if os.environ.get("VERIF_SELFTEST_LOG"):
                    with open(os.environ["VERIF_SELFTEST_LOG"], "a") as fh:
                        fh.write("expect state %d\n" % i)
            yield st
        return
    yield from _parse_states(text)


def _parse_states(text):
    blocks = re.split(r'\n(?=State \d+:|STATE_\d+ ==)', text)
    for b in blocks:
        if not re.match(r'(State \d+:|STATE_\d+ ==)', b.strip()): continue
        body = b.split('\n', 1)[1] if '\n' in b else ''
        st = {}
        for m in re.finditer(r'/\\ (\w+) = (.*?)(?=\n/\\ \w+ = |\Z)', body, re.S):
            txt = m.group(2).strip()
            txt = re.sub(r'\n\s*\n.*\Z', '', txt, flags=re.S)   # cut trailing comment lines of sim files
            st[m.group(1)] = parse_value(txt)
        if st: yield st
if __name__ == '__main__':
    print(parse_value('<<[op |-> <<"enable", "R", <<0, 1>>>>, res |-> "ok", stack |-> <<[ctx |-> "R", p |-> <<2, 1>>]>>, obs |-> (<<"c", "a">> :> {<<"ok", <<9, 1>>>>} @@ <<"a", "b">> :> {<<"dimerr", <<0, 1>>>>})]>>'))
