"""C17 - wraps / check decorators hand over correct magnitudes and enforce dimensions.

1. TLC law run  : MC_C17 (Wraps.tla): every (specification, arguments, call style, strictness) for two parameters, a reduced pool for
                  three parameters, return specifications, ureg.check: the index-based packing of positional + keyword + default
                  values hands every parameter the value bound to its name; strict mode refuses bare numbers, non-strict passes them,
                  None entries are untouched, incompatible arguments raise.
2. spec -> code : for every state the harness builds the real function (source text compiled in the harness, not in pint), decorates it
                  with ureg.wraps / ureg.check, calls it in the state's style (positional prefix, keywords in signature and reversed
                  order, defaults), captures the received arguments inside and compares them with the specification (Fraction, exact).
3. code -> spec : five-parameter signatures on the bundled registry with random specifications (units, None, '=A', '=A**2', '=A*B'):
                  received magnitudes against conversions computed by the registry itself (relational) - a cross-check at scale.
"""
import os
import random
from fractions import Fraction as F

from .. import tlaval
from ..engine import MachineryError

LINES = ["m = [L]", "cm = 1/100 * m", "s = [T]"]
SPEC_TEXT = {"m": "m", "cm": "cm", "s": "s", "none": None, "defA": "=A", "depA": "=A", "depA2": "=A**2"}


def mkfunc(n, defaults):
    """def f(p1, p2=D2, ...): records what it receives; `defaults`: {index: value} for parameters with a default"""
    params = ["p%d" % (i + 1) for i in range(n)]
    sig = ", ".join(p if i not in defaults else "%s=D[%d]" % (p, i) for i, p in enumerate(params))
    ns = {"D": defaults, "REC": []}
    exec("def f(%s):\n    REC.append((%s,))\n    return RET[0]" % (sig, ", ".join(params)), ns)
    return ns["f"], params, ns


def run(chk):
    import pint
    rng = random.Random(chk.seed)
    wd = chk.workdir("gen")
    dump = os.path.join(wd, "w.dump")
    chk.tlc("laws+gen", "MC_C17", "MC_C17_full.cfg" if chk.tier == "thorough" else "MC_C17.cfg", wd=wd, args=["-dump", dump], timeout=3000)
    states = [st for st in tlaval.parse_states(open(dump).read()) if st["kind"] != "init"]
    os.remove(dump)
    if len(states) < 20000:
        raise MachineryError("generator produced only %d states" % len(states))
    ureg = pint.UnitRegistry(LINES, non_int_type=F)
    Q = ureg.Quantity

    def val(a):
        m = F(a[0][0], a[0][1])
        return m if a[1] == "" else Q(m, a[1])

    kinds = set()
    for st in states:
        specs, args, k, strict = st["specs"], st["args"], st["k"], st["strict"]
        n = len(specs)
        out = st["out"]
        kinds.add((st["kind"], out["k"]))
        vals = [val(a) for a in args]
        chk.case((st["kind"], tuple(specs), repr(args), k, strict, repr(st["ret"])), nontrivial=st["kind"] != "check" and any(s not in ("none",) for s in specs),
                 sample={"kind": st["kind"], "specs": specs, "args": args, "positional": k, "strict": strict, "expected": out["k"]})
        base = {"kind": st["kind"], "specs": specs, "args": args, "positional": k, "strict": strict, "expected": out}
        # call styles realising "k positional, the rest by name": keywords in signature order, reversed order, and as defaults
        styles = ["kw", "kw-reversed", "defaults"] if k < n else ["positional"]
        for style in styles:
            defaults = {i: vals[i] for i in range(k, n)} if style == "defaults" else {}
            f, params, ns = mkfunc(n, defaults)
            ns["RET"] = [11]
            kw = {} if style in ("defaults", "positional") else {params[i]: vals[i] for i in range(k, n)}
            if style == "kw-reversed":
                kw = dict(reversed(list(kw.items())))
            sig = {"kind": st["kind"], "style": style, "n": n, "strict": strict}
            try:
                if st["kind"] == "check":
                    dims = [None if d == "none" else {"L": "[L]", "T": "[T]", "": ""}[d] for d in specs]
                    w = ureg.check(*dims)(f)
                elif st["kind"] == "ret":
                    r = st["ret"]
                    rs = [{"none": None, "m": "m", "defA": "=A", "depA2": "=A**2", "dimensionless": "dimensionless"}[x] for x in r[1:]]
                    ns["RET"] = [11] if r[0] == "scalar" else [(11, 13)]
                    w = ureg.wraps(rs[0] if r[0] == "scalar" else tuple(rs), tuple(SPEC_TEXT[s] for s in specs), strict=strict)(f)
                else:
                    w = ureg.wraps(None, tuple(SPEC_TEXT[s] for s in specs), strict=strict)(f)
            except Exception as e:
                if out["k"] != "decoration-error":
                    chk.diverge(dict(sig, clause="decoration-raises", exc=type(e).__name__), base)
                continue
            try:
                res = w(*vals[:k], **kw)
                err = None
            except pint.DimensionalityError:
                res, err = None, "dimerr"
            except ValueError:
                res, err = None, "valueerr"
            except Exception as e:
                res, err = None, "other:" + type(e).__name__
            if out["k"] == "decoration-error":
                if err is None:
                    # an undefined reference must not be given a meaning: accepted only when the call itself is refused
                    chk.diverge(dict(sig, clause="undefined-reference-accepted"), base)
                continue
            if out["k"] == "error":
                if err not in out["errs"]:
                    chk.diverge(dict(sig, clause="expected-refusal", observed=err or "returned"), dict(base, observed=err))
                continue
            if err is not None:
                chk.diverge(dict(sig, clause="unexpected-error", observed=err), dict(base, observed=err))
                continue
            if st["kind"] == "check":
                continue
            got = ns["REC"][-1]
            for i, want in enumerate(out["recv"]):
                g = got[i]
                if want[0] == "mag":
                    ok = not hasattr(g, "units") and F(g) == F(want[1][0], want[1][1])
                else:
                    ok = hasattr(g, "units") and F(g.magnitude) == F(want[1][0], want[1][1]) and dict(g.unit_items()) == {want[2]: 1}
                if not ok:
                    chk.diverge(dict(sig, clause="received-value", param=i + 1, spec=specs[i]), dict(base, observed=[repr(x) for x in got]))
            if st["kind"] == "ret":
                r = st["ret"]
                aunit = args[0][1]
                def expect(rr, x):
                    if rr == "none":
                        return ("bare", x)
                    u = {"m": {"m": 1}, "dimensionless": {}, "defA": ({aunit: 1} if aunit else {}), "depA2": ({aunit: 2} if aunit else {})}[rr]
                    return ("quantity", x, u)
                exp = [expect(r[1], 11)] if r[0] == "scalar" else [expect(r[1], 11), expect(r[2], 13)]
                obs = [res] if r[0] == "scalar" else list(res)
                for e_, o_ in zip(exp, obs):
                    ok = (not hasattr(o_, "units") and o_ == e_[1]) if e_[0] == "bare" else (hasattr(o_, "units") and o_.magnitude == e_[1] and {k_: int(v) for k_, v in o_.unit_items()} == e_[2])
                    if not ok:
                        chk.diverge(dict(sig, clause="return-wrapping", ret=repr(r)), dict(base, ret=r, observed=repr(res)))
    chk.traces += len(states)
    need = {("wraps", "ok"), ("wraps", "error"), ("wraps", "decoration-error"), ("ret", "ok"), ("check", "ok"), ("check", "error")}
    if not need <= kinds:
        raise MachineryError("vacuous generator: %s" % sorted(kinds))
    count_mismatch(chk, ureg)
    signature_shapes(chk, ureg)
    bundled(chk, rng, 800 if chk.tier == "thorough" else 200)
    return chk.finish(
        rule="cases = states of MC_C17 (specification, arguments, number of positional arguments, strictness / return specification / check "
             "dimensions) each executed in up to three call styles; distinct by state; non-trivial = some entry converts; plus random "
             "five-parameter signatures on the bundled registry",
        exhaustive=True)


def _unused():
    pass


def signature_shapes(chk, ureg):
    """signatures beyond the plain positional ones: a default before keyword-only parameters, keyword-only parameters with and without
    defaults; and references naming several arguments ('=A/B', '=A*B**2') - received magnitudes and the derived return unit"""
    Q = ureg.Quantity
    ns = {"D": Q(F(1), "m"), "REC": []}
    exec("def f(a, b=D, *, c, d=7):\n    REC.append((a, b, c, d))\n    return 0", ns)
    for deco, spec in (("wraps", (None, ("m", "cm", "s", None))), ("check", ("[L]", "[L]", "[T]", None))):
        chk.case(("signature-shape", deco))
        try:
            w = ureg.wraps(*spec)(ns["f"]) if deco == "wraps" else ureg.check(*spec)(ns["f"])
            w(Q(F(2), "m"), c=Q(F(3), "s"))
            got = ns["REC"][-1]
            want = (F(2), F(100), F(3), 7) if deco == "wraps" else (Q(F(2), "m"), Q(F(1), "m"), Q(F(3), "s"), 7)
            ok = tuple(got) == want
        except Exception as e:
            chk.diverge({"clause": "signature-shape-raises", "decorator": deco, "exc": type(e).__name__}, {"signature": "f(a, b=1 m, *, c, d=7)", "error": repr(e)[:200]})
            continue
        if not ok:
            chk.diverge({"clause": "signature-shape", "decorator": deco}, {"signature": "f(a, b=1 m, *, c, d=7)", "received": [str(x) for x in got]})
    for ret, args, call, want_recv, want_ret in (
            ("=A/B", ("=A", "=B"), (Q(F(6), "m"), Q(F(2), "s")), (F(6), F(2)), {"m": 1, "s": -1}),
            ("=A*B**2", ("=A", "=B"), (Q(F(6), "m"), Q(F(2), "s")), (F(6), F(2)), {"m": 1, "s": 2}),
            ("=A**2*B", ("=A", "=B"), (Q(F(6), "cm"), Q(F(2), "s")), (F(6), F(2)), {"cm": 2, "s": 1}),
            (None, ("=A", "=B", "=A/B"), (Q(F(6), "m"), Q(F(2), "s"), Q(F(300), "cm / s")), (F(6), F(2), F(3)), None),
            (None, ("=A", "=B", "=A*B**2"), (Q(F(6), "m"), Q(F(2), "s"), Q(F(5), "m * s ** 2")), (F(6), F(2), F(5)), None),
            # a reference is resolved by *name*: the same relations and the same argument units with the names bound the other
            # way round denote other units (asked after their siblings above, so that anything remembered per relation shows)
            ("=A/B", ("=B", "=A"), (Q(F(6), "m"), Q(F(2), "s")), (F(6), F(2)), {"s": 1, "m": -1}),
            ("=A*B**2", ("=B", "=A"), (Q(F(6), "m"), Q(F(2), "s")), (F(6), F(2)), {"s": 1, "m": 2}),
            (None, ("=B", "=A", "=A/B"), (Q(F(6), "m"), Q(F(2), "s"), Q(F(3), "s / cm")), (F(6), F(2), F(300)), None),
            ("=A/B", ("=A", "=B"), (Q(F(6), "m"), Q(F(2), "s")), (F(6), F(2)), {"m": 1, "s": -1})):
        chk.case(("multi-name-reference", repr(ret), repr(args)))
        rec = []
        g = (lambda p1, p2: (rec.append((p1, p2)), 11)[1]) if len(args) == 2 else (lambda p1, p2, p3: (rec.append((p1, p2, p3)), 11)[1])
        try:
            r = ureg.wraps(ret, args)(g)(*call)
            ok = tuple(F(x) for x in rec[-1]) == want_recv and (want_ret is None or (hasattr(r, "units") and r.magnitude == 11 and {k: int(v) for k, v in r.unit_items()} == want_ret))
        except Exception as e:
            chk.diverge({"clause": "multi-name-reference-raises", "exc": type(e).__name__}, {"ret": ret, "args": args, "error": repr(e)[:200]})
            continue
        if not ok:
            chk.diverge({"clause": "multi-name-reference"}, {"ret": ret, "args": args, "received": [str(x) for x in rec[-1]], "returned": str(r)})


def count_mismatch(chk, ureg):
    """a mismatch between declared and actual parameter count is rejected at decoration time"""
    for nspec, src in ((1, "def f(a, b): return a"), (3, "def f(a, b): return a"), (2, "def f(a): return a")):
        ns = {}
        exec(src, ns)
        for deco in ("wraps", "check"):
            chk.case(("count-mismatch", nspec, src, deco))
            try:
                if deco == "wraps":
                    ureg.wraps(None, ("m",) * nspec)(ns["f"])
                else:
                    ureg.check(*(("[L]",) * nspec))(ns["f"])
                chk.diverge({"clause": "count-mismatch-accepted", "decorator": deco}, {"nspec": nspec, "src": src})
            except TypeError:
                pass
            except Exception as e:
                chk.diverge({"clause": "count-mismatch-wrong-error", "decorator": deco, "exc": type(e).__name__}, {"nspec": nspec, "src": src})


def bundled(chk, rng, n):
    """five-parameter signatures on the bundled registry; expected magnitudes computed with the registry's own conversions"""
    import pint
    ureg = pint.UnitRegistry(non_int_type=F)
    Q = ureg.Quantity
    groups = [["meter", "inch", "kilometer", "mile"], ["second", "hour", "millisecond"], ["kilogram", "pound", "gram"], ["kelvin"], ["newton", "force_pound"]]
    for t in range(n):
        specs, vals, want = [], [], []
        aunit = None
        for i in range(5):
            g = rng.choice(groups)
            r = rng.random()
            v = Q(F(rng.randint(1, 99), rng.choice([1, 3])), rng.choice(g))
            if r < 0.45:
                tgt = rng.choice(g)
                specs.append(tgt)
                vals.append(v)
                want.append(v.to(tgt).magnitude)
            elif r < 0.6:
                specs.append(None)
                vals.append(v)
                want.append(v)
            elif aunit is None:
                specs.append("=A")
                aunit = v.units
                vals.append(v)
                want.append(v.magnitude)
            else:
                e = rng.choice([1, 2])
                specs.append("=A**2" if e == 2 else "=A")
                v2 = Q(F(rng.randint(1, 9)), aunit ** e) * rng.choice([F(1), F(1000), F(1, 12)])
                vals.append(v2)
                want.append(v2.to(aunit ** e).magnitude)
        k = rng.randint(0, 5)
        f, params, ns = mkfunc(5, {})
        ns["RET"] = [0]
        kw = {params[i]: vals[i] for i in range(k, 5)}
        items = list(kw.items())
        rng.shuffle(items)
        chk.case(("bundled-wraps", t, chk.seed))
        try:
            ureg.wraps(None, tuple(specs))(f)(*vals[:k], **dict(items))
        except Exception as e:
            chk.diverge({"clause": "bundled-wraps-raises", "exc": type(e).__name__}, {"specs": specs, "vals": [str(v) for v in vals], "positional": k})
            continue
        got = ns["REC"][-1]
        for i in range(5):
            ok = (got[i] == want[i]) and (hasattr(got[i], "units") == (specs[i] is None))
            if not ok:
                chk.diverge({"clause": "bundled-received-value", "spec": specs[i] if specs[i] in (None, "=A", "=A**2") else "unit"},
                            {"specs": specs, "vals": [str(v) for v in vals], "positional": k, "param": i + 1, "expected": str(want[i]), "observed": str(got[i])})
    chk.samples.append({"bundled_signature": "f(p1..p5) with random specs, e.g. %r" % (specs,)})


def replay(chk, rec):
    import json
    print(json.dumps(rec["detail"], indent=1)[:4000])
    chk.seed = rec.get("seed", 0)
    return run(chk)
