"""C01 - conversion succeeds exactly between units of identical dimensionality.

1. TLC law run  : MC_Reg (family F1): operational Dim (accumulator recursion) = declarative Dim; Convertible is
                  an equivalence and a congruence for * / **; dimensionality is a homomorphism.
2. spec -> code : every registry of the family is materialised as definition text and loaded (float / Decimal /
                  Fraction, case sensitivity, auto_reduce_dimensions); dimensionality of every probe and the
                  success/refusal of every ordered probe pair through to / ito / m_as / ureg.convert and all
                  compatibility predicates are compared with the specification's answers.
3. code -> spec : over the bundled registry (all canonical units; aliases, symbols, prefixed, plural spellings;
                  random compound units) dimensionalities, conversion outcomes and predicate answers are logged
                  and recomputed by Trace_Reg from the independent reader's abstract definition table.
"""
import random
from decimal import Decimal
from fractions import Fraction as F

from .. import defreg, regfamily as fam
from ..engine import alarm, CaseTimeout


def outcome(fn):
    import pint
    try:
        fn()
        return "ok"
    except pint.DimensionalityError:
        return "Dimensionality"
    except Exception as e:
        return "other:" + type(e).__name__


def run(chk):
    import pint
    rng = random.Random(chk.seed)
    thorough = chk.tier == "thorough"
    family = fam.generate(chk, full=thorough)
    chk.mark("tlc-family")

    configs = [(F, {}), (float, {}), (Decimal, {}), (F, {"case_sensitive": False}), (float, {"auto_reduce_dimensions": True}),
               (F, {"_after_context": True})]
    nreg = 0
    for rid, reg, probes in family:
        layout = rng.randrange(4)
        for T, kw in (configs if thorough else [configs[0], configs[1 + rng.randrange(5)]]):
            try:
                kw = dict(kw)
                after_ctx = kw.pop("_after_context", False)
                ureg = fam.materialise(reg, T, layout, **kw)
                if after_ctx:
                    used_context(ureg, reg)
                    kw["history"] = "after-context"
            except Exception as e:
                chk.diverge({"clause": "load", "exc": type(e).__name__}, {"lines": fam.lines_of(reg, layout), "error": repr(e)})
                continue
            nreg += 1
            replay_registry(chk, ureg, reg, probes, T, kw, rid, rng)
    chk.notes["registries_materialised"] = nreg
    chk.mark("replay")

    # ---- traces over the bundled registry
    events = drive_default(chk, rng, thorough)
    chk.mark("drive-default")
    for e, clause in defreg.validate(chk, "Trace_Reg", events):
        small = {k: v for k, v in e.items() if k not in ("a", "b", "u")}
        for k in ("a", "b", "u"):
            if k in e:
                small[k] = [[i["s"], i["e"]] for i in e[k]]
        chk.diverge({"clause": clause, "src": "default-registry", "ev": e["ev"], "which": e.get("which")}, small)

    return chk.finish(
        rule="cases = (registry of family F1, configuration, probe or ordered probe pair, API form) compared with the TLC-computed "
             "dimensionality relation, plus logged events over the bundled registry validated by Trace_Reg; distinct by "
             "(registry, probe pair) resp. event content; non-trivial = at least one derived or prefixed unit involved",
        exhaustive=thorough)


def replay_registry(chk, ureg, reg, probes, T, kw, rid, rng):
    import pint
    Q = ureg.Quantity
    cfg = {"type": T.__name__, **{k: str(v) for k, v in kw.items()}}
    uprobes = [(p, o) for p, o in probes if fam.is_unit_probe(p)]
    # 1. dimensionality of every probe (including pure dimension containers)
    for p, o in probes:
        chk.case(("dim", rid, sorted(p.items())), nontrivial=len(o["dim"]) > 0, sample={"registry": fam.lines_of(reg), "probe": p, "dim": o["dim"]})
        try:
            got = dict(ureg.get_dimensionality(fam.ucont(ureg, p, T)))
        except Exception as e:
            chk.diverge({"clause": "dimensionality-raises", "exc": type(e).__name__, **cfg}, {"lines": fam.lines_of(reg), "probe": p})
            continue
        if not fam.same_cont(got, o["dim"], T):
            chk.diverge({"clause": "dimensionality", **cfg}, {"lines": fam.lines_of(reg), "probe": p, "expected": o["dim"], "observed": {k: str(v) for k, v in got.items()}})
        if fam.is_unit_probe(p):
            for v in fam.variants(p):        # same unit through symbol / alias / plural spellings
                try:
                    got2 = dict(ureg.get_dimensionality(ureg.parse_units(defreg.expr(v))))
                    if not fam.same_cont(got2, o["dim"], T):
                        chk.diverge({"clause": "dimensionality-spelling", **cfg}, {"lines": fam.lines_of(reg), "probe": v, "expected": o["dim"]})
                except Exception as e:
                    chk.diverge({"clause": "dimensionality-spelling-raises", "exc": type(e).__name__, **cfg}, {"lines": fam.lines_of(reg), "probe": v})
    # 1b. check()/ureg.check against every dimension specification (derived dimensions with exponents included)
    dprobes = [(p, o) for p, o in probes if p and not fam.is_unit_probe(p)]
    for p1, o1 in uprobes:
        q1 = Q(T(1) if T is not float else 1.0, fam.ucont(ureg, p1, T))
        for pd, od in dprobes:
            want = o1["dim"] == od["dim"]
            spec = dimstr(pd)
            chk.case(("check", rid, sorted(p1.items()), sorted(pd.items())), nontrivial=True)
            for name, fn in (("q.check(derived-spec)", lambda: q1.check(spec)),
                             ("q.check(derived-container)", lambda: q1.check(fam.ucont(ureg, pd, T))),
                             ("ureg.check(derived-spec)", lambda: checked(ureg, spec, q1))):
                try:
                    val = bool(fn())
                except Exception as e:
                    val = "raises:" + type(e).__name__
                if val != want:
                    chk.diverge({"clause": "predicate", "which": name, "expected": want, "observed": val, **cfg},
                                {"lines": fam.lines_of(reg), "a": p1, "spec": pd})
    # 1c. ureg.check on a two-parameter function: positional, keyword (both orders), default
    for (p1, o1), (p2, o2) in zip(uprobes, uprobes[3:] + uprobes[:3]):
        qa, qb = Q(1, fam.ucont(ureg, p1, T)), Q(1, fam.ucont(ureg, p2, T))
        for (da, db) in ((o1["dim"], o2["dim"]), (o2["dim"], o1["dim"])):
            want = (o1["dim"] == da) and (o2["dim"] == db)
            for style in ("positional", "kw", "kw-swapped", "mixed", "default"):
                val = checked2(ureg, dimstr(da), dimstr(db), qa, qb, style)
                w = want
                if val != w:
                    chk.diverge({"clause": "predicate", "which": "ureg.check/2-" + style, "expected": w, "observed": val, **cfg},
                                {"lines": fam.lines_of(reg), "a": p1, "b": p2, "declared": [da, db]})
    # 2. every ordered pair of unit probes, every API form
    one = T(1) if T is not float else 1.0
    named = {n for n in reg["units"] if n not in fam.PREFIXED}
    for p1, o1 in uprobes:
        c1 = fam.ucont(ureg, p1, T)
        try:
            listing = {str(u) for u in ureg.get_compatible_units(c1)}
        except Exception as e:
            listing = None
            chk.diverge({"clause": "listing-raises", "exc": type(e).__name__, **cfg}, {"lines": fam.lines_of(reg), "probe": p1})
        if listing is not None:
            want = {n for n in named if dim_of_named(reg, probes, n) == o1["dim"]} if o1["dim"] else None
            # units listed must be exactly the named units of the same dimensionality (non-dimensionless probes)
            if want is not None and listing != want:
                chk.diverge({"clause": "compatible-units-listing", **cfg}, {"lines": fam.lines_of(reg), "probe": p1, "expected": sorted(want), "observed": sorted(listing)})
        for p2, o2 in uprobes:
            conv = o1["dim"] == o2["dim"]
            chk.case(("pair", rid, sorted(p1.items()), sorted(p2.items())), nontrivial=len(p1) + len(p2) > 0)
            c2 = fam.ucont(ureg, p2, T)
            u2 = ureg.Unit(c2)
            forms = {
                "to": lambda: Q(one, c1).to(c2),
                "to-unit": lambda: Q(one, c1).to(u2),
                "ito": lambda: Q(one, c1).ito(c2),
                "m_as": lambda: Q(one, c1).m_as(c2),
                "convert": lambda: ureg.convert(one, c1, c2),
                "unit.from_": lambda: u2.from_(Q(one, c1)),
                "to-str": lambda: Q(one, c1).to(defreg.expr(p2)),
            }
            for name, fn in forms.items():
                res = outcome(fn)
                exp = "ok" if conv else "Dimensionality"
                if res != exp:
                    chk.diverge({"clause": "conversion-outcome", "form": name, "expected": exp, "observed": res, **cfg},
                                {"lines": fam.lines_of(reg), "src": p1, "dst": p2})
            q1 = Q(one, c1)
            preds = {
                "q.is_compatible_with(unit)": lambda: q1.is_compatible_with(u2),
                "q.is_compatible_with(quantity)": lambda: q1.is_compatible_with(Q(one, c2)),
                "q.is_compatible_with(str)": lambda: q1.is_compatible_with(defreg.expr(p2)),
                "unit.is_compatible_with": lambda: ureg.Unit(c1).is_compatible_with(u2),
                "ureg.is_compatible_with": lambda: ureg.is_compatible_with(q1, u2),
                "q.check(dim)": lambda: q1.check(ureg.get_dimensionality(c2)),
                "q.check(str)": lambda: q1.check(dimstr(o2["dim"])),
                "ureg.check": lambda: checked(ureg, dimstr(o2["dim"]), q1),
            }
            for name, fn in preds.items():
                try:
                    val = bool(fn())
                except Exception as e:
                    val = "raises:" + type(e).__name__
                if val != conv:
                    chk.diverge({"clause": "predicate", "which": name, "expected": conv, "observed": val, **cfg},
                                {"lines": fam.lines_of(reg), "a": p1, "b": p2})
    chk.traces += 1


def used_context(ureg, reg):
    """History for the 'no context active' clause: a context with a rule and a redefinition was entered, queried
    and left again before the probes are asked."""
    import pint
    c = pint.Context("hist")
    c.add_transformation("[A]", "[B]", lambda ureg, x: x * ureg.Quantity(1, "b/a"))
    c.add_transformation("[B]", "[A]", lambda ureg, x: x * ureg.Quantity(1, "a/b"))
    c.redefine("u1 = 7 * " + fam.fmt_cont(reg["units"]["u1"]["ref"]))
    ureg.add_context(c)
    with ureg.context("hist"):
        for n in ("a", "b", "u1", "u2"):
            ureg.get_compatible_units(n)
            ureg.get_dimensionality(n)
        ureg.Quantity(1, "a").to("b")
    ureg.Quantity(2, "a").to("b", "hist")


def dim_of_named(reg, probes, n):
    for p, o in probes:
        if p == {n: F(1)}:
            return o["dim"]
    return None     # not among the probes (handled by the caller through `want` construction)


def dimstr(d):
    if not d:
        return "[]"
    return " * ".join("%s ** (%d/%d)" % (k, e.numerator, e.denominator) if e.denominator != 1 else "%s ** %d" % (k, e.numerator)
                      for k, e in sorted(d.items()))


def checked(ureg, dim, q):
    import pint

    @ureg.check(dim)
    def f(x):
        return 1
    try:
        f(q)
        return True
    except pint.DimensionalityError:
        return False


def checked2(ureg, dima, dimb, qa, qb, style):
    import pint

    @ureg.check(dima, dimb)
    def f(x, y=qb):
        return 1
    try:
        if style == "positional":
            f(qa, qb)
        elif style == "kw":
            f(x=qa, y=qb)
        elif style == "kw-swapped":
            f(y=qb, x=qa)
        elif style == "mixed":
            f(qa, y=qb)
        else:
            f(qa)           # y takes its default value, which is checked like an explicit argument
        return True
    except pint.DimensionalityError:
        return False
    except Exception as e:
        return "raises:" + type(e).__name__


# ------------------------------------------------------------------------------------------------
def drive_default(chk, rng, thorough):
    import pint
    ureg = pint.UnitRegistry()
    Q = ureg.Quantity
    canon, spell, prefixes = defreg.pools()
    events = []

    def parse(d):
        return ureg.parse_units(defreg.expr(d))

    def dim_event(d):
        try:
            u = parse(d)
            dim = ureg.get_dimensionality(u)
            events.append({"ev": "dim", "u": defreg.cont(d), "dim": defreg.pairs((k, F(v).limit_denominator(1000)) for k, v in dim.items())})
        except (pint.UndefinedUnitError, pint.DefinitionSyntaxError, AttributeError, SyntaxError, TypeError, ValueError, KeyError):
            chk.skipped += 1     # spelling that is not an identifier in an expression (C08 owns resolution)

    # dimensionality of every canonical unit, and of spellings / prefixed / plural forms
    for n in canon:
        dim_event({n: 1})
    sp = spell if thorough else rng.sample(spell, 300)
    for s in sp:
        if s.isidentifier():
            dim_event({s: 1})
    for _ in range(4000 if thorough else 400):
        s = rng.choice(prefixes) + rng.choice(spell) + rng.choice(["", "", "s"])
        if s.isidentifier():
            dim_event({s: 1})
    exps = [1, -1, 2, -2, 3, -3, F(1, 2), F(-1, 2), F(3, 2)]
    for _ in range(3000 if thorough else 400):
        d = {}
        for _ in range(rng.randint(1, 4)):
            s = rng.choice(canon) if rng.random() < 0.6 else (rng.choice(["", rng.choice(prefixes)]) + rng.choice(spell))
            if s.isidentifier():
                d[s] = rng.choice(exps)
        if d:
            dim_event(d)

    # dimension specifications: every derived dimension, powers and products of them
    R, _T = defreg.table()
    ddims = sorted(R["dims"])
    alld = ddims + R["basedims"]
    from ..reader import esc

    def spec_pairs(d):
        return sorted([esc(k), [F(v).numerator, F(v).denominator]] for k, v in d.items())
    specs = [{d: 1} for d in ddims] + [{d: rng.choice([2, -1, -2, F(1, 2)])} for d in ddims]
    for _ in range(600 if thorough else 150):
        specs.append({rng.choice(alld): rng.choice(exps) for _ in range(rng.randint(1, 3))})
    for sp_ in specs:
        try:
            dim = ureg.get_dimensionality(ureg.UnitsContainer(sp_))
        except Exception as e:
            chk.diverge({"clause": "dimension-spec-raises", "exc": type(e).__name__, "src": "default-registry"}, {"spec": sp_})
            continue
        events.append({"ev": "dimspec", "spec": spec_pairs(sp_), "dim": defreg.pairs((k, F(v).limit_denominator(1000)) for k, v in dim.items())})
    # Quantity.check / ureg.check against derived-dimension specifications
    udims = {n: ureg.get_dimensionality(n) for n in canon}
    for _ in range(3000 if thorough else 500):
        a = rng.choice(canon)
        sp_ = rng.choice(specs)
        if rng.random() < 0.5:       # steer towards matching specifications
            cands = [s_ for s_ in specs[:len(ddims)] if ureg.get_dimensionality(ureg.UnitsContainer(s_)) == udims[a]]
            if cands:
                sp_ = rng.choice(cands)
        text = dimstr({k: F(v) for k, v in sp_.items()})
        qa = Q(1.0, a)
        for which, fn in (("q.check(str)", lambda: qa.check(text)), ("q.check(container)", lambda: qa.check(ureg.UnitsContainer(sp_))),
                          ("ureg.check", lambda: checked(ureg, text, qa))):
            try:
                val = bool(fn())
            except Exception as e:
                chk.diverge({"clause": "check-raises", "exc": type(e).__name__, "which": which, "src": "default-registry"}, {"a": a, "spec": text})
                continue
            events.append({"ev": "check", "which": which, "a": defreg.cont({a: 1}), "spec": spec_pairs(sp_), "val": val})

    # conversion outcome: ordered pairs of canonical units (all in thorough), plus predicates
    if thorough:
        prs = [(a, b) for a in canon for b in canon]
    else:
        # half random, half drawn inside dimensionality classes so that "ok" is well represented
        by = {}
        for n in canon:
            by.setdefault(frozenset(dict(ureg.get_dimensionality(n)).items()), []).append(n)
        classes = [v for v in by.values() if len(v) > 1]
        prs = [(rng.choice(canon), rng.choice(canon)) for _ in range(6000)]
        for _ in range(6000):
            c = rng.choice(classes)
            prs.append((rng.choice(c), rng.choice(c)))
    qcache = {}
    for a, b in prs:
        qa = qcache.get(a) or qcache.setdefault(a, Q(1.0, a))
        res = outcome(lambda: qa.to(b))
        events.append({"ev": "conv", "a": defreg.cont({a: 1}), "b": defreg.cont({b: 1}), "res": res if not res.startswith("other") else "other",
                       "checkfactor": False, "num": [0, 0], "den": [1, 1]})
    for _ in range(4000 if thorough else 600):
        a, b = rng.choice(canon), rng.choice(canon)
        if rng.random() < 0.5:
            c = [n for n in canon if ureg.get_dimensionality(n) == ureg.get_dimensionality(a)]
            b = rng.choice(c)
        qa = Q(1.0, a)
        for which, fn in (("q.is_compatible_with(str)", lambda: qa.is_compatible_with(b)),
                          ("q.is_compatible_with(unit)", lambda: qa.is_compatible_with(ureg.Unit(b))),
                          ("unit.is_compatible_with", lambda: ureg.Unit(a).is_compatible_with(b)),
                          ("ureg.is_compatible_with", lambda: ureg.is_compatible_with(a, b)),
                          ("q.check", lambda: qa.check(ureg.get_dimensionality(b))),
                          ("listing", lambda: ureg.Unit(b) in ureg.get_compatible_units(a, "root") or a == b and False)):
            if which == "listing":
                # listing: members of the same dimensionality among *all* units (group "root")
                try:
                    val = ureg.Unit(b) in ureg.get_compatible_units(a, "root") or (ureg.Unit(b) == ureg.Unit(a))
                except Exception:
                    continue
                if ureg.Unit(b) == ureg.Unit(a):
                    continue
            else:
                val = bool(fn())
            events.append({"ev": "pred", "which": which, "a": defreg.cont({a: 1}), "b": defreg.cont({b: 1}), "val": bool(val)})
    # a bare number stands for the dimensionless quantity: compatible exactly with units of empty dimensionality, unitless or not
    dimless = [n for n in canon if not ureg.get_dimensionality(n)]
    cands = [{n: 1} for n in dimless] + [{rng.choice(canon): 1} for _ in range(40)]
    for _ in range(60):
        a = rng.choice(canon)
        same = [n for n in canon if ureg.get_dimensionality(n) == ureg.get_dimensionality(a) and n != a]
        if same:
            cands.append({a: 1, rng.choice(same): -1})
    for d in cands:
        try:
            ua = parse(d)
        except Exception:
            continue
        for which, fn in (("unit.is_compatible_with(number)", lambda: ureg.Unit(ua).is_compatible_with(rng.choice([5, 2.5, 0]))),
                          ("ureg.is_compatible_with(unit, number)", lambda: ureg.is_compatible_with(ureg.Unit(ua), 3)),
                          ("q.is_compatible_with(number)", lambda: Q(2.0, ua).is_compatible_with(7)),
                          ("ureg.is_compatible_with(number, unit)", lambda: ureg.is_compatible_with(3, ureg.Unit(ua))),
                          ("ureg.is_compatible_with(number, str)", lambda: ureg.is_compatible_with(3, defreg.expr(d))),
                          ("ureg.is_compatible_with(str, number)", lambda: ureg.is_compatible_with(defreg.expr(d), 3))):
            try:
                val = bool(fn())
            except Exception as ex:
                chk.diverge({"clause": "predicate-raises", "which": which, "exc": type(ex).__name__}, {"unit": d})
                continue
            events.append({"ev": "pred", "which": which, "a": defreg.cont(d), "b": defreg.cont({}), "val": val})
    # compound pairs: congruence on real units
    for _ in range(3000 if thorough else 500):
        a, b = rng.choice(canon), rng.choice(canon)
        if rng.random() < 0.7:
            b = rng.choice([n for n in canon if ureg.get_dimensionality(n) == ureg.get_dimensionality(a)])
        c = rng.choice(canon)
        e = rng.choice([2, -1, 3, F(1, 2)])
        da, db = ({a: e, c: 1} if c != a else {a: e}), ({b: e, c: 1} if c != b else {b: e})
        try:
            with alarm(5):
                ua, ub = parse(da), parse(db)
                res = outcome(lambda: Q(1.0, ua).to(ub))
        except CaseTimeout:
            chk.skipped += 1
            continue
        events.append({"ev": "conv", "a": defreg.cont(da), "b": defreg.cont(db), "res": res if not res.startswith("other") else "other",
                       "checkfactor": False, "num": [0, 0], "den": [1, 1]})
    for e in events:
        key = (e["ev"], str([(i["s"], i["e"]) for k in ("a", "b", "u") if k in e for i in e[k]]), e.get("which"))
        chk.case(key, nontrivial=True, sample=None)
    for e in events[::max(1, len(events) // 3)][:3]:
        chk.samples.append({k: ([[i["s"], i["e"]] for i in v] if k in ("a", "b", "u") else v) for k, v in e.items()})
    return events


def replay(chk, rec):
    import json
    print(json.dumps(rec["detail"], indent=1)[:4000])
    chk.seed = rec.get("seed", 0)
    return run(chk)
