"""C13 - answers do not depend on query history: caches are transparent.

1. TLC law run  : MC_Pint: Transparent (a query changes no answer, Obs is a function of the declarative state) with
                  NoResidue / AtomicFailure, all operation sequences up to length 4 (quick) / 5 (thorough).
2. spec -> code : every behaviour of length 3 is executed *sparsely*: only its explicit query steps put questions, so the
                  set and order of earlier queries varies over behaviours; at the end the whole probe vector must equal
                  the specification's answers for the declarative state reached.
3. code -> spec : (a) random sparse histories on the model registry, each followed by a registry built afresh and brought
                  into the same declarative state; all logged answers validated by Trace_Pint.  (b) histories of 40 calls
                  on the bundled registry (contexts, default systems, new definitions, lookups that register prefixed units,
                  conversions, parsing, base units, dimensionality, listings, formatting, to_compact) and their fresh twins:
                  Trace_Hist keeps the first answer per (declarative state, question) and rejects any other.
   The context pool is part of the declarative state: a context given another redefinition, or removed and replaced by a rebuilt
   context of the same name, answers by its current content whatever was activated and asked before (edit sequences up to 3 / 4).
   Registries are isolated: operations on one never move the probe vector of another (same definitions, other numeric
   type; the lazily built application registry).
"""
import os
import random
from decimal import Decimal
from fractions import Fraction as F

from .. import pintmachine as pm
from ..engine import MachineryError, alarm, CaseTimeout


def run(chk):
    rng = random.Random(chk.seed)
    thorough = chk.tier == "thorough"
    chk.tlc("laws", "MC_Pint", "MC_Pint.cfg" if thorough else "MC_Pint_q.cfg", timeout=3600)
    wd = chk.workdir("gen")
    dump = os.path.join(wd, "pint.dump")
    g = chk.tlc("gen", "MC_Pint", "MC_Pint_gen.cfg", wd=wd, args=["-dump", dump], count=False)
    model = pm.Model(pm.parse_const(g.out))
    behs = pm.thin_two_name(pm.behaviours_from_dump(dump, 3), thorough)
    os.remove(dump)
    if len(behs) < 500:
        raise MachineryError("generator produced only %d behaviours" % len(behs))
    chk.mark("tlc")

    # ---- 2. sparse execution of every behaviour
    groups = {}
    for hist in behs:
        groups.setdefault(tuple(repr(h["op"]) for h in hist), []).append(hist)
    for opkey, variants in groups.items():
        hist0 = variants[0]
        st = pm.Stepper(model)
        nq = sum(1 for h in hist0 if h["op"][0] == "query")
        chk.case(opkey, nontrivial=nq > 0 and nq < len(hist0), sample={"ops": [h["op"] for h in hist0]})
        answers_q = []
        for h in hist0:
            res, ans = st.step(h["op"])
            answers_q.append(ans)
        final = {key: pm.probe(st.u, key) for key in hist0[-1]["obs"]}
        best = None
        for hist in variants:
            f = []
            for k, h in enumerate(hist):
                if h["op"][0] == "query":
                    key = tuple(h["op"][1])
                    if not pm.matches(key, answers_q[k], h["obs"][key]):
                        f.append((k, key, repr(answers_q[k])))
            for key, answers in hist[-1]["obs"].items():
                if not pm.matches(key, final[key], answers):
                    f.append((len(hist) - 1, key, repr(final[key])))
            if best is None or len(f) < len(best[1]):
                best = (hist, f)
        hist, f = best
        for k, key, got in f:
            cls = pm.classify(hist, k, key)
            chk.diverge(dict(cls, clause="answer-vs-specification"),
                        {"registry": model.lines(), "ops": [x["op"] for x in hist[:k + 1]], "probe": key, "observed": got,
                         "expected": sorted(map(repr, pm.allowed(key, hist[k]["obs"][key])))})
    chk.traces += len(groups)
    chk.mark("sparse-replay")

    # ---- 3a. random sparse histories + fresh twins, validated by Trace_Pint
    events, _ = pm.random_histories(model, rng, 600 if thorough else 120, 14, dense=False)
    for e, clause, prefix in pm.validate_histories(chk, events):
        mine = [x for x in prefix if x["tid"] == e["tid"]]
        src = mine
        if "fresh_of" in e:
            src = [x for x in events if x["tid"] == e["fresh_of"]]
        hist = [{"op": x["op"], "res": x["res"], "stack": [{"ctx": c} for c in x.get("stack", [])]} for x in src]
        key = clause.split(":")[1:] if clause.startswith("probe:") else None
        cls = pm.classify(hist, len(hist) - 1, key)
        chk.diverge(dict(cls, clause=clause.split(":")[0], fresh="fresh_of" in e), {"ops": [x["op"] for x in src], "event": e})
    chk.notes["model_trace_events"] = len(events)
    chk.mark("model-traces")

    # ---- 3b. bundled registry histories
    hev = drive_default(chk, rng, 40 if thorough else 10, 40)
    validate_hist(chk, hev)
    chk.mark("default-registry-traces")

    isolation(chk, model, rng)
    redefinition_after_use(chk)
    context_edit_history(chk, thorough)
    return chk.finish(
        rule="cases = behaviours of MC_Pint executed sparsely (only logged queries ask) with the final probe vector compared with the "
             "specification; random sparse histories with fresh-registry twins validated by Trace_Pint; histories on the bundled registry "
             "validated by Trace_Hist; distinct by operation sequence; non-trivial = history mixes queries and mutations",
        exhaustive=True)


# ------------------------------------------------------------------------------------------------
CTXS = [("sp", {}), ("boltzmann", {}), ("energy", {}), ("chemistry", {"mw": 18}), ("textile", {}), ("Gaussian", {}), ("ESU", {})]
SYSTEMS = ["mks", "cgs", "SI", "imperial", "US", "atomic", "Planck", None]
QUERIES = [
    ("conv", "inch", "centimeter"), ("conv", "nanometer", "terahertz"), ("conv", "eV", "kelvin"), ("conv", "gram", "mole"),
    ("conv", "kilofurlong", "meter"), ("conv", "statcoulomb", "coulomb"), ("conv", "smoot", "meter"), ("conv", "millismoot", "inch"),
    ("conv", "franklin", "coulomb"), ("conv", "pound", "gram"), ("conv", "tex", "denier"),
    ("parse", "3 kilometer / hour"), ("parse", "2 microfortnight"), ("parse", "1.5 smoot**2"), ("parse", "5 kilosmoot"),
    ("base", "mile"), ("base", "pound"), ("base", "volt"), ("base", "smoot"), ("base", "franklin"),
    ("root", "mile"), ("root", "smoot"), ("root", "statvolt"),
    ("dim", "volt"), ("dim", "smoot"), ("dim", "franklin"),
    ("compat", "meter"), ("compat", "gram"), ("compat", "smoot"),
    ("fmt", "kilometer", "~P"), ("fmt", "microfortnight", "~"), ("fmt", "smoot", "D"), ("fmt", "kilosmoot", "~"),
    ("compact", "smoot"), ("compact", "meter"), ("name", "kilofurlong"), ("name", "kilokilometer"), ("name", "smoots"),
    # the same conversions with magnitudes of other numeric types (the conversion-factor cache is shared between them)
    ("convT", "Decimal", "mile", "meter"), ("convT", "Fraction", "mile", "meter"), ("convT", "int", "mile", "meter"), ("convT", "Decimal", "pound", "gram"),
    ("convT", "int", "pound", "gram"), ("convT", "Decimal", "kilometer", "meter"), ("convT", "ndarray", "mile", "meter"), ("convT", "ndarray", "pound", "gram"),
    ("addT", "Decimal", "mile", "meter"), ("addT", "float", "mile", "meter"), ("addT", "int", "kilometer", "meter"),
    # the same text parsed with an explicit case_sensitive argument and with the registry's default (one parse cache serves both)
    ("parseU", "Meter", "ci"), ("parseU", "Meter", "default"), ("parseU", "KiloMeter / Second", "ci"), ("parseU", "KiloMeter / Second", "default"),
    ("parseU", "degF / second", "default"), ("parseU", "degF / second", "nodelta"),
    ("parseU", "kiloMETER", "ci"), ("parseU", "kiloMETER", "default"), ("parseU", "kHZ", "ci"), ("parseU", "kHZ", "default"), ("name", "kHZ"), ("nameCI", "kHZ"),
    ("contains", "kHZ"), ("contains", "kiloMETER"),
    # conversions that name contexts for one call - successful and failing - are questions too: nothing of them may linger
    ("toctx", "nanometer", "terahertz", "sp"), ("itoctx", "nanometer", "terahertz", "sp"), ("itoctx", "nanometer", "kelvin", "sp"), ("toctx", "nanometer", "kilogram", "sp"),
    ("itoctx", "eV", "kelvin", "boltzmann"), ("itoctx", "eV", "meter", "boltzmann"),
    # listings restricted to a group / a system, and unrestricted (one cached set per dimensionality serves all)
    ("compatG", "meter", "USCSLengthInternational"), ("compatG", "meter", "imperial"), ("compatG", "gram", "AvoirdupoisUS"), ("compatG", "meter", "root"),
    # base units under an explicitly named system, whatever the default system is
    ("sbase", "mile", "cgs"), ("sbase", "mile", "imperial"), ("sbase", "volt", "cgs"), ("sbase", "pound", "mks"), ("sbase", "kilometer", "cgs"),
]

NUM = {"Decimal": lambda v: Decimal(str(v)), "Fraction": lambda v: F(v), "int": lambda v: int(v), "float": lambda v: float(v),
       "ndarray": lambda v: __import__("numpy").array([float(v), 2.0 * v])}


def tdigest(q):
    m = q.magnitude
    return [type(m).__name__, digest(m.tolist() if hasattr(m, "tolist") else m), sorted([k, "%.10g" % float(v)] for k, v in q.unit_items())]



def digest(x):
    if isinstance(x, float):
        return "%.10g" % x
    if isinstance(x, (F, int, Decimal)):
        return "%.10g" % float(x)
    if hasattr(x, "unit_items"):
        return [digest(x.magnitude), sorted([k, "%.10g" % float(v)] for k, v in x.unit_items())]
    if isinstance(x, (tuple, list)):
        return [digest(y) for y in x]
    if isinstance(x, (set, frozenset)):
        return sorted(digest(y) for y in x)
    return str(x)


def ask(u, q):
    import pint
    try:
        with alarm(10):
            k = q[0]
            if k == "conv":
                return digest(u.Quantity(3.0, q[1]).to(q[2]))
            if k == "convT":
                return tdigest(u.Quantity(NUM[q[1]](3), q[2]).to(q[3]))
            if k == "addT":
                return tdigest(u.Quantity(NUM[q[1]](3), q[2]) + u.Quantity(NUM[q[1]](2), q[3]))
            if k == "sbase":
                f, un = u.get_base_units(q[1], system=q[2])
                return [digest(f), digest(1 * un)]
            if k in ("toctx", "itoctx"):
                qq = u.Quantity(500.0, q[1])
                if k == "toctx":
                    return digest(qq.to(q[2], q[3]))
                qq.ito(q[2], q[3])
                return digest(qq)
            if k == "parseU":
                un = u.parse_units(q[1], case_sensitive=False) if q[2] == "ci" else u.parse_units(q[1], as_delta=False) if q[2] == "nodelta" else u.parse_units(q[1])
                return digest(1 * un)
            if k == "compatG":
                return sorted(str(x) for x in u.get_compatible_units(q[1], q[2]))
            if k == "parse":
                return digest(u.parse_expression(q[1]))
            if k == "base":
                return digest(u.Quantity(1.0, q[1]).to_base_units())
            if k == "root":
                f, un = u.get_root_units(q[1])
                return [digest(f), digest(1 * un)]
            if k == "dim":
                return sorted([d, "%.10g" % float(e)] for d, e in u.get_dimensionality(q[1]).items())
            if k == "compat":
                return sorted(str(x) for x in u.get_compatible_units(q[1]))
            if k == "fmt":
                return format(u.Quantity(2.5, q[1]), q[2])
            if k == "compact":
                return digest(u.Quantity(12345.0, q[1]).to_compact())
            if k == "name":
                return u.get_name(q[1])
            if k == "nameCI":
                return u.get_name(q[1], case_sensitive=False)
            if k == "contains":
                return q[1] in u
    except CaseTimeout:
        return "TIMEOUT"
    except Exception as e:
        return "EXC:" + type(e).__name__
    return "?"


CASEI_QUERIES = [("name", "MICROFARAD"), ("name", "Kilofurlong"), ("name", "MEGAPARSEC"), ("conv", "microfarad", "farad"), ("conv", "uF", "farad"),
                 ("conv", "kilofurlong", "meter"), ("conv", "megaparsec", "meter"), ("parse", "2 NanoHenry"), ("conv", "nH", "henry"), ("name", "kilometer"),
                 ("name", "KILOMETER"), ("conv", "kilometer", "meter"), ("dim", "MilliSecond"), ("conv", "millisecond", "second")]


def drive_default(chk, rng, ntraces, length):
    import json
    import pint
    events, tid = [], 0
    for t in range(ntraces):
        tid += 1
        casei = (t % 3 == 2)
        mk = (lambda: pint.UnitRegistry(case_sensitive=False)) if casei else pint.UnitRegistry
        QS = (QUERIES + CASEI_QUERIES) if casei else QUERIES
        tag = "casei" if casei else "plain"
        u = mk()
        state = {"active": [], "defs": [], "sys": "<initial>"}
        log = []
        for i in range(length):
            r = rng.random()
            if r < 0.15:
                c, kw = rng.choice(CTXS)
                try:
                    u.enable_contexts(c, **kw)
                    res = "ok"
                    state["active"].insert(0, (c, kw))
                except Exception:
                    res = "error"
                log.append({"tid": tid, "ev": "enable", "ctx": c, "kw": sorted(kw.items()), "res": res})
            elif r < 0.25:
                n = rng.choice([1, 1, 2])
                u.disable_contexts(n)
                del state["active"][:n]
                log.append({"tid": tid, "ev": "disable", "n": n})
            elif r < 0.30 and "smoot" not in state["defs"]:
                u.define("smoot = 1.7018 * meter")
                state["defs"].append("smoot")
                log.append({"tid": tid, "ev": "define", "name": "smoot"})
            elif r < 0.40:
                s = rng.choice(SYSTEMS)
                u.default_system = s
                state["sys"] = str(s)
                log.append({"tid": tid, "ev": "sys", "name": str(s)})
            else:
                q = rng.choice(QS)
                log.append({"tid": tid, "ev": "query", "q": list(q) + [tag], "ans": json.dumps(ask(u, q), sort_keys=True)})
        # final: all questions, then a fresh registry brought into the same declarative state asked the same
        order = list(QS)
        rng.shuffle(order)
        for q in order:
            log.append({"tid": tid, "ev": "query", "q": list(q) + [tag], "ans": json.dumps(ask(u, q), sort_keys=True)})
        tid += 1
        u2 = mk()
        if "smoot" in state["defs"]:
            u2.define("smoot = 1.7018 * meter")
            log.append({"tid": tid, "ev": "define", "name": "smoot"})
        if state["sys"] != "<initial>":
            u2.default_system = None if state["sys"] == "None" else state["sys"]
            log.append({"tid": tid, "ev": "sys", "name": state["sys"]})
        for c, kw in reversed(state["active"]):
            u2.enable_contexts(c, **kw)
            log.append({"tid": tid, "ev": "enable", "ctx": c, "kw": sorted(kw.items()), "res": "ok"})
        for q in reversed(order):          # the opposite order: a question that depends on an earlier one shows
            log.append({"tid": tid, "ev": "query", "q": list(q) + [tag], "ans": json.dumps(ask(u2, q), sort_keys=True), "fresh": True})
        for e in log:
            e["_state"] = None
        events.append(log)
        chk.case(("default-history", t, chk.seed), nontrivial=True)
    chk.samples.append({"default_registry_history": [{k: v for k, v in e.items() if not k.startswith("_")} for e in events[0][:6]]})
    return events


def redefinition_after_use(chk):
    """a unit defined again with define() (on_redefinition = warn, the default): the answers are those of a registry built with the final
    definitions, whatever was asked before the second definition"""
    import logging
    import pint
    logging.getLogger("pint").setLevel(logging.ERROR)
    lines = ["a = [A]", "b = 2 a", "c = 5 b"]
    for asked_before in (False, True):
        chk.case(("redefinition-after-use", asked_before), nontrivial=True)
        u = pint.UnitRegistry(lines, non_int_type=F)
        if asked_before:
            u.Quantity(F(1), "b").to("a"), u.Quantity(F(1), "c").to("a"), u.get_root_units("c")
        u.define("b = 3 a")
        fresh = pint.UnitRegistry(["a = [A]", "b = 3 a", "c = 5 b"], non_int_type=F)
        q = lambda r: [str(r.Quantity(F(1), "b").to("a").magnitude), str(r.Quantity(F(1), "c").to("a").magnitude), str(r.get_root_units("c")[0]), str(r.Quantity(F(1), "c").to_root_units().magnitude)]
        got, want = q(u), q(fresh)
        if got != want:
            chk.diverge({"clause": "stale-after-redefinition", "asked_before": asked_before}, {"lines": lines, "redefinition": "b = 3 a", "observed": got, "fresh": want})


def validate_hist(chk, traces):
    import json
    wd = chk.workdir("hist")
    # one TLC run per group of traces (a trace and its fresh twin are always together)
    group, n = [], 0
    batches = []
    for log in traces:
        group += log
        if len(group) > 2500:
            batches.append(group)
            group = []
    if group:
        batches.append(group)
    for bi, part in enumerate(batches):
        path = os.path.join(wd, "hist%d.json" % bi)
        with open(path, "w") as fh:
            json.dump({"trace": [{k: v for k, v in e.items() if not k.startswith("_")} for e in part]}, fh)
        r = chk.tlc("hist%d" % bi, "Trace_Hist", "Trace_Hist.cfg", wd=wd, workers=1, env={"TRACE_FILE": path}, timeout=3000)
        v = r.printed("VERDICT")
        if not v or v[-1]["consumed"] != len(part):
            raise MachineryError("Trace_Hist did not consume the trace\n" + r.out[-2000:])
        chk.traces += len({e["tid"] for e in part})
        for ln, clause in v[-1]["bad"]:
            e = part[ln - 1]
            mine = [x for x in part[:ln] if x["tid"] == e["tid"]]
            muts = [x for x in mine if x["ev"] != "query"]
            ctxs_on = [x["ctx"] for x in muts if x["ev"] == "enable" and x["res"] == "ok"]
            feats = {"clause": clause, "q": e["q"][0], "unit": e["q"][1],
                     "after_define": any(x["ev"] == "define" for x in muts),
                     "used_redefinition_context": any(c in ("Gaussian", "ESU") for c in ctxs_on),
                     "fresh": bool(e.get("fresh"))}
            chk.diverge(feats, {"event": {k: v for k, v in e.items() if not k.startswith("_")},
                                "history": [{k: v for k, v in x.items() if not k.startswith("_") and k != "ans"} for x in mine][-40:]})
        os.remove(path)
    chk.notes["default_registry_events"] = sum(len(t) for t in traces)


def isolation(chk, model, rng):
    """Using one registry never changes the answers of another."""
    import pint
    keys = [tuple(k) for k in model.c["probes"]]
    a, b = pm.Stepper(model), pm.Stepper(model)
    before = {k: pm.probe(b.u, k) for k in keys}
    for op in (["enable", "RD", [0, 1]], ["define", "new1"], ["setsys", "S"], ["enable", "R", [5, 1]], ["query", ["conv", "kc", "a"]]):
        a.step(op)
        after = {k: pm.probe(b.u, k) for k in keys}
        chk.case(("isolation", repr(op)))
        if after != before:
            chk.diverge({"clause": "isolation", "op": op[0]}, {"op": op, "changed": [k for k in keys if after[k] != before[k]]})
    # same definitions, different numeric types, interleaved (process-wide lru caches must be keyed by the type)
    uf, ufr, ud = pint.UnitRegistry(), pint.UnitRegistry(non_int_type=F), pint.UnitRegistry(non_int_type=Decimal)
    for s in ("1.5 inch", "3 km/hour", "2.25 microsecond", "7 furlong**2"):
        for u, T in rng.sample([(uf, float), (ufr, F), (ud, Decimal)], 3):
            q = u.parse_expression(s)
            r = q.to_base_units().magnitude
            chk.case(("numeric-type-isolation", s, T.__name__))
            if not isinstance(q.magnitude, (T, int)) or not isinstance(r, (T, int)):
                chk.diverge({"clause": "numeric-type-leak", "type": T.__name__}, {"expr": s, "got": [type(q.magnitude).__name__, type(r).__name__]})
    # the lazily built application registry is not affected by another registry's definitions and contexts
    app = pint.get_application_registry()
    x0 = ask(app, ("conv", "inch", "centimeter")), ask(app, ("name", "smoot"))
    other = pint.UnitRegistry()
    other.define("smoot = 1.7018 * meter")
    other.enable_contexts("Gaussian")
    other.default_system = "cgs"
    x1 = ask(app, ("conv", "inch", "centimeter")), ask(app, ("name", "smoot"))
    chk.case(("application-registry-isolation",))
    if x0 != x1 or x1[1] != "EXC:UndefinedUnitError":
        chk.diverge({"clause": "isolation-application-registry"}, {"before": x0, "after": x1})


def replay(chk, rec):
    import json
    print(json.dumps(rec["detail"], indent=1)[:4000])
    chk.seed = rec.get("seed", 0)
    return run(chk)


# ------------------------------------------------------------------------------------------------ edited contexts
def context_edit_history(chk, thorough):
    """The context pool is part of the declarative state: after a context object was given another redefinition of the same unit
    (Context.redefine: the last one wins), or was removed and replaced by a rebuilt context of the same name, the answers with
    the context active are those of its *current* content - whatever was activated and asked before the edit.
    Registry: a = [A], c = 3 a, e = 5 c; context k redefines c = v a: inside 1 e = 5 v a, outside 15 a."""
    import itertools
    import pint
    L = ["a = [A]", "c = 3 a", "e = 5 c"]
    vals = (4, 6, 8)
    steps1 = [("new", v) for v in vals]
    stepsn = steps1 + [("redef", v) for v in vals]
    for n in (2, 3, 4) if thorough else (2, 3):
        for seq in itertools.product(steps1, *([stepsn] * (n - 1))):
            for ask_between in (True, False):
                chk.case(("context-edit", seq, ask_between))
                sig = {"clause": "context-edit-history", "asked_between": ask_between, "last_edit": seq[-1][0]}
                try:
                    u = pint.UnitRegistry(L, non_int_type=F)
                    ctx = None
                    for i, (kind, v) in enumerate(seq):
                        if kind == "new":
                            if ctx is not None:
                                u.remove_context("k")
                            ctx = pint.Context("k")
                            u.add_context(ctx)
                        ctx.redefine("c = %d a" % v)
                        if ask_between or i == len(seq) - 1:
                            with u.context("k"):
                                inside = (u.Quantity(F(1), "e").to("a").magnitude, u.get_root_units("e")[0], u.get_base_units("c")[0])
                            outside = u.Quantity(F(1), "e").to("a").magnitude
                            if inside != (5 * v, 5 * v, v) or outside != 15:
                                chk.diverge(sig, {"registry": L, "edits": list(seq[:i + 1]), "inside": [str(x) for x in inside], "outside": str(outside),
                                                  "expected_inside": [5 * v, 5 * v, v], "expected_outside": 15})
                                break
                except Exception as e:
                    chk.diverge(dict(sig, exc=type(e).__name__), {"registry": L, "edits": list(seq), "error": repr(e)[:200]})
