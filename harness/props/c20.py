"""C20 - the bundled registry carries the internationally standardised values.

The specification is a hand-curated table (harness/std_table.py: SI brochure, NIST SP 811 / Handbook 44, the 1959 yard and pound
agreement, Weights and Measures Act 1985, IAU 2012, CODATA 2022) - never generated from the definition files.
1. TLC          : Trace_Std checks the table's internal consistency relations in modular arithmetic (12 inch = foot, 3 foot = yard,
                  1760 yard = mile, 7000 grain = pound, 16 ounce = pound, 231 inch**3 = gallon, 4.54609 l = imperial gallon,
                  kibi = 2**10 ...), so that a typo in the table breaks a law before it can raise an alarm;
2. code -> spec : one event per entry: Q(1, name).to_root_units() of the Fraction registry (exact, reduced to SI and to residues),
                  symbol, dimensionality; prefixes and temperature offsets; Trace_Std compares each event with its entry.  The float
                  registry must agree within 2 ulp.
"""
import math
import re
from fractions import Fraction as F

from .. import reader
from ..engine import MachineryError
from ..std_table import E, PREFIXES, OFFSETS

DIMNAME = {"L": "[length]", "M": "[mass]", "T": "[time]", "I": "[current]", "Th": "[temperature]", "N": "[substance]", "J": "[luminosity]"}
RELATIONS = [("foot", "12", "inch"), ("yard", "3", "foot"), ("mile", "1760", "yard"), ("pound", "7000", "grain"), ("pound", "16", "ounce"),
             ("ounce", "16", "dram"), ("stone", "14", "pound"), ("long_ton", "2240", "pound"), ("US_ton", "2000", "pound"),
             ("troy_pound", "12", "troy_ounce"), ("troy_ounce", "480", "grain"), ("gallon", "231", "cubic_inch"), ("gallon", "4", "quart"),
             ("quart", "2", "pint"), ("pint", "16", "fluid_ounce"), ("cubic_foot", "1728", "cubic_inch"), ("cubic_yard", "27", "cubic_foot"),
             ("imperial_gallon", "8", "imperial_pint"), ("imperial_pint", "20", "imperial_fluid_ounce"), ("imperial_bushel", "8", "imperial_gallon"),
             ("hour", "60", "minute"), ("day", "24", "hour"), ("week", "7", "day"), ("fortnight", "2", "week"), ("julian_year", "365.25", "day"),
             ("hectare", "100", "are"), ("metric_ton", "1000", "kilogram"), ("kilogram", "1000", "gram"), ("nautical_mile", "1852", "meter"),
             ("survey_mile", "5280", "survey_foot"), ("chain", "66", "survey_foot"), ("furlong", "10", "chain"), ("fathom", "6", "survey_foot"),
             ("byte", "8", "bit"), ("bar", "100000", "pascal"), ("standard_atmosphere", "760", "torr"), ("calorie", "4.184", "joule"),
             ("watt_hour", "3600", "joule"), ("force_pound", "9.80665", "pound") if False else ("kilogram_force", "9.80665", "newton"),
             ("dalton", "1", "unified_atomic_mass_unit"), ("year", "1", "julian_year"), ("bushel", "4", "peck"), ("peck", "2", "dry_gallon")]


def ev(expr):
    expr2 = re.sub(r"(?<![\w.])(\d+\.?\d*(?:[eE][-+]?\d+)?)", r"F('\1')", expr)
    return eval(expr2, {"F": F, "__builtins__": {}})


def dimpairs(d):
    return sorted([DIMNAME[k], [F(v).numerator, F(v).denominator]] for k, v in d.items() if v != 0)


def run(chk):
    import pint
    ureg = pint.UnitRegistry(non_int_type=F, cache_folder=None)
    uflt = pint.UnitRegistry(cache_folder=None)
    table, events = {}, []
    for name, expr, dim, sym, kind in E:
        v = ev(expr)
        table[name] = {"v": reader.fp(v), "dim": dimpairs(dim), "sym": sym or "", "kind": kind}
    for name, expr, sym in PREFIXES:
        table["prefix:" + name] = {"v": reader.fp(ev(expr)), "dim": [], "sym": sym, "kind": "prefix"}
    for name, scale, off, sym in OFFSETS:
        table["offset:" + name] = {"v": reader.fp(ev(off)), "dim": [["[temperature]", [1, 1]]], "sym": sym, "kind": "offset"}
        table["scale:" + name] = {"v": reader.fp(ev(scale)), "dim": [["[temperature]", [1, 1]]], "sym": "", "kind": "offset-scale"}
    rel = [{"a": a, "k": reader.fp(ev(k)), "b": b} for a, k, b in RELATIONS if a in table and b in table]
    if len(rel) < 35:
        raise MachineryError("only %d consistency relations apply to the table" % len(rel))

    def residues(x):
        x = F(x)
        return [x.numerator % reader.P1, x.numerator % reader.P2], [x.denominator % reader.P1, x.denominator % reader.P2]

    for name, expr, dim, sym, kind in E:
        exact_val = ev(expr)
        chk.case(("entry", name), nontrivial=True, sample={"name": name, "si_value": str(exact_val), "symbol": sym, "dimension": dim})
        e = {"name": name, "defined": True, "exact": False, "num": [0, 0], "den": [1, 1], "dim": [], "sym": ""}
        try:
            q = ureg.Quantity(F(1), name).to_root_units()
            f = q.magnitude
            g = dict(q.unit_items()).get("gram", 0)
            if isinstance(f, (int, F)):
                f_si = F(f) * F(1, 1000) ** int(g)
                e["exact"] = True
                e["num"], e["den"] = residues(f_si)
            else:
                f_si = f * 1000.0 ** (-float(g))
                if abs(f_si - float(exact_val)) > 4 * math.ulp(float(exact_val)):
                    chk.diverge({"clause": "value-float", "name": name}, {"name": name, "expected": str(exact_val), "observed": repr(f_si)})
            e["dim"] = sorted([k, [F(v).numerator, F(v).denominator]] for k, v in q.dimensionality.items())
            e["sym"] = ureg.get_symbol(name)
            # float registry: within 2 ulp of the correctly rounded exact value
            qf = uflt.Quantity(1.0, name).to_root_units()
            ff = qf.magnitude * 1000.0 ** (-float(dict(qf.unit_items()).get("gram", 0)))
            if abs(ff - float(exact_val)) > 4 * math.ulp(float(exact_val)):
                chk.diverge({"clause": "value-float-registry", "name": name}, {"name": name, "expected": str(exact_val), "observed": repr(ff)})
        except pint.UndefinedUnitError:
            e["defined"] = False
        except Exception as ex:
            chk.diverge({"clause": "entry-raises", "name": name, "exc": type(ex).__name__}, {"name": name})
            continue
        events.append(e)
    for name, expr, sym in PREFIXES:
        chk.case(("prefix", name))
        e = {"name": "prefix:" + name, "defined": True, "exact": True, "dim": [], "sym": "", "num": [0, 0], "den": [1, 1]}
        try:
            v = ureg.Quantity(F(1), name + "meter").to("meter").magnitude
            e["num"], e["den"] = residues(v)
            e["sym"] = ureg.get_symbol(name + "meter")[:-1]
        except Exception:
            e["defined"] = False
        events.append(e)
    for name, scale, off, sym in OFFSETS:
        chk.case(("offset", name))
        # 0 [scale unit] in kelvin is the offset; 1 delta is the scale
        try:
            zero = ureg.Quantity(F(0), name).to("kelvin").magnitude
            one = ureg.Quantity(F(1), name).to("kelvin").magnitude - zero
            n1, d1 = residues(zero)
            events.append({"name": "offset:" + name, "defined": True, "exact": True, "num": n1, "den": d1, "dim": [["[temperature]", [1, 1]]], "sym": ureg.get_symbol(name)})
            n2, d2 = residues(one)
            events.append({"name": "scale:" + name, "defined": True, "exact": True, "num": n2, "den": d2, "dim": [["[temperature]", [1, 1]]], "sym": ""})
        except Exception as ex:
            chk.diverge({"clause": "entry-raises", "name": name, "exc": type(ex).__name__}, {"name": name})
    import json
    import os
    wd = chk.workdir("std")
    path = os.path.join(wd, "std.json")
    with open(path, "w") as fh:
        json.dump({"table": table, "relations": rel, "trace": events}, fh)
    r = chk.tlc("std", "Trace_Std", "Trace_Std.cfg", wd=wd, workers=1, env={"TRACE_FILE": path})
    v = r.printed("VERDICT")
    if not v or v[-1]["consumed"] != len(events):
        raise MachineryError("Trace_Std did not consume the trace\n" + r.out[-1500:])
    v = v[-1]
    if v["broken_relations"] or not v["symbols_unique"]:
        raise MachineryError("the standards table is inconsistent with itself: relations %s" % [RELATIONS[i - 1] for i in v["broken_relations"]])
    chk.traces += 1
    chk.notes["table_entries"] = len(table)
    chk.notes["consistency_relations"] = len(rel)
    for ln, clause in v["bad"]:
        e = events[ln - 1]
        chk.diverge({"clause": clause, "name": e["name"]}, {"name": e["name"], "observed_symbol": e["sym"], "observed_dim": e["dim"], "table": table.get(e["name"])})
    return chk.finish(
        rule="cases = entries of the hand-curated standards table (units, constants, prefixes, temperature scales): one event each, compared by "
             "Trace_Std (value fingerprint, symbol, dimensionality); every entry is distinct and non-trivial",
        exhaustive=True)


def replay(chk, rec):
    import json
    print(json.dumps(rec["detail"], indent=1)[:4000])
    return run(chk)
