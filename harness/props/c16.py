"""C16 - NumPy functions on quantity arrays respect units.

1. TLC law run  : MC_C16 (NumpyPlan.tla): a hand-written plan table (which arguments are made consistent, output unit, refusals) x
                  every assignment of units {m, cm, s, ms, rad, quarter-turn, none, percent}: the output unit carries the exponents of
                  the function's homogeneity degrees, acceptance is invariant under re-expression, refusals are exactly the
                  incompatible / non-angle / non-dimensionless cases, predicates and index results are bare.
2. spec -> code : every state: the real np.f(Quantity...) on seeded random arrays has the plan's unit and, as magnitude, np.f
                  applied to the plan-converted magnitudes (rtol 1e-12); refused states raise DimensionalityError; inputs unchanged.
3. code -> spec : covariance sweep over every NumPy function, ufunc and array method pint handles that fits a call template:
                  re-expressing the inputs in other compatible units leaves the physical result unchanged (or the same error kind);
                  incompatible inputs raise; offset units are refused where ambiguous; only in-place calls modify their inputs.
"""
import os
import random
import signal
from fractions import Fraction as F

from .. import tlaval
from ..engine import MachineryError, alarm, CaseTimeout

UNIT_TEXT = {"m": "meter", "cm": "centimeter", "s": "second", "ms": "millisecond", "rad": "radian", "turn4": "quarter_turn", "none": "", "pct": "percent"}


def run(chk):
    import numpy as np
    import pint
    rng = random.Random(chk.seed)
    nrng = np.random.default_rng(chk.seed)
    thorough = chk.tier == "thorough"
    wd = chk.workdir("gen")
    dump = os.path.join(wd, "np.dump")
    chk.tlc("laws+gen", "MC_C16", "MC_C16.cfg", wd=wd, args=["-dump", dump])
    states = [st for st in tlaval.parse_states(open(dump).read()) if st["stage"] == 1]
    os.remove(dump)
    if len(states) < 1000:
        raise MachineryError("generator produced only %d states" % len(states))
    ureg = pint.UnitRegistry()
    ureg.define("quarter_turn = 0.25 * radian")
    Q = ureg.Quantity

    def arr(lo=0.2, hi=0.9, shape=(4,)):
        return nrng.uniform(lo, hi, size=shape)

    def call(fn, x, y):
        f = getattr(np, fn)
        if fn == "where":
            return np.where(np.array([True, False, True, False]), x, y)
        if fn == "concatenate":
            return np.concatenate([x, y])
        if fn == "cross":
            return np.cross(x[:3], y[:3])
        if fn == "shape":
            return np.shape(x)
        if y is None:
            return f(x)
        return f(x, y)

    def base_call(fn, a, b):
        if fn == "where":
            return np.where(np.array([True, False, True, False]), a, b)
        if fn == "concatenate":
            return np.concatenate([a, b])
        if fn == "cross":
            return np.cross(a[:3], b[:3])
        if fn == "shape":
            return np.shape(a)
        f = getattr(np, fn)
        return f(a) if b is None else f(a, b)

    for lo_, hi_ in ([(0.2, 0.9)] if not thorough else [(0.2, 0.9), (1.5, 40.0), (1e-3, 5e-2), (0.2, 0.9)]):
        for st in states:
            fn, u1, u2, plan = st["fn"], st["u1"], st["u2"], st["plan"]
            two = plan[0] == "ok" and st["u2"] is not None
            binary = fn in ("add", "subtract", "maximum", "minimum", "hypot", "where", "append", "concatenate", "copysign", "nextafter", "less", "greater",
                            "equal", "isclose", "allclose", "multiply", "dot", "cross", "outer", "divide", "true_divide", "fmax", "fmin", "not_equal", "less_equal",
                        "greater_equal", "array_equal", "inner", "vdot", "matmul", "kron")
            a, b = arr(lo_, hi_), (arr(lo_, hi_) if binary else None)
            x = Q(a.copy(), UNIT_TEXT[u1])
            y = Q(b.copy(), UNIT_TEXT[u2]) if binary else None
            chk.case((fn, u1, u2, lo_, hi_), nontrivial=u1 != "none" or (binary and u2 != "none"), sample={"function": fn, "units": [u1, u2], "plan": plan})
            sig = {"function": fn, "kind_expected": plan[0]}
            try:
                with np.errstate(all="ignore"):
                    r = call(fn, x, y)
                err = None
            except pint.DimensionalityError:
                r, err = None, "dimerr"
            except Exception as e:
                r, err = None, "other:" + type(e).__name__
            if plan[0] == "dimerr":
                if err != "dimerr":
                    chk.diverge(dict(sig, clause="incompatible-input-accepted", observed=err or "returned"), {"function": fn, "units": [u1, u2]})
                continue
            if err is not None:
                chk.diverge(dict(sig, clause="valid-input-refused", observed=err), {"function": fn, "units": [u1, u2]})
                continue
            # inputs unchanged
            if not np.array_equal(x.magnitude, a) or (binary and not np.array_equal(y.magnitude, b)):
                chk.diverge(dict(sig, clause="input-modified"), {"function": fn, "units": [u1, u2]})
            conv = plan[1]
            a2 = x.to(UNIT_TEXT[conv[0]]).magnitude if conv[0] else a
            b2 = (y.to(UNIT_TEXT[conv[1]]).magnitude if conv[1] else b) if binary else None
            with np.errstate(all="ignore"):
                want_m = base_call(fn, a2, b2)
            out = plan[2]
            if out[0] == "bare":
                ok = not hasattr(r, "units") and np.array_equal(np.asarray(r), np.asarray(want_m))
                if not ok:
                    chk.diverge(dict(sig, clause="bare-result"), {"function": fn, "units": [u1, u2], "observed": repr(r)[:200]})
                continue
            if not hasattr(r, "units"):
                chk.diverge(dict(sig, clause="unit-dropped"), {"function": fn, "units": [u1, u2], "observed": repr(r)[:200]})
                continue
            if out[0] == "dimensionless":
                want_u = ureg.Unit("")
            else:
                want_u = ureg.Unit(UNIT_TEXT[out[1]] or "dimensionless") ** (F(out[2][0], out[2][1]))
                o2 = plan[3]
                if o2[0] == "unit" and binary:
                    want_u = want_u * ureg.Unit(UNIT_TEXT[o2[1]] or "dimensionless") ** (F(o2[2][0], o2[2][1]))
            ri, wi = dict((1 * r.units).unit_items()), dict((1 * want_u).unit_items())
            same_unit = (r.units == want_u) or (set(ri) == set(wi) and all(abs(float(ri[k_]) - float(wi[k_])) < 1e-6 for k_ in ri)) or (r.dimensionless and want_u.dimensionless and
                                                 abs((1 * r.units).to_root_units().magnitude - (1 * want_u).to_root_units().magnitude) < 1e-12)
            if not same_unit:
                chk.diverge(dict(sig, clause="output-unit"), {"function": fn, "units": [u1, u2], "expected": str(want_u), "observed": str(r.units)})
            elif not np.allclose(np.asarray(r.to(want_u).magnitude, dtype=float), np.asarray(want_m, dtype=float), rtol=1e-12, atol=1e-14, equal_nan=True):
                chk.diverge(dict(sig, clause="magnitude"), {"function": fn, "units": [u1, u2], "expected": repr(want_m)[:200], "observed": repr(r.magnitude)[:200]})
    chk.traces += len(states)
    chk.mark("plan-replay")
    sweep(chk, rng, nrng, thorough)
    forms_agree(chk, nrng)
    return chk.finish(
        rule="cases = states of MC_C16 (function of the plan table, units of its arguments) executed with seeded random arrays, plus the "
             "covariance sweep (function x argument families x re-expression) over everything pint handles; distinct by (function, units); "
             "non-trivial = at least one argument carries a unit",
        exhaustive=True)


# ------------------------------------------------------------------------------------------------ covariance sweep
FAM = {"L": ["m", "cm", "km", "inch"], "T": ["s", "ms", "minute"], "A": ["rad", "degree", "turn"], "N": ["", "percent", "ppm"], "M": ["kg", "g", "pound"]}
ROUNDING = {"round", "around", "rint", "floor", "ceil", "trunc", "fix"}          # round *in the unit given*, by design
KNOWN_NONCOVARIANT = {"mod", "fmod", "remainder", "floor_divide"}                   # known finding KF-C16-1


def phys(x, np):
    if isinstance(x, (tuple, list)):
        return tuple(phys(y, np) for y in x)
    if hasattr(x, "to_root_units"):
        r = x.to_root_units()
        return ("Q", np.asarray(r.magnitude, dtype=float), tuple(sorted((k, float(v)) for k, v in r.dimensionality.items())))
    return ("raw", np.asarray(x))


def same(p1, p2, np):
    if isinstance(p1, tuple) and p1 and p1[0] in ("Q", "raw"):
        if p1[0] != p2[0] or (p1[0] == "Q" and p1[2] != p2[2]):
            return False
        a, b = p1[1], p2[1]
        if a.shape != b.shape:
            return False
        if a.dtype.kind in "biuSUO" or b.dtype.kind in "biuSUO":
            return bool(np.array_equal(a, b))
        return bool(np.allclose(a, b, rtol=1e-9, atol=1e-12, equal_nan=True))
    if isinstance(p1, tuple):
        return len(p1) == len(p2) and all(same(x, y, np) for x, y in zip(p1, p2))
    return p1 == p2


def sweep(chk, rng, nrng, thorough):
    import numpy as np
    import pint
    ureg = pint.UnitRegistry()
    Q = ureg.Quantity
    cases = []

    def case(name, fams, f):
        cases.append((name, fams, f))
    unary = ["sum", "nansum", "cumsum", "nancumsum", "mean", "nanmean", "median", "nanmedian", "std", "nanstd", "var", "nanvar", "max", "min", "amax", "amin",
             "nanmax", "nanmin", "ptp", "sort", "ravel", "copy", "squeeze", "transpose", "flip", "diff", "ediff1d", "gradient", "sqrt", "cbrt", "square",
             "reciprocal", "absolute", "fabs", "negative", "positive", "sign", "isnan", "isfinite", "isinf", "signbit", "argsort", "argmax", "argmin",
             "nonzero", "count_nonzero", "ones_like", "zeros_like", "shape", "size", "ndim", "trim_zeros", "atleast_1d", "atleast_2d", "average", "nan_to_num",
             "any", "all", "isreal", "round", "rint", "floor", "ceil", "trunc", "fix"]
    for nm in unary:
        if hasattr(np, nm):
            case(nm, ["L"], (lambda nm: lambda q: getattr(np, nm)(q[0]))(nm))
    for nm in ["sin", "cos", "tan", "sinh", "cosh", "tanh", "unwrap"]:
        case(nm, ["A"], (lambda nm: lambda q: getattr(np, nm)(q[0]))(nm))
    for nm in ["exp", "expm1", "exp2", "log", "log10", "log1p", "log2", "arcsin", "arccos", "arctan", "arctanh", "arcsinh", "cumprod", "prod"]:
        case(nm + "/N", ["N"], (lambda nm: lambda q: getattr(np, nm)(q[0]))(nm))
    for nm in ["add", "subtract", "maximum", "minimum", "hypot", "arctan2", "copysign", "nextafter", "fmod", "mod", "remainder", "floor_divide", "true_divide",
               "divide", "multiply", "equal", "not_equal", "less", "less_equal", "greater", "greater_equal", "isclose", "allclose", "append", "intersect1d",
               "isin", "dot", "correlate", "union1d" if hasattr(np, "union1d") else "append"]:
        case(nm, ["L", "L"], (lambda nm: lambda q: getattr(np, nm)(q[0], q[1]))(nm))
    for nm in ["multiply", "true_divide", "dot"]:
        case(nm + "/LT", ["L", "T"], (lambda nm: lambda q: getattr(np, nm)(q[0], q[1]))(nm))
    for nm in ["concatenate", "stack", "hstack", "vstack", "dstack", "column_stack"]:
        case(nm, ["L", "L"], (lambda nm: lambda q: getattr(np, nm)([q[0], q[1]]))(nm))
    case("where", ["L", "L"], lambda q: np.where(np.array([True, False, True, False]), q[0], q[1]))
    case("clip", ["L", "L", "L"], lambda q: np.clip(q[0], q[1].min(), q[2].max()))
    case("clip-none-max", ["L", "L"], lambda q: np.clip(q[0], None, q[1].max()))
    case("linspace", ["L", "L"], lambda q: np.linspace(q[0][0], q[1][0], 5))
    case("pad", ["L", "L"], lambda q: np.pad(q[0], 1, constant_values=q[1][0]))
    case("max-initial", ["L", "L"], lambda q: np.max(q[0], initial=q[1][0]))
    case("insert", ["L", "L"], lambda q: np.insert(q[0], 1, q[1][0]))
    case("nan_to_num-nan", ["L", "L"], lambda q: np.nan_to_num(q[0] * np.array([1, np.nan, 1, 1]), nan=q[1][0]))
    case("nan_to_num-posinf", ["L", "L"], lambda q: np.nan_to_num(q[0] * np.array([1, np.inf, 1, np.nan]), posinf=q[1][0]))
    case("full_like", ["L", "T"], lambda q: np.full_like(q[0], q[1][0]))
    case("searchsorted", ["L", "L"], lambda q: np.searchsorted(np.sort(q[0]), q[1]))
    case("interp", ["L", "L", "T"], lambda q: np.interp(q[0], np.sort(q[1]), q[2]))
    case("trapezoid-x", ["L", "T"], lambda q: np.trapezoid(q[0], x=np.sort(q[1])))
    case("power-2", ["L"], lambda q: np.power(q[0], 2))
    case("power-array-dimensionless", ["N", "N"], lambda q: np.power(q[0], q[1]))
    case("copyto", ["L", "L"], lambda q: (np.copyto(q[0], q[1]), q[0])[1])
    case("copyto-where", ["L", "L"], lambda q: (np.copyto(q[0], q[1], where=np.array([True, False, True, False])), q[0])[1])
    case("meshgrid", ["L", "T"], lambda q: np.meshgrid(q[0], q[1]))
    # bare tolerances are in the units of the first operand
    # (the first operand is kept in metres, the second - the same values shifted by 3 cm - is re-expressed)
    case("isclose-atol", ["L"], lambda q: np.isclose(q[0].to("m"), q[0] + Q(0.03, "m"), atol=0.05, rtol=0))
    case("isclose-atol-tight", ["L"], lambda q: np.isclose(q[0].to("m"), q[0] + Q(0.03, "m"), atol=0.01, rtol=0))
    case("allclose-atol", ["L"], lambda q: np.allclose(q[0].to("m"), q[0] + Q(0.03, "m"), atol=0.05, rtol=0))
    case("isclose-atol-positional", ["L"], lambda q: np.isclose(q[0].to("m"), q[0] + Q(0.03, "m"), 0, 0.05))
    case("isclose-atol-quantity", ["L", "L", "L"], lambda q: np.isclose(q[0], q[0].to(q[1].units) + Q(0.03, "m"), atol=Q(0.05, "m").to(q[2].units), rtol=0))
    # positional and keyword forms of optional arguments mean the same
    for nm in ["sum", "prod", "nanprod", "mean", "std", "var", "max", "cumsum", "cumprod", "median", "ptp"]:
        fam = "N" if "prod" in nm else "L"
        case(nm + "-axis-positional", [fam], (lambda nm: lambda q: getattr(np, nm)(np.reshape(q[0], (2, 2)), 1))(nm))
        case(nm + "-axis-keyword", [fam], (lambda nm: lambda q: getattr(np, nm)(np.reshape(q[0], (2, 2)), axis=1))(nm))
    case("prod-axis-positional-L", ["L"], lambda q: np.prod(np.reshape(q[0], (2, 2)), 1))
    case("prod-axis-keyword-L", ["L"], lambda q: np.prod(np.reshape(q[0], (2, 2)), axis=0))
    case("prod-L", ["L"], lambda q: np.prod(q[0]))
    case("method-prod-axis", ["L"], lambda q: np.reshape(q[0], (2, 2)).prod(1))
    case("method-sum-axis", ["L"], lambda q: np.reshape(q[0], (2, 2)).sum(1))
    case("method-sum", ["L"], lambda q: q[0].sum())
    case("method-std", ["L"], lambda q: q[0].std())
    case("method-clip", ["L", "L"], lambda q: q[0].clip(q[1].min(), None))
    case("method-dot", ["L", "T"], lambda q: q[0].dot(q[1]))
    case("method-fill", ["L", "L"], lambda q: (q[0].fill(q[1][0]), q[0])[1])
    case("method-put", ["L", "L"], lambda q: (q[0].put([0, 2], q[1][:2]), q[0])[1])
    case("method-searchsorted", ["L", "L"], lambda q: np.sort(q[0]).searchsorted(q[1]))
    chk.notes["sweep_functions"] = len(cases)
    nrep = 6 if thorough else 3
    for name, fams, f in cases:
        for rep in range(nrep):
            mags = [nrng.uniform(0.2, 0.9, size=(4,)) for _ in fams]
            u0 = [FAM[fam][0] for fam in fams]
            u1 = [rng.choice(FAM[fam]) for fam in fams]
            base_q = [Q(m.copy(), u) for m, u in zip(mags, u0)]
            alt_q = [Q(m.copy(), u).to(v) for m, u, v in zip(mags, u0, u1)]
            snap = [q.magnitude.copy() for q in alt_q]
            inplace = name.startswith(("copyto", "method-fill", "method-put"))
            chk.case(("sweep", name, tuple(u1), rep), nontrivial=u0 != u1)
            try:
                with alarm(5), np.errstate(all="ignore"):
                    r0 = f([q for q in base_q])
                    e0 = None
            except CaseTimeout:
                chk.skipped += 1
                continue
            except Exception as e:
                r0, e0 = None, type(e).__name__
            try:
                with alarm(5), np.errstate(all="ignore"):
                    r1 = f([q for q in alt_q])
                    e1 = None
            except CaseTimeout:
                chk.skipped += 1
                continue
            except Exception as e:
                r1, e1 = None, type(e).__name__
            if e0 is not None and e1 is not None:
                if e0 != e1:
                    chk.diverge({"clause": "error-kind-depends-on-units", "function": name}, {"function": name, "units": [u0, u1], "errors": [e0, e1]})
                continue
            if (e0 is None) != (e1 is None):
                chk.diverge({"clause": "acceptance-depends-on-units", "function": name}, {"function": name, "units": [u0, u1], "errors": [e0, e1]})
                continue
            base = name.split("/")[0].split("-")[0]
            if base in ROUNDING:
                continue
            if not same(phys(r0, np), phys(r1, np), np):
                cls = "consistent-units-not-made" if base in KNOWN_NONCOVARIANT else "plain"
                chk.diverge({"clause": "result-depends-on-units", "function": name, "class": cls},
                            {"function": name, "units": [u0, u1], "base_result": repr(r0)[:200], "alt_result": repr(r1)[:200]})
            if not inplace:
                for q, s in zip(alt_q, snap):
                    if not np.array_equal(q.magnitude, s):
                        chk.diverge({"clause": "input-modified", "function": name}, {"function": name, "units": u1})
                        break
    # incompatible inputs must raise; offset units are refused where ambiguous
    for nm in ["add", "subtract", "maximum", "hypot", "less", "append", "concatenate-list", "where3", "clip3", "isclose", "copyto2"]:
        chk.case(("incompatible", nm))
        x, y = Q(np.array([1.0, 2.0]), "m"), Q(np.array([1.0, 2.0]), "s")
        try:
            if nm == "concatenate-list":
                np.concatenate([x, y])
            elif nm == "where3":
                np.where(np.array([True, False]), x, y)
            elif nm == "clip3":
                np.clip(x, y[0], None)
            elif nm == "copyto2":
                np.copyto(x, y)
            else:
                getattr(np, nm)(x, y)
            chk.diverge({"clause": "incompatible-input-accepted", "function": nm}, {"function": nm})
        except pint.DimensionalityError:
            pass
        except Exception as e:
            chk.diverge({"clause": "incompatible-wrong-error", "function": nm, "exc": type(e).__name__}, {"function": nm})
    for nm in ["multiply", "sqrt", "square", "var", "prod", "cumprod"]:
        chk.case(("offset-refused", nm))
        t = Q(np.array([10.0, 20.0]), "degC")
        try:
            with np.errstate(all="ignore"):
                r = getattr(np, nm)(t, t) if nm == "multiply" else getattr(np, nm)(t)
            chk.diverge({"clause": "offset-unit-accepted", "function": nm, "class": "ufunc-on-offset-unit"}, {"function": nm, "result": repr(r)[:120]})
        except (pint.OffsetUnitCalculusError, pint.DimensionalityError):
            pass
        except Exception as e:
            chk.diverge({"clause": "offset-wrong-error", "function": nm, "exc": type(e).__name__}, {"function": nm})


def forms_agree(chk, nrng):
    """the same call written with a positional or a keyword optional argument, as a function or as an ndarray method, gives the same
    quantity or the same refusal - for multiplicative units and for offset units alike; and out-of-place functions leave their input
    arrays untouched in every registry mode (repeating the call gives the same answer)."""
    import numpy as np
    import pint
    for mode in ({}, {"autoconvert_offset_to_baseunit": True}):
        ureg = pint.UnitRegistry(**mode)
        Q = ureg.Quantity
        for unit in ("meter", "degC", "delta_degC", "kelvin", "percent", "kilometer / meter", "dimensionless"):
            a = nrng.uniform(1.0, 9.0, size=(2, 3))

            def outcome(f):
                x = Q(a.copy(), unit)
                try:
                    with np.errstate(all="ignore"):
                        r = f(x)
                    if not np.array_equal(x.magnitude, a):
                        return ("input-modified",)
                    return ("ok", np.asarray(getattr(r, "magnitude", r)).round(9).tolist(), str(getattr(r, "units", "")))
                except Exception as e:
                    return ("raises", type(e).__name__)
            pairs = []
            for nm in ("sum", "cumsum", "std", "var", "mean", "prod", "max", "min", "ptp", "cumprod"):
                pairs.append((nm, "function-positional-axis / function-keyword-axis", (lambda nm: lambda x: getattr(np, nm)(x, 1))(nm), (lambda nm: lambda x: getattr(np, nm)(x, axis=1))(nm)))
                if hasattr(np.ndarray, nm):
                    pairs.append((nm, "function / method", (lambda nm: lambda x: getattr(np, nm)(x))(nm), (lambda nm: lambda x: getattr(x, nm)())(nm)))
                    pairs.append((nm, "function-axis / method-axis", (lambda nm: lambda x: getattr(np, nm)(x, axis=0))(nm), (lambda nm: lambda x: getattr(x, nm)(0))(nm)))
            for nm, what, f, g in pairs:
                chk.case(("forms", tuple(mode), unit, nm, what))
                o1, o2 = outcome(f), outcome(g)
                if "input-modified" in (o1[0], o2[0]):
                    chk.diverge({"clause": "input-modified", "function": nm, "forms": what}, {"unit": unit, "mode": mode})
                elif o1 != o2:
                    chk.diverge({"clause": "forms-disagree", "function": nm, "forms": what, "offset": unit == "degC"}, {"unit": unit, "mode": mode, "first": repr(o1)[:200], "second": repr(o2)[:200]})
        # out-of-place binary functions with an offset-unit array: operands untouched, the call repeatable
        for nm, mk in (("dot", lambda x, y: np.dot(x, y)), ("cross", lambda x, y: np.cross(x, y)), ("correlate", lambda x, y: np.correlate(x, y)),
                       ("trapezoid", lambda x, y: np.trapezoid(x, x=y)), ("multiply", lambda x, y: np.multiply(x, y)), ("subtract", lambda x, y: np.subtract(x, y)),
                       ("to_base_units", lambda x, y: x.to_base_units()), ("to_root_units", lambda x, y: x.to_root_units()), ("to", lambda x, y: x.to("kelvin"))):
            a, b = nrng.uniform(1.0, 9.0, size=(3,)), np.sort(nrng.uniform(1.0, 9.0, size=(3,)))
            x, y = Q(a.copy(), "degC"), Q(b.copy(), "meter" if nm != "subtract" else "degC")
            chk.case(("offset-array-untouched", tuple(mode), nm))
            # the same product with the operands swapped is the same physical quantity (or the same refusal)
            if nm in ("dot", "multiply"):
                def once(f):
                    try:
                        with np.errstate(all="ignore"):
                            r = f()
                        return ("ok", np.asarray(r.to_base_units().magnitude).round(6).tolist(), sorted((k, float(v)) for k, v in r.to_base_units().unit_items()))
                    except Exception as e:
                        return ("raises", type(e).__name__)
                o1, o2 = once(lambda: mk(x, y)), once(lambda: mk(y, x))
                if o1 != o2:
                    chk.diverge({"clause": "operand-order-changes-result", "function": nm, "autoconvert": bool(mode)}, {"function": nm, "mode": mode, "x_first": repr(o1)[:200], "y_first": repr(o2)[:200]})
            outs = []
            for _ in range(2):
                try:
                    with np.errstate(all="ignore"):
                        r = mk(x, y)
                    outs.append(("ok", np.asarray(getattr(r, "magnitude", r)).round(9).tolist(), str(getattr(r, "units", ""))))
                except Exception as e:
                    outs.append(("raises", type(e).__name__))
            if not np.array_equal(x.magnitude, a) or not np.array_equal(y.magnitude, b):
                chk.diverge({"clause": "input-modified", "function": nm, "autoconvert": bool(mode)}, {"function": nm, "mode": mode, "before": a.tolist(), "after": np.asarray(x.magnitude).tolist()})
            elif outs[0] != outs[1]:
                chk.diverge({"clause": "not-repeatable", "function": nm, "autoconvert": bool(mode)}, {"function": nm, "mode": mode, "first": repr(outs[0])[:200], "second": repr(outs[1])[:200]})


def replay(chk, rec):
    import json
    print(json.dumps(rec["detail"], indent=1)[:4000])
    chk.seed = rec.get("seed", 0)
    return run(chk)
