"""C05 - equality, ordering and hashing agree with physical value.

1. TLC law run  : MC_C05 (both registry modes): == is the declarative definition (same dimensionality and equal magnitude
                  after conversion), reflexive / symmetric / transitive, equal => equal hash keys, != is the negation,
                  trichotomy and order by root magnitude, cross-dimension and bare-number rules.
2. spec -> code : every state (pair of pool quantities or quantity and bare number, operator) executed on a Fraction
                  registry built from the model registry (offset, delta, absolute, dimensionless units) in both modes.
3. code -> spec : bundled registry: same-dimension unit pairs with magnitudes constructed physically equal / adjacent;
                  Trace_Reg validates the construction through fingerprints and checks == != < <= > >= and hash.
"""
import math
import random
from fractions import Fraction as F

from .. import defreg, qreplay as qr
from ..engine import MachineryError, alarm, CaseTimeout
from .c03 import generate


def run(chk):
    rng = random.Random(chk.seed)
    thorough = chk.tier == "thorough"
    for cfg, ac in (("MC_C05.cfg", False), ("MC_C05_ac.cfg", True)):
        r, reg, cases = generate(chk, "MC_C05", cfg)
        ureg = qr.materialise(reg, F, autoconvert_offset_to_baseunit=ac)
        lines = qr.lines_of(reg)
        kinds = {st["res"]["k"] for st in cases}
        if not {"bool", "dimerr", "valueerr"} <= kinds:
            raise MachineryError("vacuous generator: result kinds %s" % sorted(kinds))
        for st in cases:
            a, b, op = st["a"], st["b"], st["op"]
            exp = qr.expected(st["res"])
            zero_offset = (not b["num"] and a["m"][0] == 0 and b["m"][0] == 0)
            nonmult = lambda q: any(reg["units"][n]["nonmult"] for n in qr.cont_of(q["u"]))
            cls = "both-zero-with-offset-unit" if zero_offset and (nonmult(a) or nonmult(b)) else "plain"
            chk.case((ac, op, a, b), nontrivial=a["u"] != b["u"], sample={"a": a, "b": b, "op": op, "expected": st["res"], "autoconvert": ac})
            case = {"registry": lines, "autoconvert": ac, "a": a, "b": b, "op": op, "expected": st["res"]}
            x, y = qr.mkq(ureg, a), qr.mkq(ureg, b)
            if op == "hash":
                try:
                    same = hash(x) == hash(y)
                except Exception as e:
                    chk.diverge({"clause": "hash-raises", "exc": type(e).__name__, "autoconvert": ac}, case)
                    continue
                if exp == {"k": "bool", "b": True} and not same:
                    chk.diverge({"clause": "hash", "class": cls, "autoconvert": ac}, case)
                # relational: real == implies equal real hashes
                try:
                    if (x == y) is True and not same:
                        chk.diverge({"clause": "eq-implies-hash", "class": cls, "autoconvert": ac}, case)
                except Exception:
                    pass
                continue
            try:
                got = qr.project(qr.apply(op, x, y))
            except Exception as e:
                got = {"k": qr.kind_of_exception(e)}
            if got != exp:
                chk.diverge({"clause": "result", "op": op, "class": cls, "expected": exp.get("b", exp["k"]), "observed": got.get("b", got["k"]),
                             "bnum": b["num"], "autoconvert": ac}, dict(case, observed=got))
            # reflected comparison with the bare number on the left
            if b["num"] and op in ("eq", "ne", "lt", "le", "gt", "ge"):
                mirror = {"eq": "eq", "ne": "ne", "lt": "gt", "le": "ge", "gt": "lt", "ge": "le"}[op]
                try:
                    got2 = qr.project(qr.BIN[mirror](y, x))
                except Exception as e:
                    got2 = {"k": qr.kind_of_exception(e)}
                if got2 != exp:
                    chk.diverge({"clause": "result-reflected", "op": op, "class": cls, "autoconvert": ac}, dict(case, observed=got2))
        chk.traces += len(cases)
        # ordering across dimensions raises DimensionalityError also while a context linking them is active
        ctx = pint_context()
        ureg.add_context(ctx)
        with ureg.context("link"):
            for st in cases:
                a, b, op = st["a"], st["b"], st["op"]
                if b["num"] or op not in ("lt", "le", "gt", "ge") or st["res"]["k"] != "dimerr":
                    continue
                x, y = qr.mkq(ureg, a), qr.mkq(ureg, b)
                try:
                    got = qr.project(qr.apply(op, x, y))
                except Exception as e:
                    got = {"k": qr.kind_of_exception(e)}
                chk.case(("ctx", ac, op, a, b))
                if got != {"k": "dimerr"}:
                    chk.diverge({"clause": "cross-dimension-ordering-under-context", "op": op, "observed": got["k"], "autoconvert": ac},
                                {"registry": lines, "a": a, "b": b, "op": op, "context": "[L] <-> [T], [L] <-> [Th]"})
        # Unit objects are ordered as the quantities 1 * unit are (whose answers are checked against the model above); == on units is the
        # structural equality of C04 (kelvin != delta_degC although 1 K == 1 delta_degC), so only its agreement with hash is checked here
        names = sorted(reg["units"])
        for an in names:
            for bn in names:
                for op in ("lt", "le", "gt", "ge", "hash"):
                    chk.case(("unit-cmp", ac, op, an, bn))
                    outs = []
                    for mk in (lambda n: ureg.Unit(n), lambda n: ureg.Quantity(F(1), n)):
                        try:
                            x, y = mk(an), mk(bn)
                            outs.append(qr.project(qr.apply(op, x, y)) if op != "hash" else {"k": "bool", "b": hash(x) == hash(y)})
                        except Exception as e:
                            outs.append({"k": qr.kind_of_exception(e)})
                    if op == "hash":
                        # equal units have equal hashes
                        try:
                            if (ureg.Unit(an) == ureg.Unit(bn)) and not outs[0].get("b"):
                                chk.diverge({"clause": "unit-eq-implies-hash", "autoconvert": ac}, {"registry": lines, "a": an, "b": bn})
                        except Exception:
                            pass
                        continue
                    if outs[0] != outs[1]:
                        chk.diverge({"clause": "unit-comparison-differs-from-quantity", "op": op, "autoconvert": ac},
                                    {"registry": lines, "a": an, "b": bn, "op": op, "unit_result": outs[0], "quantity_result": outs[1]})
        # NaN: never equal, not even to itself; != is the negation (relational, harness side)
        for uname in ("m", "cm", "pct", "delta_C"):
            q = ureg.Quantity(math.nan, uname)
            chk.case(("nan", ac, uname))
            if (q == q) or not (q != q) or (q == ureg.Quantity(math.nan, uname)):
                chk.diverge({"clause": "nan", "autoconvert": ac}, {"unit": uname})

    nan_in_arrays(chk)
    unit_against_number(chk)
    same_object_over_time(chk)
    decimal_in_float_registry(chk)
    events = drive_default(chk, rng, 6000 if thorough else 1500)
    for e, clause in defreg.validate(chk, "Trace_Reg", events):
        cls = "root-units-differ-by-dimensionless-base-unit" if e.get("_rootdiff") else "plain"
        chk.diverge({"clause": clause, "src": "default-registry", "class": cls},
                    {k: ([[i["s"], i["e"]] for i in v] if k in ("a", "b") else v) for k, v in e.items() if not k.startswith("_")})
    return chk.finish(
        rule="cases = reachable states of MC_C05 in both registry modes (ordered pair of pool quantities or quantity and bare number, "
             "comparison operator / hash) executed on a materialised registry; distinct by (mode, op, a, b); non-trivial = operands "
             "in different units; plus constructed equal / adjacent pairs over the bundled registry validated by Trace_Reg",
        exhaustive=True)


def unit_against_number(chk):
    """a Unit compared with a bare number is the quantity 1 * unit compared with it: equal only for dimensionless units (1 percent == 0.01)"""
    import pint
    u = pint.UnitRegistry()
    for un in ("meter", "kilometer", "minute", "degree_Celsius", "percent", "radian", "dimensionless", "ppm", "kelvin", "inch"):
        U = u.Unit(un)
        f = u.Quantity(1.0, un).to_root_units().magnitude
        for n in (1, f, 1000, 60, 0.01, 1e-6, 0):
            chk.case(("unit-vs-number", un, repr(n)))
            def outcome(f):
                try:
                    return f()
                except Exception as e:
                    return type(e).__name__
            q1 = u.Quantity(1.0, un)
            got = (outcome(lambda: bool(U == n)), outcome(lambda: bool(n == U)), outcome(lambda: bool(U != n)))
            want = (outcome(lambda: bool(q1 == n)), outcome(lambda: bool(n == q1)), outcome(lambda: bool(q1 != n)))
            if got != want:
                chk.diverge({"clause": "unit-vs-number"}, {"unit": un, "number": repr(n), "unit_results": repr(got), "quantity_results": repr(want)})


def same_object_over_time(chk):
    """what a quantity compares to depends on its present magnitude and units only: an object that was compared, converted in place
    across multiplicative / offset units and compared again behaves like a freshly made one"""
    import pint
    u = pint.UnitRegistry()
    for m, a, b in ((273.15, "kelvin", "degC"), (20.0, "degC", "kelvin"), (0.0, "kelvin", "degF"), (32.0, "degF", "kelvin"), (5.0, "delta_degC", "kelvin"), (1.0, "meter", "centimeter")):
        chk.case(("same-object", m, a, b))
        q = u.Quantity(m, a)
        probes = lambda x: []
        def facts(x):
            out = {}
            for name, f in (("== 0 K", lambda: bool(x == u.Quantity(0.0, "kelvin"))), ("== 0", lambda: bool(x == 0)), ("bool", lambda: bool(x)), ("> 0", lambda: bool(x > 0)),
                            ("< 1 K", lambda: bool(x < u.Quantity(1.0, "kelvin"))), ("hash", lambda: hash(x))):
                try:
                    out[name] = f()
                except Exception as e:
                    out[name] = type(e).__name__
            return out
        facts(q)                                  # the earlier comparison
        try:
            q.ito(b)
        except Exception:
            continue
        fresh = u.Quantity(q.magnitude, b)
        f1, f2 = facts(q), facts(fresh)
        if f1 != f2:
            diff = sorted(k for k in f1 if f1[k] != f2[k])
            chk.diverge({"clause": "stale-after-inplace-conversion", "fact": diff[0]}, {"from": a, "to": b, "magnitude": m, "object": {k: repr(f1[k]) for k in diff}, "fresh": {k: repr(f2[k]) for k in diff}})


def nan_in_arrays(chk):
    """NaN is never equal, not even to itself - element by element in array magnitudes, also when both sides share one array object"""
    import numpy as np
    import pint
    u = pint.UnitRegistry()
    a = np.array([1.0, np.nan, 3.0])
    q = u.Quantity(a, "meter")
    forms = {"q == q": lambda: q == q, "Q(a) == Q(a)": lambda: u.Quantity(a, "meter") == u.Quantity(a, "meter"), "q == q.copy": lambda: q == u.Quantity(a.copy(), "meter"),
             "q == q.to(cm)": lambda: q == q.to("centimeter"), "not (q != q)": lambda: ~(q != q), "not (Q(a) != Q(a))": lambda: ~(u.Quantity(a, "meter") != u.Quantity(a, "meter"))}
    for name, f in forms.items():
        chk.case(("nan-array", name))
        try:
            got = np.asarray(f()).tolist()
        except Exception as e:
            chk.diverge({"clause": "nan-array-raises", "exc": type(e).__name__}, {"form": name})
            continue
        if got != [True, False, True]:
            chk.diverge({"clause": "nan", "form": "ndarray"}, {"form": name, "expected": [True, False, True], "observed": got})


def decimal_in_float_registry(chk):
    """Decimal magnitudes in the default (float) registry: where the conversion factor is a power of ten - exactly representable as a
    decimal literal - physically equal quantities written in the two units are equal, neither smaller nor greater, and hash alike"""
    import pint
    from decimal import Decimal as D
    u = pint.UnitRegistry()
    for a, b, k in (("centimeter", "meter", D("0.01")), ("kilometer", "meter", D("1000")), ("millimeter", "meter", D("0.001")), ("gram", "kilogram", D("0.001")),
                    ("millisecond", "second", D("0.001")), ("hectopascal", "pascal", D("100")), ("microgram", "gram", D("0.000001"))):
        for m in (D(1), D("2.5"), D(-7)):
            chk.case(("decimal-float-registry", a, b, str(m)))
            x, y = u.Quantity(m, a), u.Quantity(m * k, b)
            try:
                facts = {"eq": x == y, "eq-reflected": y == x, "ne": not (x != y), "le": x <= y, "ge": x >= y, "not-lt": not (x < y), "not-gt": not (x > y), "hash": hash(x) == hash(y)}
            except Exception as e:
                chk.diverge({"clause": "decimal-comparison-raises", "exc": type(e).__name__}, {"a": str(x), "b": str(y)})
                continue
            bad = sorted(f for f, ok in facts.items() if not ok)
            if bad:
                chk.diverge({"clause": "decimal-in-float-registry", "fact": bad[0]}, {"a": str(x), "b": str(y), "failed": bad})


def pint_context():
    import pint
    c = pint.Context("link")
    for x, y, u in (("[L]", "[T]", "s/m"), ("[T]", "[L]", "m/s"), ("[L]", "[Th]", "K/m"), ("[Th]", "[L]", "m/K")):
        c.add_transformation(x, y, lambda ureg, v, u=u: v * ureg.Quantity(1, u))
    return c


def drive_default(chk, rng, n):
    import pint
    ureg = pint.UnitRegistry(non_int_type=F)
    Q = ureg.Quantity
    canon, spell, prefixes = defreg.pools()
    dims = {}
    for nm in canon:
        dims.setdefault(frozenset(dict(ureg.get_dimensionality(nm)).items()), []).append(nm)
    # ordering is claimed for positively scaled units only (electron_g_factor and friends are negative constants)
    positive = {}
    for nm in canon:
        try:
            positive[nm] = ureg.get_root_units(nm)[0] > 0
        except Exception:
            positive[nm] = False
    classes = [w for w in ([n for n in v if positive[n]] for v in dims.values()) if len(w) > 1]
    mags = [F(1), F(0), F(-3), F(7, 2), F(254, 100), F(1, 3), F(1000)]
    events = []
    while len(events) < n:
        c = rng.choice(classes)
        a, b = rng.choice(c), rng.choice(c)
        if rng.random() < 0.3:
            b = rng.choice(prefixes) + b
        am = rng.choice(mags)
        sign = rng.choice([0, 0, 1, -1])
        try:
            with alarm(5):
                qa = Q(am, a)
                bm0 = qa.to(b).magnitude
                if not isinstance(bm0, (F, int)):
                    chk.skipped += 1
                    continue
                delta = abs(F(bm0)) * F(1, 10 ** 6) + F(1, 10 ** 9)
                qb = Q(F(bm0) + sign * delta, b)
                ev = {"ev": "cmp", "a": defreg.cont({a: 1}), "b": defreg.cont({b: 1}),
                      "am": list(defreg.residues(am)), "bm0": list(defreg.residues(bm0)), "sign": sign,
                      "eq": bool(qa == qb), "ne": bool(qa != qb), "lt": bool(qa < qb), "gt": bool(qa > qb), "le": bool(qa <= qb), "ge": bool(qa >= qb),
                      "hash_eq": hash(qa) == hash(qb),
                      "_rootdiff": dict(qa.to_root_units().unit_items()) != dict(qb.to_root_units().unit_items())}
        except CaseTimeout:
            chk.skipped += 1
            continue
        except Exception as e:
            chk.diverge({"clause": "comparison-raises", "exc": type(e).__name__, "src": "default-registry"}, {"a": a, "b": b, "am": am})
            continue
        events.append(ev)
        chk.case(("cmp", a, b, am, sign))
    for e in events[:2]:
        chk.samples.append({k: ([[i["s"], i["e"]] for i in v] if k in ("a", "b") else v) for k, v in e.items()})
    return events


def replay(chk, rec):
    import json
    print(json.dumps(rec["detail"], indent=1)[:4000])
    chk.seed = rec.get("seed", 0)
    return run(chk)
