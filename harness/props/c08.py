"""C08 - unit names resolve deterministically: exact names first, then prefix + unit + plural.

1. TLC law run  : MC_C08: 672 registries with colliding short spellings x all strings of length <= 4: the candidate loop of
                  the library (suffix-major, prefix insertion order, de-duplication, exact hit first) stays within the declarative
                  readings, is undefined exactly when there is none, never prefixes an offset unit.
2. spec -> code : registries with 3 units / 2 prefixes materialised (definition text), every string of length <= 3 resolved through
                  get_name, parse_units, Quantity construction, get_symbol, `in`, in two different lookup orders (history), with
                  case_sensitive False as well; three PYTHONHASHSEEDs in the thorough tier.
3. code -> spec : bundled registry: prefix x spelling x plural strings (10^4 seeded; all ~1.4e5 in thorough), canonical name and
                  root factor recomputed by Trace_Names from the reader's spelling tables; symbols; offset units refuse prefixes;
                  compound expressions read offset units as deltas unless disabled.
"""
import os
import random
from fractions import Fraction as F

from .. import defreg, reader, tlaval
from ..engine import MachineryError

PVAL = {"k": F(10), "m": F(1, 10), "ma": F(7)}
UVAL = {"m": F(1), "s": F(3), "a": F(5), "ms": F(11), "as": F(13), "km": F(17), "ma": F(19)}


def lines_of(t):
    """registry text of a model table: one dimension, canonical name = spelling, file order = porder"""
    out = []
    for p in t["porder"]:
        if p:
            out.append("%s- = %s" % ("".join(p), PVAL["".join(p)]))
    names = sorted(t["usp"].values(), key=lambda n: (n in t["offsetUnits"], n))      # the base unit is never the offset unit
    base = names[0]
    out.append("%s = [D]" % base)
    for n in names[1:]:
        out.append("%s = %s * %s%s" % (n, UVAL[n], base, "; offset: 5" if n in t["offsetUnits"] else ""))
    return out, base


def real_resolve(u, s):
    import pint
    try:
        return ("ok", u.get_name(s))
    except pint.UndefinedUnitError:
        return ("undef", "")
    except pint.OffsetUnitCalculusError:
        return ("offset", "")
    except Exception as e:
        return ("err:" + type(e).__name__, "")


def run(chk):
    import pint
    rng = random.Random(chk.seed)
    thorough = chk.tier == "thorough"
    chk.tlc("laws", "MC_C08", "MC_C08.cfg")
    wd = chk.workdir("gen")
    dump = os.path.join(wd, "n.dump")
    chk.tlc("gen", "MC_C08", "MC_C08_gen.cfg", wd=wd, args=["-dump", dump], count=False)
    regs = {}
    for st in tlaval.parse_states(open(dump).read()):
        if st["stage"] == 2:
            key = repr(st["t"])
            regs.setdefault(key, (st["t"], []))[1].append(("".join(st["s"]), st["res"]))
    os.remove(dump)
    if len(regs) < 100:
        raise MachineryError("generator produced only %d registries" % len(regs))
    chk.mark("tlc")
    for key, (t, cases) in regs.items():
        t = {"usp": {"".join(k): v for k, v in t["usp"].items()}, "porder": t["porder"], "offsetUnits": set(t["offsetUnits"])}
        lines, base = lines_of(t)
        try:
            u1 = pint.UnitRegistry(lines, non_int_type=F)
            u2 = pint.UnitRegistry(lines, non_int_type=F)
            uci = pint.UnitRegistry(lines, non_int_type=F, case_sensitive=False)
        except Exception as e:
            chk.diverge({"clause": "load", "exc": type(e).__name__}, {"lines": lines})
            continue
        cases = sorted(cases)
        for order, u in ((cases, u1), (cases[::-1], u2)):
            for s, res in order:
                want = (res["kind"], res["prefix"] + res["unit"] if res["kind"] == "ok" else "")
                got = real_resolve(u, s)
                if u is u1:
                    chk.case((key, s), nontrivial=res["kind"] != "undef", sample={"registry": lines, "string": s, "expected": want})
                if got != want:
                    # is the observed reading explained by a prefixed unit that an *earlier lookup* registered (p+u becomes a
                    # unit name of its own, which can then be pluralised or prefixed again)?
                    comps = {pn + un for pn in PVAL if [c for c in pn] in [list(x) for x in t["porder"]] for un in t["usp"].values()}
                    dbl = got[0] == "ok" and any(s == pre + L + suf and (pre or suf) for L in comps for pre in [""] + list(PVAL) for suf in ("", "s"))
                    chk.diverge({"clause": "resolution", "class": "resolves-only-after-lazy-registration" if dbl else "plain",
                                 "expected": want[0], "observed": got[0], "order": "sorted" if u is u1 else "reversed"},
                                {"registry": lines, "string": s, "expected": want, "observed": got})
                    continue
                if want[0] != "ok":
                    continue
                # the prefix factor is applied exactly once; other entry points agree; canonical symbol is the definition's
                pf = PVAL.get(res["prefix"], F(1))
                exp_root = pf * UVAL[res["unit"]] if res["unit"] != base else pf
                try:
                    q = u.Quantity(F(1), s)
                    root = q.to_root_units().magnitude if res["unit"] not in t["offsetUnits"] else None
                    pu = next(iter((1 * u.parse_units(s)).unit_items()))[0]
                    contained = s in u
                except Exception as e:
                    chk.diverge({"clause": "entry-point-raises", "exc": type(e).__name__}, {"registry": lines, "string": s})
                    continue
                if root is not None and root != exp_root:
                    chk.diverge({"clause": "prefix-factor"}, {"registry": lines, "string": s, "expected": exp_root, "observed": repr(root)})
                if pu != want[1] or not contained:
                    chk.diverge({"clause": "entry-points-disagree"}, {"registry": lines, "string": s, "get_name": want[1], "parse_units": pu, "in": contained})
                # case-insensitive lookup only *adds* spellings: a correctly cased string means the same
                gci = real_resolve(uci, s)
                if gci != want:
                    chk.diverge({"clause": "case-insensitive-changes-exact-spelling", "class": "casei-ambiguity"},
                                {"registry": lines, "string": s, "case_sensitive": want, "case_insensitive": gci})
    chk.traces += len(regs)
    chk.mark("replay")
    events = drive_default(chk, rng, thorough)
    usp_, psp_, _po, _nm = defreg._cache["sp"]
    for e, clause in defreg.validate(chk, "Trace_Names", events, label="names"):
        # a string that reads only as prefix + (prefix + unit): resolvable only because an earlier lookup registered the inner
        # prefixed unit as a name of its own (the driver resolves all strings on one registry)
        raw = e["_raw"]
        lazy = clause == "resolution-kind" and e["kind"] == "ok" and any(
            raw.startswith(p1) and any(raw[len(p1):].startswith(p2) and (raw[len(p1) + len(p2):] in usp_ or raw[len(p1) + len(p2):].rstrip("s") in usp_)
                                       for p2 in psp_ if p2) for p1 in psp_ if p1)
        if lazy:
            chk.diverge({"clause": "resolution", "class": "resolves-only-after-lazy-registration", "src": "default-registry"}, {k: v for k, v in e.items() if k != "sp"})
        else:
            chk.diverge({"clause": clause, "src": "default-registry", "observed": e.get("kind")}, {k: v for k, v in e.items() if k != "sp"})
    chk.mark("default-registry")
    offsets_and_deltas(chk)
    access_forms_agree(chk)
    canonical_sweep(chk, rng, 6000 if chk.tier == "thorough" else 1500)
    return chk.finish(
        rule="cases = (registry of the MC_C08 family, string of length <= 3) resolved through five entry points in two lookup orders and "
             "case-insensitively; distinct by (registry, string); non-trivial = the string has a reading; plus prefix x spelling x plural "
             "strings of the bundled registry validated by Trace_Names",
        exhaustive=True)


def drive_default(chk, rng, thorough):
    import pint
    ureg = pint.UnitRegistry(non_int_type=F)
    R, T = defreg.table()
    usp, psp, porder, nonmult = defreg._cache["sp"]
    usl, psl = list(usp), list(psp)
    strings = set()
    if thorough:
        for p in psl:
            for s in usl:
                for x in ("", "s"):
                    strings.add(p + s + x)
    else:
        while len(strings) < 9000:
            strings.add(rng.choice(psl) + rng.choice(usl) + rng.choice(["", "s"]))
    # non-unit strings: perturbations
    for _ in range(1500 if thorough else 500):
        s = rng.choice(psl) + rng.choice(usl)
        i = rng.randrange(len(s) + 1)
        strings.add(s[:i] + rng.choice("xqzs_") + s[i:])
    events = []
    fresh = pint.UnitRegistry(non_int_type=F)
    for s in sorted(strings):
        if s == "" or s == "dimensionless":
            continue
        kind, name = real_resolve(fresh, s)
        ev = {"ev": "name", "s": reader.esc(s), "sp": reader.splits_of(s), "kind": kind if not kind.startswith("err") else "err", "name": reader.esc(name) if name else "",
              "num": [0, 0], "den": [1, 1], "hasroot": False, "symbol": "", "_raw": s}
        if kind == "ok":
            try:
                f, _ = fresh.get_root_units(fresh.UnitsContainer({name: 1}))
                if isinstance(f, (F, int)):
                    ev["num"], ev["den"] = defreg.residues(f)
                    ev["hasroot"] = True
            except Exception:
                pass
        events.append(ev)
        chk.case(("name", s), nontrivial=kind == "ok")
    chk.samples.append({"default_registry_event": {k: v for k, v in events[len(events) // 2].items() if k != "sp"}})
    # case-insensitive lookup only adds spellings: prefix + symbol strings whose unit part collides with another unit up to
    # letter case (m / M, s / S, g / G, h / H, ...) must keep their case-sensitive meaning
    uci = pint.UnitRegistry(non_int_type=F, case_sensitive=False)
    lower = {}
    for sp_, cn_ in usp.items():
        lower.setdefault(sp_.lower(), set()).add(cn_)
    colliding = [sp_ for sp_ in usp if len(lower[sp_.lower()]) > 1 and sp_.isidentifier()]
    for sp_ in colliding:
        for pre in porder:
            for suf in ("", "s"):
                s_ = pre + sp_ + suf
                # skip strings for which an earlier candidate (prefix earlier in file order, case-variant unit part) exists:
                # the statement does not rank those against the exact-case reading
                earlier = False
                for p2 in porder:
                    if p2 == pre:
                        break
                    if s_.startswith(p2) and (s_[len(p2):].lower() in lower or (s_.endswith("s") and s_[len(p2):-1].lower() in lower)):
                        earlier = True
                        break
                if earlier or not s_.isidentifier():
                    continue
                a, b = real_resolve(fresh, s_), real_resolve(uci, s_)
                chk.case(("casei", s_))
                if a[0] == "ok" and a != b:
                    chk.diverge({"clause": "case-insensitive-changes-exact-spelling", "class": "casei-ambiguity", "src": "default-registry"},
                                {"string": s_, "case_sensitive": a, "case_insensitive": b})
    # spellings with letters outside ASCII (micro sign, ohm sign, angstrom ...): lower() and casefold() differ on some of them; a
    # correctly cased spelling keeps its meaning in the case-insensitive registry - bare, prefixed, plural, and through get_symbol
    nonascii = sorted(sp_ for sp_ in usp if not sp_.isascii() and sp_.isidentifier())
    if len(nonascii) < 10:
        raise MachineryError("only %d non-ASCII spellings in the definition files" % len(nonascii))
    for sp_ in nonascii:
        for pre in ("", "k", "kilo", "m", "µ"):
            for suf in ("", "s"):
                s_ = pre + sp_ + suf
                a, b = real_resolve(fresh, s_), real_resolve(uci, s_)
                chk.case(("casei-nonascii", s_))
                if a[0] == "ok" and a != b:
                    chk.diverge({"clause": "case-insensitive-changes-exact-spelling", "class": "non-ascii", "src": "default-registry"},
                                {"string": s_, "case_sensitive": a, "case_insensitive": b})
        # the same spelling inside a unit expression (parse_units / Quantity) is the unit get_name reports, character for character -
        # no Unicode normalisation may fold it into another spelling (U+210E PLANCK CONSTANT is not the letter h)
        try:
            want_name = fresh.get_name(sp_)
        except Exception:
            want_name = None
        if want_name is not None:
            for fn, call in (("parse_units", lambda: dict((1 * fresh.parse_units(sp_)).unit_items())), ("Quantity", lambda: dict(fresh.Quantity(2, sp_).unit_items())),
                             ("parse_expression", lambda: dict(fresh.parse_expression("3 " + sp_).unit_items()))):
                chk.case(("nonascii-in-expression", sp_, fn))
                try:
                    got = call()
                except Exception as e:
                    got = "EXC:" + type(e).__name__
                if got == "EXC:OffsetUnitCalculusError" and fn == "parse_expression":
                    continue                  # "3 degC": a number times an offset unit is refused (C06)
                if got != {want_name: 1} and not want_name.startswith("delta_") and got != {"delta_" + want_name: 1}:
                    chk.diverge({"clause": "spelling-in-expression-differs", "class": "non-ascii", "form": fn}, {"string": sp_, "get_name": want_name, "observed": repr(got)})
        for fn in ("get_symbol", "get_name"):
            try:
                a = getattr(fresh, fn)(sp_)
            except Exception:
                continue
            try:
                b = getattr(uci, fn)(sp_)
            except Exception as e:
                b = "EXC:" + type(e).__name__
            if a != b:
                chk.diverge({"clause": "case-insensitive-changes-exact-spelling", "class": "non-ascii", "src": "default-registry", "form": fn},
                            {"string": sp_, "case_sensitive": a, "case_insensitive": b})
    return events


def offsets_and_deltas(chk):
    """offset units cannot be prefixed; in compound expressions offset units are read as deltas unless disabled;
    canonical name and symbol are the definition's."""
    import pint
    u = pint.UnitRegistry()
    for s in ("millidegC", "kilodegree_Celsius", "microdegF", "kdegC"):
        chk.case(("offset-prefix", s))
        try:
            u.Quantity(1, s)
            chk.diverge({"clause": "offset-unit-prefixed"}, {"string": s})
        except (pint.OffsetUnitCalculusError, pint.UndefinedUnitError):
            pass
        except Exception as e:
            chk.diverge({"clause": "offset-unit-prefix-wrong-error", "exc": type(e).__name__}, {"string": s})
    for expr, want_delta in (("degC/meter", True), ("degF**2", True), ("joule/(kg*degC)", True), ("degC", False), ("meter*degC", True)):
        for as_delta, reg in ((None, u), (False, u), (True, u), ("registry-off", pint.UnitRegistry(default_as_delta=False))):
            chk.case(("as_delta", expr, str(as_delta)))
            try:
                un = reg.parse_units(expr) if as_delta in (None, "registry-off") else reg.parse_units(expr, as_delta=as_delta)
            except Exception as e:
                chk.diverge({"clause": "as-delta-raises", "exc": type(e).__name__}, {"expr": expr, "as_delta": str(as_delta)})
                continue
            names = [k for k, _ in (1 * un).unit_items()] if not expr == "degC" or True else []
            has_delta = any(n.startswith("delta_") for n in names)
            expect = want_delta and as_delta not in (False, "registry-off")
            if has_delta != expect:
                chk.diverge({"clause": "as-delta", "as_delta": str(as_delta)}, {"expr": expr, "units": names, "expected_delta": expect})
    for s, (name, sym) in {"m": ("meter", "m"), "metre": ("meter", "m"), "kilometers": ("kilometer", "km"), "µs": ("microsecond", "µs"),
                           "inches": ("inch", "in"), "lbs": ("pound", "lb"), "degC": ("degree_Celsius", "°C"), "Hz": ("hertz", "Hz")}.items():
        chk.case(("canonical", s))
        try:
            got = (u.get_name(s), u.get_symbol(s))
        except Exception as e:
            chk.diverge({"clause": "canonical-raises", "exc": type(e).__name__}, {"string": s})
            continue
        if got != (name, sym):
            chk.diverge({"clause": "canonical-name-symbol"}, {"string": s, "expected": [name, sym], "observed": list(got)})


def access_forms_agree(chk):
    """ureg.<name>, getattr, `name in ureg` and ureg[...]-style lookups agree with parse_units for every accepted spelling - also for
    names with unusual shapes (double underscores inside, trailing digits, a leading underscore is reserved for Python attributes)"""
    import pint
    lines = ["k- = 1000 = k-", "half__life = [T] = hl__s", "t__half = 3 half__life", "x2 = 5 half__life = x_2", "plain = 7 half__life"]
    u = pint.UnitRegistry(lines)
    for s_ in ("half__life", "hl__s", "t__half", "khalf__life", "t__halfs", "x2", "x_2", "kx2", "plain", "plains", "kplain", "nosuch", "k__plain"):
        chk.case(("access-forms", s_))
        try:
            want = dict((1 * u.parse_units(s_)).unit_items())
        except pint.UndefinedUnitError:
            want = None
        forms = {}
        try:
            forms["getattr"] = dict((1 * getattr(u, s_)).unit_items())
        except (pint.UndefinedUnitError, AttributeError) as e:
            forms["getattr"] = None if isinstance(e, pint.UndefinedUnitError) else "AttributeError"
        except Exception as e:
            forms["getattr"] = "EXC:" + type(e).__name__
        try:
            forms["in"] = (s_ in u)
        except Exception as e:
            forms["in"] = "EXC:" + type(e).__name__
        try:
            forms["Quantity"] = dict(u.Quantity(1, s_).unit_items())
        except pint.UndefinedUnitError:
            forms["Quantity"] = None
        except Exception as e:
            forms["Quantity"] = "EXC:" + type(e).__name__
        ok = forms["getattr"] == want and forms["Quantity"] == want and forms["in"] == (want is not None)
        if not ok:
            chk.diverge({"clause": "access-forms-disagree", "form": next(k for k in forms if forms[k] != (want if k != "in" else want is not None))},
                        {"registry": lines, "string": s_, "parse_units": repr(want), "forms": {k: repr(v) for k, v in forms.items()}})


def canonical_sweep(chk, rng, n):
    """the canonical name and the symbol reported for an accepted spelling are those of the definitions: prefix name + unit name, and
    prefix symbol + unit symbol (a unit without a symbol of its own contributes its name) - computed from the reader's tables"""
    import pint
    u = pint.UnitRegistry()
    R, T = defreg.table()
    usp, psp = defreg._cache["sp"][0], defreg._cache["sp"][1]
    canon, spell, prefixes = defreg.pools()
    pool = [(p_, s_, suf) for p_ in [""] + prefixes for s_ in ("bit", "bar", "torr", "meter", "byte", "B", "gram", "second", "Hz", "fortnight", "month", "Pa", "liter", "L", "eV", "watt_hour")
            for suf in ("",)]
    pool += [(rng.choice([""] + prefixes), rng.choice(spell), rng.choice(["", "", "s"])) for _ in range(n)]
    seen = set()
    for p_, s_, suf in pool:
        text = p_ + s_ + suf
        if text in seen or not text.isidentifier():
            continue
        seen.add(text)
        rd = defreg.readings(text)
        if len(rd) != 1:
            continue                                   # ambiguous or not a unit: resolution order is checked elsewhere
        (pn, cn), = rd
        if cn.startswith("delta_") or cn not in R["units"]:
            continue
        if len(defreg.readings(cn)) > 1 or (suf and len(s_) < 3):
            # (a defined name that also reads as prefix + unit of equal value - kilometer_per_second = kilo + meter_per_second - is
            #  deliberately reported through the prefixed reading by pint's candidate de-duplication; very short stems take no plural s)
            continue
        pd = R["prefixes"].get(pn) if pn else None
        want = (pn + cn, ((pd["symbol"] or pn) if pd else "") + (R["units"][cn]["symbol"] or cn))
        chk.case(("canonical-sweep", text))
        try:
            got = (u.get_name(text), u.get_symbol(text))
        except Exception as e:
            chk.diverge({"clause": "canonical-raises", "exc": type(e).__name__}, {"string": text})
            continue
        if got != want:
            chk.diverge({"clause": "canonical-name-symbol", "which": "name" if got[0] != want[0] else "symbol", "prefixed": bool(pn), "unit_has_symbol": bool(R["units"][cn]["symbol"])},
                        {"string": text, "expected": list(want), "observed": list(got)})


def replay(chk, rec):
    import json
    print(json.dumps(rec["detail"], indent=1)[:4000])
    chk.seed = rec.get("seed", 0)
    return run(chk)
