"""C12 - context activation is scoped, stack-like, atomic and leaves no residue.

1. TLC law run  : MC_Pint (PintRegistry.tla): all operation sequences up to length 4 (quick) / 5 (thorough) over
                  enable / enable of two names in one call / disable / with-enter (one or two names) / with-exit (normal, by exception) / define /
                  default-system / query with
                  a pool of contexts (rules with parameter, redefinition, both, ill-formed): StackDiscipline, AtomicFailure,
                  NoResidue, Transparent as action properties.
2. spec -> code : every behaviour of length 3 (quick: all without a two-name step and a fixed quarter of those with one; exhaustive, with the expected stack and probe vector after each step in the
                  history variable) and simulated behaviours of length 8 are executed on a fresh real registry with real
                  with-blocks and real exceptions; after *every* step the stack and all probes are compared.
   Context objects (defaults, redefinitions, rule tables) must be unchanged by activation, also when shared by two registries.
"""
import os
import random
from fractions import Fraction as F

from .. import pintmachine as pm
from ..engine import MachineryError


def generate(chk, thorough):
    chk.tlc("laws", "MC_Pint", "MC_Pint.cfg" if thorough else "MC_Pint_q.cfg", timeout=3600)
    wd = chk.workdir("gen")
    dump = os.path.join(wd, "pint.dump")
    g = chk.tlc("gen", "MC_Pint", "MC_Pint_gen.cfg", wd=wd, args=["-dump", dump], count=False)
    const = pm.parse_const(g.out)
    behs = pm.thin_two_name(pm.behaviours_from_dump(dump, 3), thorough)
    os.remove(dump)
    if len(behs) < 500:
        raise MachineryError("generator produced only %d behaviours" % len(behs))
    return pm.Model(const), behs, []


def ctx_snapshot(u, names):
    out = {}
    for n in names:
        c = u._contexts[n] if hasattr(u, "_contexts") else None
        if c is None:
            continue
        out[n] = (repr(sorted(c.defaults.items())), repr([(r.name, str(r.reference) if hasattr(r, "reference") else repr(r)) for r in c.redefinitions]) if False else len(c.redefinitions),
                  tuple(sorted(repr(k) for k in c.funcs)))
    return out


def run(chk):
    rng = random.Random(chk.seed)
    thorough = chk.tier == "thorough"
    model, behs, sims = generate(chk, thorough)
    ops_seen = set()
    # behaviours that differ only in the specification's nondeterministic choices (which enclosing context lends a
    # parameter) are variants of one operation sequence: the real execution must agree with at least one of them
    groups = {}
    for hist in behs + sims:
        groups.setdefault(tuple(repr(h["op"]) for h in hist), []).append(hist)
    for opkey, variants in groups.items():
        hist0 = variants[0]
        st = pm.Stepper(model)
        names = list(model.c["ctxs"])
        snap0 = ctx_snapshot(st.u, names)
        chk.case(opkey, nontrivial=any(h["op"][0] in ("enable", "with_enter", "enable2", "with_enter2") for h in hist0),
                 sample={"ops": [h["op"] for h in hist0], "final_stack": [a["ctx"] for a in hist0[-1]["stack"]]})
        alive = list(variants)
        masked = set()          # probe keys already reported as a known finding in this behaviour: later steps still checked
        for k in range(len(hist0)):
            ops_seen.add(hist0[k]["op"][0])
            res, _ = st.step(hist0[k]["op"])
            got_stack = pm.stack_names(st.u)
            got = {key: pm.probe(st.u, key) for key in hist0[k]["obs"]}
            fails = []              # per variant: list of (clause, key, info)
            for hist in alive:
                h = hist[k]
                f = []
                if res != h["res"]:
                    f.append(("outcome", None, {"expected": h["res"], "observed": res}))
                elif got_stack is not None and got_stack != [a["ctx"] for a in h["stack"]]:
                    f.append(("stack", None, {"expected": [a["ctx"] for a in h["stack"]], "observed": got_stack}))
                else:
                    for key, answers in h["obs"].items():
                        if key not in masked and not pm.matches(key, got[key], answers):
                            f.append(("probe", key, {"probe": key, "expected": sorted(map(repr, pm.allowed(key, answers))), "observed": repr(got[key])}))
                fails.append(f)
            still = [hist for hist, f in zip(alive, fails) if not f]
            if still:
                alive = still
                continue
            # every variant disagrees: report the failures of the variant with the fewest of them
            hist, f = min(zip(alive, fails), key=lambda x: len(x[1]))
            fatal = False
            for clause, key, info in f:
                cls = pm.classify(hist, k, key)
                verdict = chk.diverge(dict(cls, clause=clause), dict(info, registry=model.lines(), ops=[x["op"] for x in hist[:k + 1]], step=k))
                if verdict == "known" and key is not None:
                    masked.add(key)
                else:
                    fatal = True
            if fatal:
                break
        if ctx_snapshot(st.u, names) != snap0:
            chk.diverge({"clause": "context-object-modified"}, {"ops": [x["op"] for x in hist0]})
    chk.traces += len(behs) + len(sims)
    if not {"enable", "enable2", "disable", "with_enter", "with_enter2", "with_exit", "define", "setsys", "query"} <= ops_seen:
        raise MachineryError("vacuous generator: operations seen %s" % sorted(ops_seen))
    # code -> spec: long random histories on real registries, every step's full probe vector validated by Trace_Pint
    events, _ = pm.random_histories(model, rng, 400 if thorough else 60, 25, dense=True)
    for e, clause, prefix in pm.validate_histories(chk, events):
        ops = [x["op"] for x in prefix if x["tid"] == e["tid"]]
        hist = [{"op": o, "res": x["res"], "stack": [{"ctx": c} for c in x.get("stack", [])]} for o, x in
                zip(ops, [x for x in prefix if x["tid"] == e["tid"]])]
        key = clause.split(":")[1:] if clause.startswith("probe:") else None
        cls = pm.classify(hist, len(hist) - 1, key)
        chk.diverge(dict(cls, clause=clause.split(":")[0]), {"ops": ops, "event": e, "registry": model.lines()})
    chk.notes["trace_events"] = len(events)
    for e in events[:1]:
        chk.samples.append({"trace_event": {k: v for k, v in e.items() if k != "probes"}, "n_probes": len(e["probes"])})
    shared_contexts(chk, model)
    decorated_function_raises(chk, model)
    per_call_failure(chk, model)
    return chk.finish(
        rule="cases = behaviours of PintRegistry (MC_Pint): all of length 3, each executed step by "
             "step on a fresh real registry with the full probe vector compared after every step, plus random histories of 25 calls validated by Trace_Pint; distinct by operation sequence; "
             "non-trivial = contains an activation",
        exhaustive=True)


def shared_contexts(chk, model):
    """One Context object in two registries; re-entered with different parameters: never modified by activation."""
    import pint
    u1, u2 = model.registry(), model.registry()
    shared = model.context("R")
    shared.name = "SH"
    u1.add_context(shared)
    u2.add_context(shared)
    before = (dict(shared.defaults), len(shared.redefinitions), sorted(map(repr, shared.funcs)))
    key = ("conv", "a", "b")
    base2 = pm.probe(u2, key)
    u1.enable_contexts("SH", p=F(5))
    in2 = pm.probe(u2, key)
    with u2.context("SH"):
        d2 = pm.probe(u2, key)
    with u1.context("SH", p=F(7)):
        pass
    d1 = pm.probe(u1, key)
    u1.disable_contexts()
    after = (dict(shared.defaults), len(shared.redefinitions), sorted(map(repr, shared.funcs)))
    chk.case(("shared-context",))
    if before != after:
        chk.diverge({"clause": "shared-context-modified"}, {"before": repr(before), "after": repr(after)})
    if in2 != base2 or in2[0] != "dimerr":
        chk.diverge({"clause": "activation-leaks-to-other-registry"}, {"before": repr(base2), "after": repr(in2)})
    if d2 != ("ok", F(3) * 2 * 2) or d1 != ("ok", F(3) * 2 * 5):      # coef 2, default p = 2 resp. the p = 5 still enabled
        chk.diverge({"clause": "shared-context-parameters"}, {"u2_default": repr(d2), "u1_after_reentry": repr(d1)})


def decorated_function_raises(chk, model):
    """@ureg.with_context(c) is WithEnter(c) . body . WithExit: also when the body raises, alone or inside another with-block"""
    keys = [("conv", "a", "b"), ("conv", "b", "a"), ("conv", "e", "a"), ("conv", "c", "a"), ("base", "e", ""), ("gbase", "e", "")]
    names = sorted(model.c["ctxs"])
    valid = []
    for c in names:
        try:
            u = model.registry()
            with u.context(c):
                pass
            valid.append(c)
        except Exception:
            pass
    for c in valid:
        for outer in [None] + valid:
            for raises in (True, False):
                chk.case(("decorator", c, outer, raises), nontrivial=True)
                u = model.registry()

                @u.with_context(c)
                def body():
                    inside = [pm.probe(u, k) for k in keys]
                    if raises:
                        raise RuntimeError("left by an exception")
                    return inside

                def vec():
                    return [pm.probe(u, k) for k in keys]
                base = vec()
                sig = {"clause": "decorated-function", "raises": raises, "nested": outer is not None}
                try:
                    if outer is None:
                        try:
                            body()
                        except RuntimeError:
                            pass
                        after_call, after_all = vec(), None
                    else:
                        with u.context(outer):
                            in_outer = vec()
                            try:
                                body()
                            except RuntimeError:
                                pass
                            after_call = vec()
                            if after_call != in_outer:
                                chk.diverge(dict(sig, what="outer-block-disturbed"), {"context": c, "outer": outer, "before": repr(in_outer), "after": repr(after_call)})
                        after_call = vec()
                except Exception as e:
                    chk.diverge(dict(sig, what="raises", exc=type(e).__name__), {"context": c, "outer": outer})
                    continue
                if after_call != base:
                    chk.diverge(dict(sig, what="residue"), {"context": c, "outer": outer, "before": repr(base), "after": repr(after_call)})


def per_call_failure(chk, model):
    """contexts named in a single call (to / ito / m_as / convert) are WithEnter . conversion . WithExit: also when the conversion fails
    inside them (no rule for the pair, or the rule raises) nothing stays active"""
    import pint
    keys = [("conv", "a", "b"), ("conv", "b", "a"), ("conv", "e", "a"), ("conv", "c", "a"), ("base", "e", ""), ("gbase", "e", "")]
    valid = []
    for c in sorted(model.c["ctxs"]):
        try:
            u = model.registry()
            with u.context(c):
                pass
            valid.append(c)
        except Exception:
            pass
    for c in valid:
        for outer in [None] + valid[:2]:
            for form in ("to", "ito", "m_as", "convert"):
                chk.case(("per-call-failure", c, outer, form), nontrivial=True)
                u = model.registry()
                u.define("zz = [ZZ]")                      # no context links [ZZ] to anything: every conversion to it fails
                base = [pm.probe(u, k) for k in keys]
                q = u.Quantity(F(3), "a")

                def attempt():
                    try:
                        if form == "to":
                            q.to("zz", c)
                        elif form == "ito":
                            u.Quantity(F(3), "a").ito("zz", c)
                        elif form == "m_as":
                            q.m_as("zz") if False else q.to("zz", c).magnitude
                        else:
                            with u.context(c):
                                u.convert(F(3), "a", "zz")
                        return "converted"
                    except pint.DimensionalityError:
                        return "dimerr"
                    except Exception as e:
                        return "raises:" + type(e).__name__
                sig = {"clause": "per-call-context-failure", "form": form, "nested": outer is not None}
                if outer is None:
                    r = attempt()
                    after = [pm.probe(u, k) for k in keys]
                else:
                    with u.context(outer):
                        inside = [pm.probe(u, k) for k in keys]
                        r = attempt()
                        again = [pm.probe(u, k) for k in keys]
                        if again != inside:
                            chk.diverge(dict(sig, what="outer-block-disturbed"), {"context": c, "outer": outer, "before": repr(inside), "after": repr(again)})
                    after = [pm.probe(u, k) for k in keys]
                if r == "converted":
                    chk.diverge(dict(sig, what="unlinked-dimension-converted"), {"context": c, "outer": outer})
                if after != base:
                    chk.diverge(dict(sig, what="residue"), {"context": c, "outer": outer, "before": repr(base), "after": repr(after)})


def replay(chk, rec):
    import json
    print(json.dumps(rec["detail"], indent=1)[:4000])
    chk.seed = rec.get("seed", 0)
    return run(chk)
