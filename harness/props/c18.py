"""C18 - copy, pickle and tuple serialisation preserve objects; registries stay isolated.

1. TLC law run  : MC_C18 (Serial.tla): three registries (source, its deep copy, the application registry), objects owned by them,
                  operations {deep-copy the registry, assert a fact in one registry (define / group edit / context / default system),
                  make an object, serialise the last object (pickle / copy / deepcopy / tuple), combine two objects}: a serialisation
                  preserves kind and value, unpickling attaches to the application registry, copies keep their owner, a fact
                  asserted in one registry moves no other registry, a deep copy starts equal to its source.
2. spec -> code : behaviours of length 3 (a seeded sample in quick, all in thorough) on real registries: after every step the
                  observation vector of *every* existing registry must be what its own facts imply; serialised objects must be
                  equal to the original and owned as the protocol says; combining objects of different registries must raise
                  ValueError and of the same registry must not.
3. code -> spec : every class of pint.errors, quantities with int / float / Fraction / Decimal / ndarray magnitudes, units,
                  measurements and containers through pickle protocols 0-5, copy, deepcopy and to_tuple / from_tuple; prefixed units
                  that exist only after parsing; the lazily built default registry against an explicitly built one.
"""
import copy
import os
import pickle
import random
from decimal import Decimal
from fractions import Fraction as F

from .. import tlaval
from ..engine import MachineryError

LINES = ["k- = 1000", "M- = 1000000", "a = [A]", "b = [B]", "c = 3 * a", "e = 5 * c", "@group g1", "@end", "@group g2 using g1", "@end",
         "@context c1", "    [A] -> [B]: value * 7 * b / a", "@end", "@system S using g2", "    c", "@end"]


def build():
    import pint
    return pint.UnitRegistry(LINES, non_int_type=F)


def assert_fact(u, f):
    if f == "define":
        u.define("new1 = 11 * a")
        u.define("E = 17 * a")              # a twin, up to letter case, of the unit "e": the case-insensitive index gains an entry
    elif f == "group":
        u.get_group("g1").add_units("b")
    elif f == "context":
        u.enable_contexts("c1")
    elif f == "system":
        u.default_system = "S"


def observe(u):
    """the facts a registry exhibits, read back through its public answers"""
    import pint
    facts = set()
    try:
        u.Quantity(F(1), "new1").to("a")
        facts.add("define")
    except pint.UndefinedUnitError:
        pass
    # ... and every way of asking knows the unit exactly where it was defined (base-unit questions have their own table)
    try:
        u.get_base_units("new1")
        via_base = True
    except pint.UndefinedUnitError:
        via_base = False
    except Exception as ex:
        via_base = "EXC:" + type(ex).__name__
    if via_base != ("define" in facts):
        facts.add("define-seen-by-get_base_units:%s" % via_base)
    # the case-insensitive index is the registry's own as well: "E" is the new unit where it was defined, the old "e" elsewhere
    try:
        twin = (u.get_name("E", case_sensitive=False), u.get_name("e", case_sensitive=False))
    except Exception as ex:
        twin = ("EXC:" + type(ex).__name__,)
    if twin != (("E", "e") if "define" in facts else ("e", "e")):
        facts.add("case-insensitive-index:%s" % (twin,))
    views = ("b" in u.get_group("g1").members, "b" in u.get_group("g2").members, "b" in u.get_system("S").members)
    if all(views):
        facts.add("group")
    elif any(views):
        facts.add("group-partially:%s" % (views,))      # the direct group, the group using it and the system using that must agree
    try:
        u.Quantity(F(1), "a").to("b")
        facts.add("context")
    except pint.DimensionalityError:
        pass
    if dict(u.Quantity(F(1), "e").to_base_units().unit_items()) == {"c": 1}:
        facts.add("system")
    return facts


PREFIXED = {"km": "ka", "uF": "Mc"}


def make(u, kind, val):
    m, un = val.split()
    un = PREFIXED[un]                 # prefixed units of the tiny registry ("Mc" is parsed here for the first time)
    if kind == "quantity":
        return u.Quantity(F(m), un)
    if kind == "unit":
        return u.Unit(un)
    return u.Quantity(float(m), un).plus_minus(0.25)


def owner_of(regs, o):
    for name, r in regs.items():
        if getattr(o, "_REGISTRY", None) is r:
            return name
    return "?"


def equal_obj(a, b, kind):
    if kind == "measurement":
        return (a.value.magnitude, a.error.magnitude, str(a.units)) == (b.value.magnitude, b.error.magnitude, str(b.units))
    if kind == "unit":
        return dict((1 * a).unit_items()) == dict((1 * b).unit_items())
    return a.magnitude == b.magnitude and dict(a.unit_items()) == dict(b.unit_items())


def run(chk):
    import pint
    rng = random.Random(chk.seed)
    thorough = chk.tier == "thorough"
    chk.tlc("laws", "MC_C18", "MC_C18.cfg")
    wd = chk.workdir("gen")
    dump = os.path.join(wd, "s.dump")
    chk.tlc("gen", "MC_C18", "MC_C18_gen.cfg", wd=wd, args=["-dump", dump], count=False)
    behs = [st["hist"] for st in tlaval.parse_states(open(dump).read()) if len(st["hist"]) == 3]
    os.remove(dump)
    if len(behs) < 5000:
        raise MachineryError("generator produced only %d behaviours" % len(behs))
    if not thorough:
        # the rare interactions are always replayed; the rest is sampled
        def rare(hist):
            ops = [h["op"] for h in hist]
            names = [o[0] for o in ops]
            return ("overlay-parse" in names and any(o[0] == "serialize" and o[1] == "pickle" for o in ops)) \
                or (names[0] == "deepcopy-registry" and names[1] == "mutate" and names[2] == "mutate") \
                or (names == ["mutate", "deepcopy-registry", "mutate"])
        must = [b for b in behs if rare(b)]
        rest = [b for b in behs if not rare(b)]
        behs = must + rng.sample(rest, max(0, 1500 - len(must)))
        chk.notes["always_replayed"] = len(must)
    saved_app = pint.get_application_registry().get()
    ops_seen = set()
    try:
        for hist in behs:
            regs = {"src": build(), "app": build()}
            pint.set_application_registry(regs["app"])
            objs = []            # (abstract record, real object)
            last = None
            chk.case(tuple(repr(h["op"]) for h in hist), nontrivial=any(h["op"][0] in ("serialize", "op", "deepcopy-registry") for h in hist),
                     sample={"ops": [h["op"] for h in hist]})
            for k, h in enumerate(hist):
                op = h["op"]
                ops_seen.add(op[0])
                sig = {"op": op[0], "how": op[1] if op[0] == "serialize" else None}
                try:
                    if op[0] == "deepcopy-registry":
                        regs["copy"] = copy.deepcopy(regs["src"])
                    elif op[0] == "mutate":
                        assert_fact(regs[op[1]], op[2])
                    elif op[0] == "overlay-parse":
                        u = regs[op[1]]
                        with u.context(pint.Context.from_lines(["@context scratch", "e = 4 * a"])):
                            u.parse_units(PREFIXED[op[2]])
                            u.Quantity(F(2), PREFIXED[op[2]]).to_base_units()
                    elif op[0] == "make":
                        last = ({"kind": op[2], "val": op[3], "owner": op[1]}, make(regs[op[1]], op[2], op[3]))
                        objs.append(last)
                    elif op[0] == "serialize":
                        rec, o = last
                        how, target = op[1], op[2]
                        if how == "pickle":
                            n = pickle.loads(pickle.dumps(o, rng.randrange(0, pickle.HIGHEST_PROTOCOL + 1)))
                            owner = "app"
                        elif how == "copy":
                            n, owner = copy.copy(o), rec["owner"]
                        elif how == "deepcopy":
                            n, owner = copy.deepcopy(o), rec["owner"]
                        else:
                            if rec["kind"] == "unit":
                                n, owner = regs[target].Unit(regs[target].UnitsContainer(dict((1 * o).unit_items()))), target
                            elif rec["kind"] == "measurement":
                                n, owner = regs[target].Measurement(o.value.magnitude, o.error.magnitude, str(o.units)), target
                            else:
                                n, owner = regs[target].Quantity.from_tuple(o.to_tuple()), target
                        if not equal_obj(o, n, rec["kind"]):
                            chk.diverge(dict(sig, clause="round-trip-changes-object", kind=rec["kind"]), {"ops": [x["op"] for x in hist[:k + 1]], "before": repr(o), "after": repr(n)})
                        got_owner = owner_of(regs, n)
                        if got_owner != owner:
                            chk.diverge(dict(sig, clause="owner", kind=rec["kind"], expected=owner, observed=got_owner), {"ops": [x["op"] for x in hist[:k + 1]]})
                        last = ({"kind": rec["kind"], "val": rec["val"], "owner": owner}, n)
                        objs.append(last)
                        # the new object is a working member of its registry: it behaves like the same object made there directly
                        # (a container taken as given by from_tuple may mention a prefixed unit its registry has not registered yet: such an
                        #  object is nevertheless a working member of its registry - prefixed units are defined on the fly when first needed)
                        if True:
                            if how == "pickle" and PREFIXED[rec["val"].split()[1]] not in set(iter(regs["app"])):
                                chk.diverge({"clause": "prefixed-unit-not-registered", "registry": "app", "op": "serialize", "how": "pickle"}, {"ops": [x["op"] for x in hist[:k + 1]]})
                            try:
                                shown = format(n, "~")                       # before anything else touches the registry
                                ref = make(regs[owner], rec["kind"], rec["val"])
                                val = lambda x: x if rec["kind"] == "quantity" else 1 * x if rec["kind"] == "unit" else x.value
                                ok = shown == format(ref, "~") and val(n).to_base_units().magnitude == val(ref).to_base_units().magnitude \
                                    and dict(val(n).to_base_units().unit_items()) == dict(val(ref).to_base_units().unit_items())
                                err = None
                            except Exception as ex:
                                ok, err = False, repr(ex)[:200]
                            if not ok:
                                chk.diverge(dict(sig, clause="serialised-object-unusable", kind=rec["kind"]), {"ops": [x["op"] for x in hist[:k + 1]], "error": err})
                    elif op[0] == "op":
                        cands_a = [o for r, o in objs if r["kind"] == "quantity" and r["owner"] == op[1]]
                        cands_b = [o for r, o in objs if r["kind"] == "quantity" and r["owner"] == op[2]]
                        if cands_a and cands_b:
                            for name, fn in (("add", lambda x, y: x + y), ("lt", lambda x, y: x < y), ("mul", lambda x, y: x * y), ("le-same-units", lambda x, y: x.to("ka") <= y.to("ka"))):
                                try:
                                    fn(cands_a[0], cands_b[-1])
                                    res = "ok"
                                except ValueError:
                                    res = "valueerr"
                                except Exception as e:
                                    res = "other:" + type(e).__name__
                                if res != h["res"]:
                                    chk.diverge(dict(sig, clause="cross-registry-operation", form=name, expected=h["res"], observed=res), {"ops": [x["op"] for x in hist[:k + 1]]})
                except Exception as e:
                    chk.diverge(dict(sig, clause="operation-raises", exc=type(e).__name__), {"ops": [x["op"] for x in hist[:k + 1]], "error": repr(e)[:300]})
                    break
                # every existing registry exhibits exactly its own facts
                for rname in h["exists"]:
                    missing = sorted(PREFIXED[n] for n in h["known"][rname] if PREFIXED[n] not in set(iter(regs[rname])))
                    if missing:
                        chk.diverge({"clause": "prefixed-unit-not-registered", "registry": rname, "op": op[0], "how": op[1] if op[0] == "serialize" else None},
                                    {"ops": [x["op"] for x in hist[:k + 1]], "registry": rname, "missing": missing})
                    want = set(h["decl"][rname])
                    got = observe(regs[rname])
                    if got != want:
                        leaked = sorted(got - want)
                        chk.diverge({"clause": "registry-isolation", "registry": rname, "op": op[0], "fact": op[2] if op[0] == "mutate" else None,
                                     "leaked": leaked[0] if leaked else None, "lost": sorted(want - got)[0] if want - got else None},
                                    {"ops": [x["op"] for x in hist[:k + 1]], "registry": rname, "expected": sorted(want), "observed": sorted(got)})
    finally:
        pint.set_application_registry(saved_app)
    chk.traces += len(behs)
    if not {"deepcopy-registry", "mutate", "make", "serialize", "op", "overlay-parse"} <= ops_seen:
        raise MachineryError("vacuous generator: %s" % sorted(ops_seen))
    chk.mark("behaviours")
    objects_roundtrip(chk, rng)
    cross_process(chk)
    return chk.finish(
        rule="cases = behaviours of MC_C18 of length 3 on real registries (1500 seeded in quick, all in thorough), and a catalogue of objects "
             "(exceptions, quantities of every magnitude type, units, measurements, containers) through every serialisation; distinct by "
             "operation sequence / object and protocol; non-trivial = contains a serialisation, a registry copy or a cross-registry operation",
        exhaustive=thorough)


def objects_roundtrip(chk, rng):
    import numpy as np
    import pint
    from pint import errors
    from pint.util import UnitsContainer
    ureg = pint.UnitRegistry()
    Q = ureg.Quantity
    uc = UnitsContainer({"meter": 1, "second": -2})
    excs = [
        errors.DefinitionError("meter", "unit", "bad"), errors.DefinitionSyntaxError("syntax"), errors.RedefinitionError("meter", "unit"),
        errors.UndefinedUnitError("foo"), errors.UndefinedUnitError(["foo", "bar"]), errors.DimensionalityError("meter", "second"),
        errors.DimensionalityError(uc, "second", "[length]", "[time]", " extra"), errors.OffsetUnitCalculusError("degC"), errors.OffsetUnitCalculusError("degC", ""),
        errors.OffsetUnitCalculusError("degC", UnitsContainer()), errors.OffsetUnitCalculusError("degC", "kelvin"), errors.LogarithmicUnitCalculusError("dB", "dBm"),
        errors.UnitStrippedWarning("stripped"), errors.UndefinedBehavior("undefined"), errors.PintTypeError("t"),
    ]
    # exceptions as pint raises them (carrying position and location of the offending definition, units of a failed conversion ...)
    raised = 0
    for thunk in (lambda: pint.UnitRegistry(["a = [A]", "@group g", "   x = 3 ** ** a", "@end"]), lambda: pint.UnitRegistry(["a = [A]", "@context c", "  [A] -> : value", "@end"]),
                  lambda: pint.UnitRegistry(["a = [A]", "a = [B]"]), lambda: ureg.Quantity(1, "meter").to("second"), lambda: ureg.Quantity(1, "degC") * ureg.Quantity(1, "degC"),
                  lambda: ureg.Quantity(1, "degC") ** 2, lambda: ureg("3 smoot"), lambda: ureg.Quantity(1, "dBm") + ureg.Quantity(1, "dB"), lambda: ureg.define("x = = 3"),
                  lambda: ureg.Quantity(1, "meter") + 3, lambda: ureg.Quantity(1, "degC").to("delta_degF / second"), lambda: ureg.Quantity(1, "foo * bar")):
        try:
            thunk()
        except Exception as e:
            if isinstance(e, (errors.PintError, errors.DefinitionSyntaxError)):
                excs.append(e)
                raised += 1
    if raised < 8:
        raise MachineryError("only %d raised exceptions collected" % raised)
    for e in excs:
        for how in ["copy", "deepcopy"] + ["pickle%d" % p for p in range(pickle.HIGHEST_PROTOCOL + 1)]:
            chk.case(("exception", type(e).__name__, repr(e.args), how))
            try:
                n = copy.copy(e) if how == "copy" else copy.deepcopy(e) if how == "deepcopy" else pickle.loads(pickle.dumps(e, int(how[6:])))
            except Exception as ex:
                chk.diverge({"clause": "exception-roundtrip-raises", "class": type(e).__name__, "how": how[:6]}, {"exc": repr(e), "error": repr(ex)})
                continue
            fields = lambda x: {k: repr(v) for k, v in sorted(vars(x).items())}
            if type(n) is not type(e) or str(n) != str(e) or fields(n) != fields(e):
                chk.diverge({"clause": "exception-roundtrip", "class": type(e).__name__, "how": how[:6]},
                            {"before": [type(e).__name__, str(e), fields(e)], "after": [type(n).__name__, str(n), fields(n)]})
    from pint.util import ParserHelper
    conts = [UnitsContainer(), uc, UnitsContainer({"meter": F(1, 2), "second": -1.5}), UnitsContainer({"kilometer": 2}, non_int_type=F),
             ParserHelper(3.5, {"meter": 2, "second": -1}), ParserHelper(F(2, 3), {"inch": 1}, non_int_type=F), ParserHelper.from_string("3 km / h ** 2")]
    for c in conts:
        for how in ["copy", "deepcopy"] + ["pickle%d" % p for p in range(pickle.HIGHEST_PROTOCOL + 1)]:
            chk.case(("container", repr(c), how))
            try:
                n = copy.copy(c) if how == "copy" else copy.deepcopy(c) if how == "deepcopy" else pickle.loads(pickle.dumps(c, int(how[6:])))
            except Exception as ex:
                chk.diverge({"clause": "container-roundtrip-raises", "class": type(c).__name__, "how": how[:6]}, {"c": repr(c), "error": repr(ex)})
                continue
            ok = type(n) is type(c) and n == c and (getattr(c, 'scale', 1) != 1 or hash(n) == hash(c)) and dict(n.items()) == dict(c.items()) and getattr(n, "scale", 1) == getattr(c, "scale", 1) \
                and n._non_int_type is c._non_int_type and {k: type(v) for k, v in n.items()} == {k: type(v) for k, v in c.items()}
            if ok:
                # the copy is independent and still a working container
                try:
                    ok = (n * c) == (c * c) and (n ** 2) == (c ** 2) and n.add("meter", 1) != n or True
                except Exception as ex:
                    ok = False
            if not ok:
                chk.diverge({"clause": "container-roundtrip", "class": type(c).__name__, "how": how[:6]}, {"before": repr(c), "after": repr(n)})
    mags = [3, 2.5, F(7, 3), Decimal("1.25"), np.array([1.0, 2.0, 3.0]), np.array([[1, 2], [3, 4]])]
    units = ["meter", "kilometer / hour", "microfarad", "degC", "delta_degF", "millibarn * nanosecond", ""]
    for m in mags:
        for un in units:
            q = Q(m, un)
            for how in ["copy", "deepcopy", "tuple"] + ["pickle%d" % p for p in range(pickle.HIGHEST_PROTOCOL + 1)]:
                chk.case(("object", type(m).__name__, un, how))
                try:
                    if how == "tuple":
                        n = Q.from_tuple(q.to_tuple())
                    else:
                        n = copy.copy(q) if how == "copy" else copy.deepcopy(q) if how == "deepcopy" else pickle.loads(pickle.dumps(q, int(how[6:])))
                except Exception as ex:
                    chk.diverge({"clause": "quantity-roundtrip-raises", "how": how[:6], "magnitude": type(m).__name__}, {"q": repr(q), "error": repr(ex)})
                    continue
                same = (np.array_equal(n.magnitude, q.magnitude) if isinstance(m, np.ndarray) else n.magnitude == q.magnitude) and dict(n.unit_items()) == dict(q.unit_items()) \
                    and type(n.magnitude) is type(q.magnitude)
                if not same:
                    chk.diverge({"clause": "quantity-roundtrip", "how": how[:6], "magnitude": type(m).__name__}, {"before": repr(q), "after": repr(n)})
                if how == "deepcopy" and isinstance(m, np.ndarray) and np.shares_memory(n.magnitude, q.magnitude):
                    chk.diverge({"clause": "deepcopy-shares-array"}, {"q": repr(q)})
    # to_tuple / from_tuple in registries of another numeric type: exponents keep the registry's type, fractional ones included
    for T in (F, Decimal):
        ur = pint.UnitRegistry(non_int_type=T)
        for un in ("meter ** (1/3)", "meter ** 0.1 / second", "kilometer ** 2", "meter ** (2/7) * second ** (-1/3)"):
            chk.case(("from_tuple-typed", T.__name__, un))
            try:
                q0 = ur.Quantity(T(3), ur.parse_units(un))
                q1 = ur.Quantity.from_tuple(q0.to_tuple())
                ok = (q1 == q0) and dict(q1.unit_items()) == dict(q0.unit_items()) and all(type(v) is type(w) for v, w in zip(dict(q1.unit_items()).values(), dict(q0.unit_items()).values()))
            except Exception as ex:
                chk.diverge({"clause": "quantity-roundtrip-raises", "how": "tuple", "magnitude": T.__name__}, {"unit": un, "error": repr(ex)[:200]})
                continue
            if not ok:
                chk.diverge({"clause": "quantity-roundtrip", "how": "tuple", "magnitude": T.__name__}, {"unit": un, "before": repr(q0), "after": repr(q1)})
    # pint.Quantity / pint.Unit (the registry-less classes) belong to the application registry current when they are made: objects made
    # before and after set_application_registry() are of different registries and do not combine
    saved0 = pint.get_application_registry().get()
    try:
        r1, r2 = pint.UnitRegistry(), pint.UnitRegistry()
        r2.define("smoot = 2 * meter")
        pint.set_application_registry(r1)
        a1, u1 = pint.Quantity(1.0, "meter"), pint.Unit("meter")
        pint.set_application_registry(r2)
        a2, u2 = pint.Quantity(1.0, "meter"), pint.Unit("meter")
        for name, fn in (("add", lambda: a1 + a2), ("sub", lambda: a1 - a2), ("mul", lambda: a1 * a2), ("div", lambda: a1 / a2), ("floordiv", lambda: a1 // a2), ("lt", lambda: a1 < a2),
                         ("unit-mul", lambda: u1 * u2), ("quantity-unit", lambda: a1 * u2), ("same", lambda: a2 + pint.Quantity(2.0, "meter"))):
            chk.case(("application-registry-swap", name))
            try:
                fn()
                res = "ok"
            except ValueError:
                res = "valueerr"
            except Exception as ex:
                res = "other:" + type(ex).__name__
            if res != ("ok" if name == "same" else "valueerr"):
                chk.diverge({"clause": "cross-registry-operation", "form": "registry-less-" + name, "observed": res}, {"form": name})
    finally:
        pint.set_application_registry(saved0)
    # objects of the registry-less classes (pint.Quantity, pint.Unit, pint.Measurement): every copy stays a working member of the same registry
    for label, o in (("Quantity", pint.Quantity(2.5, "kilometer / hour")), ("Unit", pint.Unit("microfarad")), ("Measurement", pint.Measurement(2.5, 0.1, "meter")),
                     ("Quantity(Quantity)", pint.Quantity(pint.Quantity(2.5, "meter")))):
        for how in ("copy", "deepcopy", "pickle", "constructor"):
            chk.case(("registry-less-copy", label, how))
            try:
                n = copy.copy(o) if how == "copy" else copy.deepcopy(o) if how == "deepcopy" else pickle.loads(pickle.dumps(o)) if how == "pickle" else \
                    (type(o)(o) if label.startswith("Quantity") else copy.copy(o))
                ok = getattr(n, "_REGISTRY", None) is getattr(o, "_REGISTRY", None) is not None
                if label == "Measurement":
                    ok = ok and (n.value == o.value) and (n.error == o.error)
                else:
                    ok = ok and bool(n == o) and (label == "Unit" or (n + o).magnitude == 2 * o.magnitude)
            except Exception as ex:
                chk.diverge({"clause": "registry-less-copy-raises", "object": label, "how": how, "exc": type(ex).__name__}, {"object": repr(o), "error": repr(ex)[:200]})
                continue
            if not ok:
                try:
                    shown = repr(n)
                except Exception as ex:
                    shown = "<repr raises %s>" % type(ex).__name__
                chk.diverge({"clause": "registry-less-copy", "object": label, "how": how}, {"object": repr(o), "copy": shown})
    # unpickling attaches to the application registry and registers prefixed units there first
    src = pint.UnitRegistry()
    fresh_app = pint.UnitRegistry()
    saved = pint.get_application_registry().get()
    try:
        pint.set_application_registry(fresh_app)
        for un in ("attofarad", "kilosmoot" if False else "megaparsec", "zeptoweber / nanomole"):
            chk.case(("prefixed-unpickle", un))
            q = src.Quantity(2.5, un)
            for o in (q, q.units, q.plus_minus(0.1)):
                n = pickle.loads(pickle.dumps(o))
                if getattr(n, "_REGISTRY", None) is not fresh_app:
                    chk.diverge({"clause": "unpickle-owner"}, {"unit": un, "object": type(o).__name__})
                try:
                    s = format(n, "~") if not hasattr(n, "error") else str(n)
                    (n if hasattr(n, "magnitude") else 1 * n).to_base_units()
                except Exception as ex:
                    chk.diverge({"clause": "unpickled-object-unusable", "exc": type(ex).__name__}, {"unit": un, "object": type(o).__name__})
            if not all(name in fresh_app for name in dict(q.unit_items())):
                chk.diverge({"clause": "prefixed-unit-not-registered"}, {"unit": un})
    finally:
        pint.set_application_registry(saved)
    # the lazily built default registry behaves like an explicitly built one
    import subprocess
    import sys
    code = ("import pint, json; a = pint.Quantity(1.5, 'kilometer / hour'); b = pint.UnitRegistry().Quantity(1.5, 'kilometer / hour');"
            "print(json.dumps([str(a.to_base_units()), str(b.to_base_units()), str(pint.Unit('inch').dimensionality), a.to('mile/day').magnitude == b.to('mile/day').magnitude,"
            " str(pint.Quantity('3 furlong / fortnight').to('m/s')) == str(pint.UnitRegistry()('3 furlong / fortnight').to('m/s')),"
            " pint.Quantity(1, 'm')._REGISTRY is pint.Quantity(2, 's')._REGISTRY]))")
    p = subprocess.run([sys.executable, "-c", code], capture_output=True, text=True)
    chk.case(("lazy-default-registry",))
    import json
    try:
        r = json.loads(p.stdout.strip().splitlines()[-1])
        if r[0] != r[1] or r[3] is not True or r[4] is not True or r[5] is not True:
            chk.diverge({"clause": "lazy-registry-differs"}, {"answers": r})
    except Exception:
        chk.diverge({"clause": "lazy-registry-raises"}, {"stderr": p.stderr[-400:]})


def cross_process(chk):
    """objects pickled in one interpreter and loaded in another (another string-hash seed): equal to freshly built ones, usable as
    dictionary keys - nothing process-specific (a cached hash) may travel with them"""
    import json
    import subprocess
    import sys
    import tempfile
    d = tempfile.mkdtemp(prefix="c18x.", dir=chk.scratch)
    build = ("import pint, pickle, sys\nfrom pint.util import UnitsContainer, ParserHelper\nu = pint.get_application_registry()\n"
             "objs = {'container': UnitsContainer({'meter': 1, 'second': -2}), 'helper': ParserHelper(1, {'inch': 2}), 'unit': u.Unit('kilometer / hour'),\n"
             "        'quantity': u.Quantity(2.5, 'microfarad'), 'empty': UnitsContainer()}\n")
    producer = build + "[hash(o) for k, o in objs.items() if k != 'quantity']\nhash(objs['quantity'].units)\n" \
        "for p in range(pickle.HIGHEST_PROTOCOL + 1):\n    pickle.dump(objs, open(sys.argv[1] + '/o%d.pkl' % p, 'wb'), p)\n"
    consumer = build + "import json, glob\nbad = []\nfor fn in sorted(glob.glob(sys.argv[1] + '/o*.pkl')):\n    got = pickle.load(open(fn, 'rb'))\n" \
        "    for k, fresh in objs.items():\n        g = got[k]\n        try:\n" \
        "            ok = (g == fresh) and (fresh == g) and (k == 'quantity' or (hash(g) == hash(fresh) and {fresh: 1}.get(g) == 1))\n" \
        "            if k == 'quantity': ok = ok and g.units == fresh.units and hash(g.units) == hash(fresh.units) and (g + fresh).magnitude == 5.0\n" \
        "        except Exception as e:\n            ok = False\n        if not ok: bad.append([fn[-6:], k])\nprint(json.dumps(bad))\n"
    env = dict(os.environ)
    try:
        p1 = subprocess.run([sys.executable, "-c", producer, d], env=dict(env, PYTHONHASHSEED="11"), capture_output=True, text=True)
        p2 = subprocess.run([sys.executable, "-c", consumer, d], env=dict(env, PYTHONHASHSEED="23"), capture_output=True, text=True)
        bad = json.loads(p2.stdout.strip().splitlines()[-1])
    except Exception:
        raise MachineryError("cross-process pickle driver failed:\n%s\n%s" % (p1.stderr[-500:], p2.stderr[-500:] if "p2" in dir() else ""))
    chk.case(("cross-process-pickle",), nontrivial=True)
    for fn, kind in bad:
        chk.diverge({"clause": "cross-process-pickle", "object": kind}, {"file": fn, "object": kind, "producer_hash_seed": 11, "consumer_hash_seed": 23})


def replay(chk, rec):
    import json
    print(json.dumps(rec["detail"], indent=1)[:4000])
    chk.seed = rec.get("seed", 0)
    return run(chk)
