"""C09 - every textual format denotes the unit exactly; plain-text formats round-trip.

1. TLC law run  : MC_C09: all containers over three names x exponents {-3..3, +-1/2, 3/2, -1/4} x {D, C, P, H} x {long, ~}: the
                  layout (numerator / denominator, |exponent|, one occurrence per unit) denotes the container; the rendered text
                  is part of the state.
2. spec -> code : every state: format(unit, spec) must be the specification's text (P compared through ASCII stand-ins), must read
                  back (independent per-format reader) to the same container, and for D / C / P must parse back to an equal unit;
                  Fraction / Decimal / float exponents; formatting never raises and never alters the object.
3. code -> spec : bundled registry: every canonical unit and random compounds x {D, C, P, H, L, Lx} x {long, ~}: the text is read back
                  into (term, exponent, side) lists and Trace_Format resolves each displayed name / symbol with the C08 rules and checks
                  the denotation.  Quantities: the magnitude part equals Python's own format(), str(q) parses back to q, `#` equals
                  formatting to_compact().
"""
import os
import random
import re
from decimal import Decimal
from fractions import Fraction as F

from .. import defreg, reader, tlaval
from ..engine import MachineryError

SUP = {c: str(i) for i, c in enumerate("⁰¹²³⁴⁵⁶⁷⁸⁹")}
SUP.update({"⁻": "-", "⋅": "."})


def ascii_p(s):
    """pretty format -> the specification's ASCII stand-ins: {digits} for a superscript run, '.' for the product dot"""
    out, run = [], ""
    for ch in s:
        if ch in SUP:
            run += SUP[ch]
        else:
            if run:
                out.append("{" + run + "}")
                run = ""
            out.append("." if ch == "·" else ch)
    if run:
        out.append("{" + run + "}")
    return "".join(out)


def to_expr(text, fmt):
    """format-specific lexical rewriting into the plain expression language of the independent reader"""
    if fmt in ("D", "C"):
        return text
    if fmt == "P":
        out, run = [], ""
        for ch in text:
            if ch in SUP:
                run += SUP[ch]
            else:
                if run:
                    out.append("**(" + run + ")")
                    run = ""
                out.append("*" if ch == "·" else ch)
        if run:
            out.append("**(" + run + ")")
        return "".join(out)
    if fmt == "H":
        return re.sub(r"<sup>(.*?)</sup>", r"**(\1)", text)
    if fmt == "L":
        t = text.replace("\\_", "_").replace("\\left(", "(").replace("\\right)", ")").replace("\\cdot", "*")
        t = re.sub(r"\\mathrm\{([^{}]*)\}", r"\1", t)
        t = re.sub(r"\^\{([^{}]*)\}", r"**(\1)", t)
        m = re.fullmatch(r"\\frac\{(.*)\}\{(.*)\}", t.strip())
        if m:
            # split at the brace that closes the numerator
            depth, i = 0, len("\\frac{")
            s = t.strip()
            j = i
            while j < len(s):
                if s[j] == "{":
                    depth += 1
                elif s[j] == "}":
                    if depth == 0:
                        break
                    depth -= 1
                j += 1
            num, den = s[i:j], s[j + 2:-1]
            return "(%s)/(%s)" % (num, den)
        return t
    raise ValueError(fmt)


def _term(t, pw_split):
    """'name<pow>exp' -> (name, exponent)"""
    t = t.strip()
    if t.startswith("(") and t.endswith(")"):
        t = t[1:-1].strip()
    name, exp = pw_split(t)
    return name.strip(), F(exp)


def _split_ratio(text, fmt):
    """(numerator terms, denominator terms) as raw strings, by the format's own separators"""
    if fmt == "D":
        parts = text.split(" / ")
        return [x for x in parts[0].split(" * ")], [y for x in parts[1:] for y in [x]]
    if fmt == "C":
        parts = text.split("/")
        star = lambda s: re.split(r"(?<!\*)\*(?!\*)", s)
        return star(parts[0]), parts[1:]
    if fmt == "P":
        parts = text.split("/")
        return parts[0].split("·"), parts[1:]
    if fmt == "H":
        text = re.sub(r"<sup>(.*?)</sup>", lambda m: "^{" + m.group(1) + "}", text)
        if "/" in text:
            num, den = text.split("/", 1)
            den = den.strip()
            if den.startswith("(") and den.endswith(")"):
                den = den[1:-1]
            return num.split(" "), den.split(" ")
        return text.split(" "), []
    raise ValueError(fmt)


def _pw(fmt):
    if fmt == "D":
        return lambda t: (t.split(" ** ")[0], t.split(" ** ")[1]) if " ** " in t else (t, 1)
    if fmt == "C":
        return lambda t: (t.split("**")[0], t.split("**")[1]) if "**" in t else (t, 1)
    if fmt == "H":
        def h(t):
            m = re.fullmatch(r"(.*?)\^\{(.*?)\}", t)
            return (m.group(1), m.group(2)) if m else (t, 1)
        return h
    if fmt == "P":
        def p(t):
            i = len(t)
            while i > 0 and t[i - 1] in SUP:
                i -= 1
            return (t[:i], "".join(SUP[c] for c in t[i:])) if i < len(t) else (t, 1)
        return p


def read_back(text, fmt, prefixes):
    """text of a unit -> {displayed name: signed exponent} or None when it cannot be read"""
    try:
        if fmt == "Lx":
            m = re.fullmatch(r"\\si\[\]\{(.*)\}", text.strip())
            if not m:
                return None
            toks = re.findall(r"\\([A-Za-z]+)(?:\{([^{}]*)\})?", m.group(1))
            out, sign, pre, last = {}, 1, "", None
            for name, arg in toks:
                if name == "per":
                    sign = -1
                elif name == "squared" and last:
                    out[last] *= 2
                elif name == "cubed" and last:
                    out[last] *= 3
                elif name == "tothe" and last:
                    out[last] *= F(arg)
                elif name in prefixes:
                    pre += name
                else:
                    last = pre + name
                    out[last] = out.get(last, 0) + F(sign)
                    sign, pre = 1, ""
            return out
        if text.strip() in ("", "dimensionless"):
            return {}
        if fmt == "L":
            v = reader.parse_expr(to_expr(text, fmt))
            return None if v.scale != 1 else dict(v.units)
        num, den = _split_ratio(text, fmt)
        out = {}
        pw = _pw(fmt)
        for t in num:
            if t.strip() == "1":
                continue
            n, e = _term(t, pw)
            out[n] = out.get(n, 0) + e
        for t in den:
            n, e = _term(t, pw)
            out[n] = out.get(n, 0) - e
        return out
    except Exception:
        return None


def run(chk):
    import pint
    rng = random.Random(chk.seed)
    thorough = chk.tier == "thorough"
    wd = chk.workdir("gen")
    dump = os.path.join(wd, "f.dump")
    chk.tlc("laws+gen", "MC_C09", "MC_C09.cfg", wd=wd, args=["-dump", dump])
    states = [st for st in tlaval.parse_states(open(dump).read()) if st["stage"] == 2]
    os.remove(dump)
    if len(states) < 5000:
        raise MachineryError("generator produced only %d states" % len(states))
    regs = {T: pint.UnitRegistry(non_int_type=T) for T in (float, F, Decimal)}
    for st in states:
        c = {} if st["u"] in ([], {}) else {k: F(v[0], v[1]) for k, v in st["u"].items()}
        spec = ("~" if st["short"] else "") + st["fmt"]
        chk.case((repr(sorted(c.items())), spec), nontrivial=len(c) >= 2, sample={"unit": c, "spec": spec, "text": st["out"]})
        for T in ((float, F, Decimal) if (thorough or rng.random() < 0.2) else (float,)):
            ureg = regs[T]
            cont = {k: (int(e) if e.denominator == 1 else (e if T is F else (Decimal(e.numerator) / Decimal(e.denominator)) if T is Decimal else float(e))) for k, e in c.items()}
            unit = ureg.Unit(ureg.UnitsContainer(cont))
            before = dict((1 * unit).unit_items())
            try:
                got = format(unit, spec)
            except Exception as e:
                chk.diverge({"clause": "format-raises", "type": T.__name__, "exc": type(e).__name__, "fmt": st["fmt"]}, {"unit": c, "spec": spec})
                continue
            cmp_ = ascii_p(got) if st["fmt"] == "P" else got
            if " ".join(cmp_.split()) != " ".join(st["out"].split()):
                chk.diverge({"clause": "text", "fmt": st["fmt"], "short": st["short"], "type": T.__name__}, {"unit": c, "spec": spec, "expected": st["out"], "observed": got})
            if dict((1 * unit).unit_items()) != before:
                chk.diverge({"clause": "formatting-alters-object"}, {"unit": c, "spec": spec})
            exact_render = st["fmt"] in ("D", "C") or all(e.denominator == 1 for e in c.values())     # P: integers only
            if st["fmt"] in ("D", "C", "P") and T is float and exact_render:
                try:
                    back = ureg.parse_units(got) if got else ureg.Unit("")
                    if back != unit:
                        chk.diverge({"clause": "parse-back", "fmt": st["fmt"], "short": st["short"]}, {"unit": c, "spec": spec, "text": got, "parsed": str(back)})
                except Exception as e:
                    chk.diverge({"clause": "parse-back-raises", "fmt": st["fmt"], "exc": type(e).__name__}, {"unit": c, "spec": spec, "text": got})
    chk.traces += len(states)
    chk.mark("replay")
    bundled(chk, rng, thorough)
    registries_do_not_share_symbols(chk)
    array_magnitudes(chk)
    chk.mark("bundled")
    quantities(chk, rng)
    return chk.finish(
        rule="cases = states of MC_C09 (container, format, long / short) rendered by the library in float (all) and Fraction / Decimal (a seeded "
             "share) registries; distinct by (container, spec); non-trivial = at least two units; plus every canonical unit and random compounds "
             "of the bundled registry in six formats validated by Trace_Format, and quantity format specs against Python's own formatting",
        exhaustive=True)


def bundled(chk, rng, thorough):
    import pint
    R, T = defreg.table()
    ureg = pint.UnitRegistry()
    canon, spell, prefixes = defreg.pools()
    all_canon = list(R["units"])            # including offset / log units
    pnames = set(R["prefixes"])
    work = [{n: 1} for n in all_canon]
    exps = [1, -1, 2, -2, 3, F(1, 2), -3, F(-1, 2), 4, 5, 6, 7, 8, 9, 10, 19, -9, -10]
    for _ in range(1500 if thorough else 300):
        d = {}
        for _ in range(rng.randint(2, 4)):
            n = rng.choice(canon)
            if rng.random() < 0.3:
                n = rng.choice(sorted(pnames)) + n
            d[n] = rng.choice(exps)
        work.append(d)
    events = []
    from pint.delegates.formatter._compound_unit_helpers import sort_by_dimensionality
    ureg_sorted = pint.UnitRegistry()
    ureg_sorted.formatter.default_sort_func = sort_by_dimensionality
    dimless = [n for n in all_canon if not R["units"][n]["ref"] or n in ("radian", "bit", "count", "percent", "degree")][:12]
    for d in [{n: 1} for n in dimless] + [{rng.choice(dimless): rng.choice([1, 2, -1]), rng.choice(canon): rng.choice([1, -2])} for _ in range(60)]:
        for fmt in ("D", "C", "P", "H"):
            chk.case(("sort-by-dimensionality", repr(sorted(d.items())), fmt))
            try:
                un = ureg_sorted.Unit(ureg_sorted.UnitsContainer({ureg_sorted.get_name(k): v for k, v in d.items()}))
                text = format(un, fmt)
                rb = read_back(text, fmt, pnames)
                want = {k: F(v) for k, v in (1 * un).unit_items()}
                if rb is None or {k: F(v) for k, v in rb.items()} != want:
                    chk.diverge({"clause": "denotation", "fmt": fmt, "sort": "by-dimensionality"}, {"unit": d, "text": text, "read": {k: str(v) for k, v in (rb or {}).items()}})
            except Exception as e:
                chk.diverge({"clause": "format-raises", "fmt": fmt, "exc": type(e).__name__, "sort": "by-dimensionality"}, {"unit": d})
    for d in work:
        try:
            unit = ureg.Unit(ureg.UnitsContainer({ureg.get_name(k): (int(v) if F(v).denominator == 1 else float(v)) for k, v in d.items()}))
        except Exception:
            chk.skipped += 1
            continue
        units_pairs = defreg.pairs((k, F(v).limit_denominator(1000)) for k, v in (1 * unit).unit_items())
        for fmt in ("D", "C", "P", "H", "L", "Lx"):
            for short in (False, True):
                spec = ("~" if short else "") + fmt
                try:
                    text = format(unit, spec)
                except Exception as e:
                    chk.diverge({"clause": "format-raises", "fmt": fmt, "exc": type(e).__name__, "src": "bundled"}, {"unit": d, "spec": spec})
                    continue
                rb = read_back(text, fmt, pnames)
                plain_names = all(re.fullmatch(r"[A-Za-z]+", k) for k in d)
                if fmt in ("Lx", "L") and not (plain_names and all(re.fullmatch(r"[A-Za-zµΩÅ°]*", ureg.get_symbol(k) or "") for k in d)):
                    continue            # LaTeX / siunitx macro names are letters only: other names and symbols are not checked there
                ev = {"ev": "fmt", "fmt": fmt, "short": short, "units": units_pairs, "readable": rb is not None,
                      "read": defreg.cont({k: F(v).limit_denominator(1000) for k, v in (rb or {}).items()}), "_text": text, "_unit": d, "_rb": sorted(rb or {})}
                events.append(ev)
                chk.case(("bundled-fmt", repr(sorted(d.items())), spec))
    usp, psp = defreg._cache["sp"][0], defreg._cache["sp"][1]

    readings = defreg.readings

    # a unit built from a container that names a prefixed unit the registry has not parsed yet is a valid object: it formats
    fresh_u = pint.UnitRegistry()
    for pre, nm in (("milli", "second"), ("kilo", "gram"), ("micro", "farad"), ("nano", "henry"), ("mega", "parsec")):
        for spec in ("D", "~", "~P", "~C", "~H", "~L", "P"):
            chk.case(("unparsed-prefixed-unit", pre + nm, spec))
            try:
                un = fresh_u.Unit(fresh_u.UnitsContainer({pre + nm: 1, "meter": -1}))
                text = format(un, spec)
                qtext = format(fresh_u.Quantity(2.5, un), spec)
            except Exception as e:
                chk.diverge({"clause": "format-raises", "exc": type(e).__name__, "src": "unparsed-prefixed-unit", "short": spec.startswith("~")}, {"unit": pre + nm + " / meter", "spec": spec})
                continue
            want = pint.UnitRegistry().parse_units(pre + nm + " / meter")
            if text != format(want, spec):
                chk.diverge({"clause": "denotation", "src": "unparsed-prefixed-unit"}, {"unit": pre + nm + " / meter", "spec": spec, "text": text, "expected": format(want, spec)})
    for e, clause in defreg.validate(chk, "Trace_Format", events, label="fmt"):
        sig = {"clause": clause, "fmt": e["fmt"], "short": e["short"], "src": "bundled"}
        # why: the symbol of a prefixed unit (prefix symbol + unit symbol) can have a second reading: it is, letter for letter, a defined
        # spelling of another unit ('Pa' = peta-year and pascal) or another prefix + unit ('dat' = deca-ton and deci-technical-atmosphere).
        # Established from the reader's tables, not from pint.
        clash = sorted(t for t in e["_rb"] if len(readings(t)) > 1 and any(k not in usp for k in e["_unit"]))
        if e["short"] and clash:
            sig["cause"] = "prefixed-symbol-has-a-second-reading"
        chk.diverge(sig,
                    {"unit": e["_unit"], "text": e["_text"], "read": [[i["s"], i["e"]] for i in e["read"]], "units": e["units"]})
    chk.samples.append({"bundled": {"unit": events[7]["_unit"], "fmt": events[7]["fmt"], "short": events[7]["short"], "text": events[7]["_text"]}})


def reader_nonmult(n):
    return False


def quantities(chk, rng):
    """magnitude in the requested numeric format (oracle: Python's format), str(q) parses back, # = to_compact()"""
    import pint
    for T, mags in ((float, [1234.5678, 0.000123, -42.0, 1e25]), (Decimal, [Decimal("1234.5678"), Decimal("-0.5")]), (F, [F(5, 4), F(-7, 2)])):
        ureg = pint.UnitRegistry(non_int_type=T)
        for m in mags:
            for un in ("meter", "kilometer / hour", "newton * meter ** 2", "1 / second", ""):
                q = ureg.Quantity(m, un)
                chk.case(("quantity", T.__name__, str(m), un))
                try:
                    s = str(q)
                    back = ureg.parse_expression(s)
                except Exception as e:
                    chk.diverge({"clause": "str-roundtrip-raises", "type": T.__name__, "exc": type(e).__name__}, {"m": str(m), "unit": un})
                    continue
                ok = (back == q) if T is not float else (abs(float(back.magnitude) - float(q.magnitude)) <= 1e-12 * abs(float(q.magnitude)) and back.units == q.units) if hasattr(back, "units") else (un == "" and abs(back - m) <= 1e-12 * abs(m))
                if not ok:
                    chk.diverge({"clause": "str-roundtrip", "type": T.__name__}, {"q": s, "parsed": str(back)})
                if T is F:
                    continue
                for mspec in (".2f", ".4g", "", "+.1f"):      # (exponent notation is rewritten as a power of ten by P / H / L)
                    for uspec in ("D", "~P", "C", "~H"):
                        try:
                            text = format(q, mspec + uspec)
                        except Exception as e:
                            chk.diverge({"clause": "format-raises", "type": T.__name__, "exc": type(e).__name__, "src": "quantity"}, {"spec": mspec + uspec})
                            continue
                        want = format(m, mspec)
                        if "e" in want:
                            continue          # rewritten as a power of ten by the pretty / HTML formats
                        if not text.startswith(want):
                            chk.diverge({"clause": "magnitude-format", "type": T.__name__}, {"spec": mspec + uspec, "text": text, "expected_prefix": want})
                        # the unit part of a formatted quantity is the formatted unit
                        utext = format(q.units, uspec)
                        ok_join = text == want + (" " + utext if utext else "") or (utext == "" and text.strip() == want)
                        if utext.startswith("1 / "):          # default format: "3 / second" rather than "3 1 / second"
                            ok_join = ok_join or text == want + utext[1:]
                        if not ok_join:
                            chk.diverge({"clause": "quantity-unit-part", "type": T.__name__, "uspec": uspec}, {"spec": mspec + uspec, "text": text, "unit_text": utext, "magnitude_text": want})
                if T is float and un == "meter" and m == 1234.5678:
                    sup = str.maketrans("-0123456789", "⁻⁰¹²³⁴⁵⁶⁷⁸⁹")
                    for k in list(range(-19, 20)) + [-k2 - 100 for k2 in range(-19, 20)]:
                        sgn = 1.0
                        if k <= -81:                      # the same decades with a negative magnitude
                            k, sgn = -(k + 100), -1.0
                        try:
                            txt = format(ureg.Quantity(sgn * 1.5 * 10.0 ** k, "meter"), ".1e~P")
                        except Exception as e:
                            chk.diverge({"clause": "format-raises", "type": "float", "exc": type(e).__name__, "src": "power-of-ten"}, {"k": k})
                            continue
                        exp_txt = ("-" if sgn < 0 else "") + "1.5×10" + str(k).translate(sup) + " m" if k != 0 else None
                        if exp_txt and txt != exp_txt and abs(float("%.1e" % (1.5 * 10.0 ** k)) - 1.5 * 10.0 ** k) < 1e-3 * 10.0 ** k:
                            chk.diverge({"clause": "pretty-power-of-ten"}, {"k": k, "expected": exp_txt, "observed": txt})
                if T is float and un == "meter" and m == 1234.5678:
                    # complex magnitudes: each part keeps its own power of ten
                    sup = str.maketrans("-0123456789", "⁻⁰¹²³⁴⁵⁶⁷⁸⁹")
                    for z in (1e20 + 2e-5j, -3.5e-7 + 4e12j, 2.5e3 - 1e3j):
                        plain = format(z, ".2e")
                        for uspec, mk in (("P", lambda sg, d: "×10" + (("-" if sg == "-" else "") + str(int(d))).translate(sup)),
                                          ("H", lambda sg, d: "×10<sup>%s%d</sup>" % ("-" if sg == "-" else "", int(d)))):
                            want = re.sub(r"e([+-])(\d+)", lambda mm: mk(mm.group(1), mm.group(2)), plain)
                            chk.case(("complex-magnitude", str(z), uspec))
                            try:
                                got = format(ureg.Quantity(z, "meter"), ".2e~" + uspec)
                            except Exception as e:
                                chk.diverge({"clause": "format-raises", "type": "complex", "exc": type(e).__name__, "src": "quantity"}, {"z": str(z), "spec": ".2e~" + uspec})
                                continue
                            if got != want + " m":
                                chk.diverge({"clause": "magnitude-format", "type": "complex"}, {"z": str(z), "spec": ".2e~" + uspec, "expected": want + " m", "observed": got})
                if T is float and un in ("meter", "newton * meter ** 2"):
                    try:
                        a, b = format(q, "#~P"), format(q.to_compact(), "~P")
                    except Exception as e:
                        chk.diverge({"clause": "format-raises", "type": "float", "exc": type(e).__name__, "src": "compact-modifier"}, {"q": str(q)})
                        continue
                    if a != b:
                        chk.diverge({"clause": "compact-modifier"}, {"q": str(q), "#": a, "to_compact": b})
        # the registry's default_format is what an empty spec means - '#' and '~' included - for every numeric type
        for dflt in ("~P", "#~P", ".3f~", "#.4g~C", "#D", "H", "#"):
            u2 = pint.UnitRegistry(non_int_type=T) if T is not float else pint.UnitRegistry()
            u2.formatter.default_format = dflt
            for m in mags[:3]:
                q2 = u2.Quantity(m * 1000 if T is not F else m * 1000, "meter")
                chk.case(("default-format", T.__name__, dflt, str(m)))
                try:
                    a, b, c = str(q2), format(q2, ""), format(q2, dflt)
                except Exception as e:
                    chk.diverge({"clause": "format-raises", "type": T.__name__, "exc": type(e).__name__, "src": "default-format", "default_format": dflt}, {"default_format": dflt, "q": repr(q2)})
                    continue
                if not (a == b == c):
                    chk.diverge({"clause": "default-format", "type": T.__name__}, {"default_format": dflt, "str": a, "empty-spec": b, "explicit": c})


def array_magnitudes(chk):
    """ndarray magnitudes: every element appears, in order, in the requested numeric format, in every built-in format"""
    import numpy as np
    import pint
    u = pint.UnitRegistry()
    for arr in (np.array([1.234, 2.345, -0.5]), np.array([[1.5, 2.25], [3.0, 4.125]]), np.array(1234.56789), np.float64(1234.56789).reshape(())):
        for mspec in ("", ".2f", ".1f", ".3g"):
            for fmt in ("D", "P", "C", "L", "Lx", "~L", "~P"):
                chk.case(("array-magnitude", arr.shape, mspec, fmt))
                q = u.Quantity(arr, "meter")
                try:
                    text = format(q, mspec + fmt)
                except Exception as e:
                    chk.diverge({"clause": "format-raises", "type": "ndarray", "exc": type(e).__name__, "src": "quantity"}, {"spec": mspec + fmt})
                    continue
                pos, ok = 0, True
                for x in arr.ravel():
                    want = format(float(x), mspec) if mspec else None
                    if want is not None and "e" in want:
                        continue                 # exponent notation is rewritten as a power of ten by the pretty / LaTeX formats (checked elsewhere)
                    cands = [want] if want is not None else [repr(float(x)), str(float(x)).rstrip("0").rstrip("."), ("%g" % x)]
                    hit = min((text.find(c, pos) for c in cands if text.find(c, pos) >= 0), default=-1)
                    if hit < 0:
                        ok = False
                        break
                    pos = hit + 1
                if not ok:
                    chk.diverge({"clause": "magnitude-format", "type": "ndarray", "fmt": fmt.replace("~", "")}, {"spec": mspec + fmt, "text": text, "array": arr.tolist()})


def registries_do_not_share_symbols(chk):
    """what a unit is called is the registry's own business: two registries in one process giving different symbols to one unit name
    each render - and read back - their own"""
    import pint
    regs = []
    for sym in ("sm", "smt"):
        r = pint.UnitRegistry()
        r.define("smoot = 1.7018 * meter = %s" % sym)
        regs.append((r, sym))
    for rnd in range(2):
        for r, sym in regs:
            for name, want in (("smoot", sym), ("kilosmoot", "k" + sym), ("smoot / second", sym + " / s")):
                chk.case(("two-registries", rnd, sym, name))
                try:
                    text = format(r.Quantity(1, name).units, "~")
                    back = r.parse_units(text)
                except Exception as e:
                    chk.diverge({"clause": "two-registries-raises", "exc": type(e).__name__}, {"symbol": sym, "unit": name, "round": rnd})
                    continue
                if text != want or back != r.parse_units(name):
                    chk.diverge({"clause": "symbol-of-another-registry"}, {"symbol": sym, "unit": name, "text": text, "expected": want, "round": rnd})


def replay(chk, rec):
    import json
    print(json.dumps(rec["detail"], indent=1)[:4000])
    chk.seed = rec.get("seed", 0)
    return run(chk)
