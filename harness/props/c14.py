"""C14 - systems and groups select base units and members exactly as declared.

1. TLC law runs : MC_C14g (group / system edit sequences interleaved with member queries: closure is the least fixed point,
                  cycles refused, a system's members are those of its groups, edits immediate) and MC_C14b (rule inversion
                  new / new:old with exponents, re-expression in base units: only base units appear, dimensionality and
                  physical value preserved, idempotent).
2. spec -> code : every edit behaviour of length 3 executed on real Group / System objects with members of every group and
                  system compared after each step (and compatible-unit queries restricted to them), three times: reading everything
                  after each step, reading only the systems until the last step, reading nothing until the last step; every (system, probe)
                  of MC_C14b through to_base_units / ito_base_units / get_base_units(system=) / default_system switching.
3. code -> spec : bundled registry: members of all groups and systems, to_base_units of every canonical unit and random
                  compounds under each of the 7 systems (and none), restricted compatible-unit listings; recomputed by
                  Trace_Sys from the reader's @group / @system blocks (factors as fingerprints).
"""
import os
import random
from fractions import Fraction as F

from .. import defreg, pintmachine as pm, reader, tlaval
from ..engine import MachineryError

GLINES_B = ["a = [A]", "x = 2 a", "y = 3 a", "w = [W]", "@group g2", "  x = 2 a", "@end", "@group g1 using g2", "@end", "@group g3", "@end",
            "@system S1 using g1", "  a", "@end", "@system S2 using g2, g3", "  a", "@end"]
GLINES = ["a = [A]", "x = 2 a", "y = 3 a", "w = [W]", "@group g1", "@end", "@group g2", "@end", "@group g3", "@end",
          "@system S1 using g1", "  a", "@end", "@system S2 using g2, g3", "  a", "@end"]


def run(chk):
    rng = random.Random(chk.seed)
    thorough = chk.tier == "thorough"
    membership(chk, thorough)
    chk.mark("membership")
    baseunits(chk, rng)
    chk.mark("base-units")
    attribute_access(chk)
    define_after_reading(chk)
    bundled(chk, rng, thorough)
    chk.mark("bundled")
    return chk.finish(
        rule="cases = edit behaviours of MC_C14g (length 3, every group's and system's members after each step), (system, probe) states "
             "of MC_C14b through four API forms and switching orders, and events over the bundled registry validated by Trace_Sys; "
             "distinct by behaviour / state / event; non-trivial = behaviour contains an edit, probe is touched by a rule",
        exhaustive=True)


# ------------------------------------------------------------------------------------------------ membership
def membership(chk, thorough):
    import pint
    cfg = "MC_C14g.cfg"
    chk.tlc("laws-groups", "MC_C14g", cfg, args=[] if not thorough else [], timeout=1800)
    behs = []
    for cfgname, lines in (("MC_C14g_gen.cfg", GLINES), ("MC_C14g_genB.cfg", GLINES_B)):
        wd = chk.workdir("gen-g" + cfgname[-5])
        dump = os.path.join(wd, "g.dump")
        chk.tlc("gen-groups" + cfgname[-5], "MC_C14g", cfgname, wd=wd, args=["-dump", dump], count=False)
        got = [(st["hist"], lines) for st in tlaval.parse_states(open(dump).read()) if len(st["hist"]) == 3]
        os.remove(dump)
        if len(got) < 1000:
            raise MachineryError("generator %s produced only %d behaviours" % (cfgname, len(got)))
        behs += got
    # vacuity is judged on what was generated (a replay stops at the first divergence of a behaviour)
    ops_seen = {h["op"][0] for hist, _ in behs for h in hist}
    # every behaviour is executed three times: reading every group and system after each step ("all"), reading only the
    # systems - the outermost readers - until the last step ("systems"), and reading nothing until the last step ("last"):
    # what is read in between may not matter (edits are immediate for every reader, whichever caches were filled)
    for hist, GL in behs:
      for mode in ("all", "systems", "last"):
            u = pint.UnitRegistry(GL)
            chk.case((mode,) + tuple(repr(h["op"]) for h in hist), nontrivial=any(h["op"][0] != "query" for h in hist), sample={"ops": [h["op"] for h in hist], "readers": mode})
            for k, h in enumerate(hist):
                op = h["op"]
                res = "ok"
                try:
                    if op[0] == "add_units":
                        u.get_group(op[1]).add_units(op[2])
                    elif op[0] == "remove_units":
                        u.get_group(op[1]).remove_units(op[2])
                    elif op[0] == "add_groups":
                        u.get_group(op[1]).add_groups(op[2])
                    elif op[0] == "remove_groups":
                        u.get_group(op[1]).remove_groups(op[2])
                    elif op[0] == "sys_add_groups":
                        u.get_system(op[1], False).add_groups(op[2])
                    elif op[0] == "sys_remove_groups":
                        u.get_system(op[1], False).remove_groups(op[2])
                except ValueError:
                    res = "error"
                except (RecursionError, Exception) as e:
                    chk.diverge({"clause": "operation-raises", "op": op[0], "exc": type(e).__name__}, {"registry": GL, "ops": [x["op"] for x in hist[:k + 1]]})
                    break
                exp_g = {g: set(v) for g, v in h["obs"]["groups"].items()}
                exp_s = {s: set(v) for s, v in h["obs"]["systems"].items()}
                if mode != "all" and k < len(hist) - 1:
                    exp_g = {}
                    if mode == "last":
                        exp_s = {}
                try:
                    got_g = {g: set(u.get_group(g).members) for g in exp_g}
                    got_s = {s: set(u.get_system(s, False).members) for s in exp_s}
                except (RecursionError, Exception) as e:
                    chk.diverge({"clause": "members-raise", "op": op[0], "exc": type(e).__name__}, {"registry": GL, "ops": [x["op"] for x in hist[:k + 1]]})
                    break
                bad = None
                if res != h["res"]:
                    bad = ("outcome", {"expected": h["res"], "observed": res})
                elif got_g != exp_g:
                    bad = ("group-members", {"expected": {g: sorted(v) for g, v in exp_g.items()}, "observed": {g: sorted(v) for g, v in got_g.items()}})
                elif got_s != exp_s:
                    bad = ("system-members", {"expected": {g: sorted(v) for g, v in exp_s.items()}, "observed": {g: sorted(v) for g, v in got_s.items()}})
                else:
                    # compatible units restricted to a group / system = same-dimension units among its members
                    for scope, mem in list(exp_g.items()) + list(exp_s.items()):
                        lst = {next(iter((1 * x).unit_items()))[0] for x in u.get_compatible_units("a", scope)}
                        if lst != (mem & {"a", "x", "y"}):
                            bad = ("compatible-in-scope", {"scope": scope, "expected": sorted(mem & {"a", "x", "y"}), "observed": sorted(lst)})
                            break
                if bad:
                    chk.diverge({"clause": bad[0], "op": op[0], "readers": mode, "after_query": any(x["op"][0] == "query" for x in hist[:k])},
                                dict(bad[1], registry=GL, ops=[x["op"] for x in hist[:k + 1]]))
                    break
    chk.traces += len(behs)
    if not {"add_units", "remove_units", "add_groups", "remove_groups", "sys_add_groups", "sys_remove_groups", "query"} <= ops_seen:
        raise MachineryError("vacuous generator: ops %s" % sorted(ops_seen))


# ------------------------------------------------------------------------------------------------ base units
def baseunits(chk, rng):
    import pint
    wd = chk.workdir("gen-b")
    dump = os.path.join(wd, "b.dump")
    g = chk.tlc("laws+gen-base", "MC_C14b", "MC_C14b.cfg", wd=wd, args=["-dump", dump])
    const = pm.parse_const(g.out)
    states = [st for st in tlaval.parse_states(open(dump).read()) if st["stage"] == 1]
    os.remove(dump)
    lines = []
    for n, d in sorted(const["units"].items(), key=lambda kv: (not kv[1]["base"], kv[0])):
        ref = pm.fmt_cont(pm.cont(d["ref"]))
        lines.append("%s = %s" % (n, ref) if d["base"] else "%s = %s * %s" % (n, pm.fr(d["scale"]), ref))
    for s, rules in const["systems"].items():
        if s == "none":
            continue
        lines += ["@system %s" % s] + ["    %s%s" % (r["new"], ":" + r["old"] if r["old"] else "") for r in rules] + ["@end"]
    try:
        ureg = pint.UnitRegistry(lines, non_int_type=F)
    except Exception as e:
        chk.diverge({"clause": "load", "exc": type(e).__name__}, {"lines": lines})
        return
    def cls_of(st):
        rules = const["systems"][st["sys"]] if st["sys"] != "none" else []
        return "rule-with-other-exponent" if any(r["old"] and r["new"] == "c" for r in rules) else "plain"
    order = list(states)
    rng.shuffle(order)          # default_system switching in a random order on ONE registry: changes must take effect immediately
    for st in order:
        sysn, p = st["sys"], pm.cont([[k, v] for k, v in st["p"].items()] if isinstance(st["p"], dict) else [])
        exp_u = {n: pm.fr(e) for n, e in st["obs"]["u"]}
        exp_f, exact = pm.fr(st["obs"]["f"]), st["obs"]["exact"]
        chk.case(("base", sysn, sorted(p.items())), nontrivial=sysn != "none" and bool(p), sample={"system": sysn, "probe": p, "expected": [exp_f, exp_u]})
        uc = ureg.UnitsContainer({k: (int(v) if v.denominator == 1 else v) for k, v in p.items()})
        forms = {}
        try:
            ureg.default_system = None if sysn == "none" else sysn
            q = ureg.Quantity(F(1), uc).to_base_units()
            forms["to_base_units"] = (q.magnitude, dict(q.unit_items()))
            q2 = ureg.Quantity(F(1), uc)
            q2.ito_base_units()
            forms["ito_base_units"] = (q2.magnitude, dict(q2.unit_items()))
            f, un = ureg.get_base_units(uc)
            forms["get_base_units"] = (f, dict((1 * un).unit_items()))
            ureg.default_system = None
            f, un = ureg.get_base_units(uc, system=None if sysn == "none" else sysn)
            forms["get_base_units(system=)"] = (f, dict((1 * un).unit_items()))
        except Exception as e:
            chk.diverge({"clause": "base-units-raises", "exc": type(e).__name__, "class": cls_of(st)}, {"lines": lines, "system": sysn, "probe": p})
            continue
        for name, (f, un) in forms.items():
            okc = {k: F(v) for k, v in un.items() if not isinstance(v, float)} == exp_u or \
                (set(un) == set(exp_u) and all(abs(float(un[k]) - float(exp_u[k])) < 1e-12 for k in un))
            okf = (isinstance(f, (F, int)) and F(f) == exp_f) if exact else True
            if not okc or not okf:
                chk.diverge({"clause": "base-container" if not okc else "base-factor", "form": name, "class": cls_of(st)},
                            {"lines": lines, "system": sysn, "probe": p, "expected": [exp_f, exp_u], "observed": [repr(f), repr(un)]})
    chk.traces += len(states)


def attribute_access(chk):
    """ureg.sys.<S>.<name> resolves <S>_<name> when that unit exists, through any spelling, else <name>."""
    import pint
    lines = ["a = [A]", "qq = 3 a = qsym = qalias", "S1_qq = 2 a = S1_qsym = S1_qalias", "t = 5 a", "@system S1", "  a", "@end", "@system S2", "  a", "@end"]
    u = pint.UnitRegistry(lines)
    for spelling, want1 in (("qq", "S1_qq"), ("qsym", "S1_qq"), ("qalias", "S1_qq"), ("qqs", "S1_qq"), ("t", "t")):
        chk.case(("sys-attr", spelling))
        try:
            g1 = next(iter((1 * getattr(u.sys.S1, spelling)).unit_items()))[0]
            g2 = next(iter((1 * getattr(u.sys.S2, spelling)).unit_items()))[0]
        except Exception as e:
            chk.diverge({"clause": "system-attribute-raises", "exc": type(e).__name__}, {"lines": lines, "spelling": spelling})
            continue
        want2 = "qq" if want1 == "S1_qq" else want1
        if (g1, g2) != (want1, want2):
            chk.diverge({"clause": "system-attribute"}, {"lines": lines, "spelling": spelling, "expected": [want1, want2], "observed": [g1, g2]})


def define_after_reading(chk):
    """a unit defined after construction belongs to the root group (and to every group / system built on root) whether or not the
    members had been read before: the answers after define() are those of a registry in which nothing was asked earlier"""
    import pint
    lines = ["a = [A]", "b = 2 a", "@group g1", "  c = 3 a", "@end", "@system S using g1", "  a", "@end", "@system R using root", "  a", "@end"]

    def answers(u):
        return {"root": sorted(u.get_group("root").members), "g1": sorted(u.get_group("g1").members),
                "S": sorted(u.get_system("S").members), "R": sorted(u.get_system("R").members), "dir(R)": sorted(x for x in dir(u.sys.R) if not x.startswith("_"))}

    for src in ("tiny", "bundled"):
        for asked_before in (False, True):
            chk.case(("define-after-reading", src, asked_before))
            try:
                u = pint.UnitRegistry(lines) if src == "tiny" else pint.UnitRegistry()
                q = answers if src == "tiny" else (lambda r: {"root": sorted(r.get_group("root").members), "SI": sorted(r.get_system("SI").members),
                                                            "dir(SI)": sorted(x for x in dir(r.sys.SI) if not x.startswith("_"))})
                before = q(u) if asked_before else None
                u.define("zz9 = 7 * %s" % ("a" if src == "tiny" else "meter"))
                after = q(u)
            except Exception as e:
                chk.diverge({"clause": "define-after-reading-raises", "exc": type(e).__name__}, {"registry": src, "asked_before": asked_before})
                continue
            expect_in = ["root", "R", "dir(R)"] if src == "tiny" else ["root", "SI", "dir(SI)"]
            missing = [k for k in expect_in if "zz9" not in after[k]]
            extra = [k for k in after if k not in expect_in and "zz9" in after[k]]
            if missing or extra:
                chk.diverge({"clause": "new-unit-membership", "asked_before": asked_before, "registry": src, "missing": missing[0] if missing else None},
                            {"registry": src, "asked_before": asked_before, "missing_from": missing, "unexpected_in": extra})


# ------------------------------------------------------------------------------------------------ bundled registry
def bundled(chk, rng, thorough):
    import pint
    R, T = defreg.table()
    ureg = pint.UnitRegistry(non_int_type=F)
    Q = ureg.Quantity
    canon, spell, prefixes = defreg.pools()
    names = set()
    for s in R["systems"].values():
        for new, old in s["rules"]:
            names.add(new)
            if old:
                names.add(old)
    groups = {reader.esc(g): {"using": [reader.esc(x) for x in d["using"]], "units": [reader.esc(x) for x in d["units"]]} for g, d in R["groups"].items()}
    systems = {s: {"using": [reader.esc(x) for x in (d["using"] or ["root"])], "rules": [{"new": reader.esc(n), "old": reader.esc(o) if o else ""} for n, o in d["rules"]]}
               for s, d in R["systems"].items()}
    usp = defreg._cache["sp"][0]
    psp = defreg._cache["sp"][1]
    extra_names = set(names)
    for n in names:                      # composed canonical names (prefix name + unit name) may appear in destination containers
        try:
            extra_names.add(ureg.get_name(n))
        except Exception:
            pass
    extra = {"groups": groups, "systems": systems, "allunits": [reader.esc(n) for n in R["units"]], "defgroup": R["defaults"].get("group", "international"),
             "syssplits": {reader.esc(n): reader.splits_of(n) for n in sorted(extra_names)}}
    events = []
    for g in list(R["groups"]) + ["root", extra["defgroup"]]:
        events.append({"ev": "members", "kind": "group", "name": reader.esc(g), "members": sorted(reader.esc(m) for m in ureg.get_group(g).members)})
    for s in R["systems"]:
        events.append({"ev": "members", "kind": "system", "name": s, "members": sorted(reader.esc(m) for m in ureg.get_system(s, False).members)})
    syslist = list(R["systems"]) + ["None"]
    pool = canon if thorough else rng.sample(canon, 120)
    work = [({n: 1}, s) for n in pool for s in syslist]
    exps = [1, -1, 2, -2, 3]
    for _ in range(1500 if thorough else 300):
        d = {rng.choice(canon): rng.choice(exps) for _ in range(rng.randint(2, 3))}
        work.append((d, rng.choice(syslist)))
    rng.shuffle(work)                # default_system switches between consecutive questions
    for d, s in work:
        try:
            ureg.default_system = None if s == "None" else s
            q = Q(F(1), ureg.parse_units(defreg.expr(d))).to_base_units()
        except (OverflowError, ValueError):
            chk.skipped += 1        # fractional powers of huge factors (Planck / atomic systems) in exact arithmetic
            continue
        except Exception as e:
            chk.diverge({"clause": "base-units-raises", "exc": type(e).__name__, "src": "bundled"}, {"unit": d, "system": s})
            continue
        m = q.magnitude
        ok = isinstance(m, (F, int))
        num, den = defreg.residues(m) if ok else ([0, 0], [1, 1])
        units = []
        try:
            units = defreg.pairs((k, F(v).limit_denominator(10 ** 6)) for k, v in q.unit_items())
        except Exception:
            pass
        events.append({"ev": "base", "sys": s, "u": defreg.cont(d), "units": units, "num": num, "den": den, "_pyexact": ok})
        chk.case(("bundled-base", s, tuple(sorted(d.items()))))
    ureg.default_system = "mks"
    scopes = list(R["groups"]) + list(R["systems"])
    for _ in range(600 if thorough else 150):
        n, sc = rng.choice(canon), rng.choice(scopes)
        try:
            lst = sorted(reader.esc(next(iter((1 * x).unit_items()))[0]) for x in ureg.get_compatible_units(n, sc))
        except Exception as e:
            chk.diverge({"clause": "compatible-in-scope-raises", "exc": type(e).__name__}, {"unit": n, "scope": sc})
            continue
        events.append({"ev": "compat", "u": defreg.cont({n: 1}), "scope": reader.esc(sc), "listed": lst})
        chk.case(("bundled-compat", n, sc))
    for e, clause in defreg.validate(chk, "Trace_Sys", events, label="sys", extra=extra):
        small = {k: ([[i["s"], i["e"]] for i in v] if k == "u" else v) for k, v in e.items() if not k.startswith("_")}
        if "members" in small and len(small["members"]) > 30:
            small["members"] = small["members"][:30] + ["..."]
        chk.diverge({"clause": clause, "src": "bundled", "sys": e.get("sys") or e.get("name") or e.get("scope")}, small)
    chk.samples.append({"bundled_event": {k: ([[i["s"], i["e"]] for i in v] if k == "u" else v) for k, v in events[len(R["groups"]) + 12].items() if not k.startswith("_")}})


def replay(chk, rec):
    import json
    print(json.dumps(rec["detail"], indent=1)[:4000])
    chk.seed = rec.get("seed", 0)
    return run(chk)
