"""C15 - unit-rewriting helpers preserve the physical quantity.

1. TLC law run  : MC_C15 (Rewrite.tla): the nested loop of to_reduced_units over all containers of up to three units ends without
                  mergeable pair, keeps the dimensionality, only merges, is idempotent; the prefix choice of to_compact over
                  magnitudes mant*10^k (k in -36..36) x exponents is an available power and, for a first-power leading unit with
                  an unclamped choice, brings the magnitude into [1, 1000).
2. spec -> code : every reduce state on a materialised registry (to_reduced_units and ito_reduced_units: same container as the
                  model, same physical value), every compact state on the bundled registry with exact Fraction magnitudes (the
                  chosen prefix must be the model's; decade boundaries excluded).
3. code -> spec : bundled registry: random quantities (1-4 units, exponents -3..3, magnitudes over 60 decades, both signs; int,
                  float, Fraction, Decimal, ufloat) x every helper and its ito_ twin x default systems; events (input, output)
                  validated by Trace_Rewrite (dimensionality, physical value through fingerprints, root-only / reduced / single
                  prefix change); in-place twin = functional form; registries that rewrite automatically after arithmetic.
"""
import math
import os
import random
from decimal import Decimal
from fractions import Fraction as F

from .. import defreg, reader, tlaval
from ..engine import MachineryError, alarm, CaseTimeout

LINES = ["m = [L]", "s = [T]", "n = []", "cm = 1/100 * m", "km = 1000 * m", "ms = 1/1000 * s", "are = 100 * m ** 2"]
FACT = {"m": (F(1), {"[L]": 1}), "cm": (F(1, 100), {"[L]": 1}), "km": (F(1000), {"[L]": 1}), "s": (F(1), {"[T]": 1}),
        "ms": (F(1, 1000), {"[T]": 1}), "are": (F(100), {"[L]": 2}), "n": (F(1), {})}
ORDER = ["are", "cm", "km", "m", "ms", "n", "s"]


def cont_of(v):
    if v in ([], {}):
        return {}
    return {k: F(e[0], e[1]) for k, e in v.items()}


def factor(c):
    f = F(1)
    for n, e in c.items():
        if e.denominator != 1:
            return None
        f *= FACT[n][0] ** int(e)
    return f


def run(chk):
    import pint
    rng = random.Random(chk.seed)
    thorough = chk.tier == "thorough"
    wd = chk.workdir("gen")
    dump = os.path.join(wd, "r.dump")
    chk.tlc("laws+gen", "MC_C15", "MC_C15.cfg", wd=wd, args=["-dump", dump], timeout=1800)
    states = list(tlaval.parse_states(open(dump).read()))
    os.remove(dump)
    red = [st for st in states if st["kind"] == "reduce"]
    comp = [st for st in states if st["kind"] == "compact"]
    if len(red) < 500 or len(comp) < 500:
        raise MachineryError("generator: %d reduce, %d compact states" % (len(red), len(comp)))
    chk.mark("tlc")
    ureg = pint.UnitRegistry(LINES, non_int_type=F)
    for st in red:
        uc, want = cont_of(st["uc"]), cont_of(st["red"])
        chk.case(("reduce", repr(sorted(uc.items()))), nontrivial=uc != want, sample={"units": uc, "reduced": want})
        ordered = {n: (int(uc[n]) if uc[n].denominator == 1 else uc[n]) for n in ORDER if n in uc}      # the model's iteration order
        q = ureg.Quantity(F(3), ureg.UnitsContainer(ordered))
        before = (q.magnitude, dict(q.unit_items()))
        try:
            r = q.to_reduced_units()
            q2 = ureg.Quantity(F(3), ureg.UnitsContainer(ordered))
            q2.ito_reduced_units()
        except Exception as e:
            chk.diverge({"clause": "reduce-raises", "exc": type(e).__name__}, {"lines": LINES, "units": uc})
            continue
        got = {k: F(v) if not isinstance(v, float) else F(v).limit_denominator(1000) for k, v in r.unit_items()}
        if got != want:
            chk.diverge({"clause": "reduced-container", "nunits": len(uc)}, {"lines": LINES, "units": uc, "expected": want, "observed": got})
        fu, fr_ = factor(uc), factor(got)
        if fu is not None and fr_ is not None:
            val = r.magnitude
            ok = (F(val) * fr_ == 3 * fu) if not isinstance(val, float) else abs(val * float(fr_) - 3 * float(fu)) <= 1e-9 * abs(3 * float(fu))
            if not ok:
                chk.diverge({"clause": "reduce-changes-value"}, {"lines": LINES, "units": uc, "observed": [repr(val), got]})
        if (q2.magnitude, dict(q2.unit_items())) != (r.magnitude, dict(r.unit_items())):
            chk.diverge({"clause": "in-place-differs", "helper": "reduced"}, {"lines": LINES, "units": uc})
        if (q.magnitude, dict(q.unit_items())) != before:
            chk.diverge({"clause": "functional-form-mutates", "helper": "reduced"}, {"lines": LINES, "units": uc})
    chk.traces += len(red)
    chk.mark("reduce-replay")
    # ---- compact: exact magnitudes on the bundled registry
    dreg = pint.UnitRegistry(non_int_type=F)
    pname = {}
    for pn, d in defreg.table()[0]["prefixes"].items():
        v = d["value"]
        k = 0
        x = F(v)
        while x >= 10 and x.denominator == 1 and x % 10 == 0:
            x /= 10
            k += 1
        while x < 1:
            x *= 10
            k -= 1
        if x == 1:
            pname[k] = pn
    pname[0] = ""
    for st in comp:
        mant, k, p, pw = F(*st["m"][0]), st["m"][1], st["p"], st["pw"]
        if mant == 1:
            continue            # exact decade boundary: the library decides with a floating-point logarithm
        chk.case(("compact", str(mant), k, p), nontrivial=True, sample={"magnitude": "%s * 10**%d" % (mant, k), "unit": "gram**%d" % p, "prefix_power": pw})
        for sign in (1, -1):
            q = dreg.Quantity(sign * mant * F(10) ** k, dreg.UnitsContainer({"gram": p}))
            try:
                r = q.to_compact()
            except Exception as e:
                chk.diverge({"clause": "compact-raises", "exc": type(e).__name__}, {"magnitude": str(q.magnitude), "p": p})
                continue
            items = dict(r.unit_items())
            want = pname[pw] + "gram"
            if set(items) != {want} or items[want] != p:
                chk.diverge({"clause": "compact-prefix", "p": p}, {"magnitude": "%s * 10**%d" % (sign * mant, k), "p": p, "expected": want, "observed": {k_: str(v) for k_, v in items.items()}})
            elif r.magnitude * (F(10) ** pw) ** p != q.magnitude:
                chk.diverge({"clause": "compact-changes-value"}, {"magnitude": str(q.magnitude), "p": p, "observed": str(r.magnitude)})
    chk.traces += len(comp)
    chk.mark("compact-replay")
    events = drive_default(chk, rng, 2500 if thorough else 500)
    for e, clause in defreg.validate(chk, "Trace_Rewrite", events, label="rw"):
        chk.diverge({"clause": clause, "helper": e["op"], "src": "bundled", "system": e.get("_sys")},
                    {"in": [[i["s"], i["e"]] for i in e["a"]], "out": [[i["s"], i["e"]] for i in e["b"]], "magnitude": e.get("_m"), "system": e.get("_sys")})
    chk.mark("bundled")
    special_inputs(chk)
    auto_registries(chk, rng)
    return chk.finish(
        rule="cases = reduce and compact states of MC_C15 replayed, random quantities x helpers x systems over the bundled registry validated by "
             "Trace_Rewrite, special magnitudes, automatic-rewrite registries; distinct by input; non-trivial = the helper has something to do",
        exhaustive=True)


FRACTIONAL_DIM = ["gauss", "oersted", "franklin", "maxwell", "statvolt", "statampere", "stattesla", "statweber"]     # [mass]**0.5 ... dimensions
DIMLESS_NAMED = ["radian", "degree", "percent", "ppm", "bit", "byte", "count", "steradian", "turn", "permille"]


def drive_default(chk, rng, n):
    import pint
    ureg = pint.UnitRegistry(non_int_type=F)
    Q = ureg.Quantity
    canon, spell, prefixes = defreg.pools()
    R, _T = defreg.table()
    pnames = [p for p in R["prefixes"] if p not in ("demi", "semi", "sesqui")]
    systems = ["mks", "cgs", "imperial", "US", "SI", None]
    events = []
    helpers = ["root", "base", "reduced", "compact"]
    while len(events) < n:
        d = {}
        for _ in range(rng.randint(1, 4)):
            nm = rng.choice(canon)
            if rng.random() < 0.4:
                nm = rng.choice(pnames) + nm
            d[nm] = rng.choice([1, 1, 2, 3, -1, -2, -3])
        if rng.random() < 0.08:
            d[rng.choice(FRACTIONAL_DIM)] = rng.choice([1, 2, -1])
        if rng.random() < 0.12:
            # several distinct dimensionless named units next to a dimensional one: they are mergeable (equal - empty - dimensionality)
            for nm in rng.sample(DIMLESS_NAMED, rng.randint(2, 3)):
                d[nm] = rng.choice([1, 1, -1, 2])
        m = F(rng.randint(1, 9999), rng.choice([1, 1, 3, 7])) * F(10) ** rng.randint(-30, 30) * rng.choice([1, -1])
        op = rng.choice(helpers)
        sysn = rng.choice(systems)
        try:
            with alarm(5):
                ureg.default_system = sysn
                q = Q(m, ureg.parse_units(defreg.expr(d)))
                a_items = {k: F(v) for k, v in q.unit_items()}
                fn = {"root": (q.to_root_units, "ito_root_units"), "base": (q.to_base_units, "ito_base_units"),
                      "reduced": (q.to_reduced_units, "ito_reduced_units"), "compact": (q.to_compact, None)}[op]
                r = fn[0]()
                twin = None
                if fn[1]:
                    twin = Q(m, q.units)
                    getattr(twin, fn[1])()
        except CaseTimeout:
            chk.skipped += 1
            continue
        except (OverflowError, ValueError, ZeroDivisionError):
            chk.skipped += 1
            continue
        except Exception as e:
            chk.diverge({"clause": "helper-raises", "helper": op, "exc": type(e).__name__, "class": "compact-ambiguous-name" if op == "compact" and isinstance(e, AssertionError) else "plain"},
                        {"units": d, "magnitude": str(m), "system": sysn})
            continue
        if twin is not None and not (twin.units == r.units and (twin.magnitude == r.magnitude or
                                     (isinstance(r.magnitude, float) and abs(twin.magnitude - r.magnitude) <= 1e-12 * abs(r.magnitude)))):
            chk.diverge({"clause": "in-place-differs", "helper": op}, {"units": d, "magnitude": str(m), "functional": repr((r.magnitude, str(dict(r.unit_items())))),
                                                                   "in_place": repr((twin.magnitude, str(dict(twin.unit_items()))))})
        if (q.magnitude, {k: F(v) for k, v in q.unit_items()}) != (m, a_items):
            chk.diverge({"clause": "functional-form-mutates", "helper": op}, {"units": d})
        exact = isinstance(r.magnitude, (F, int))
        rm = r.magnitude if exact else F(0)
        try:
            b_cont = defreg.cont({k: F(v).limit_denominator(10 ** 6) for k, v in r.unit_items()})
        except Exception:
            chk.skipped += 1
            continue
        changed = dict(r.unit_items()) != dict(q.unit_items())
        a_cont = defreg.cont(a_items)
        for it_, nm_ in list(zip(a_cont, a_items)) + list(zip(b_cont, dict(r.unit_items()))):
            alts = [cn for pn, cn in defreg.readings(nm_) if pn] if nm_ in defreg._cache["sp"][0] else []
            it_["alt"] = reader.esc(alts[0]) if alts else "_none"
        events.append({"ev": "rw", "op": op, "a": a_cont, "b": b_cont, "am": list(defreg.residues(m)), "bm": list(defreg.residues(rm)),
                       "exactmag": exact, "changed": changed, "_m": str(m), "_sys": str(sysn)})
        chk.case(("rw", op, repr(sorted(d.items())), str(m), str(sysn)), nontrivial=changed)
        # to_compact: first-power leading unit -> magnitude in [1, 1000) when an unclamped prefix exists (harness arithmetic)
        if op == "compact" and exact and changed:
            items = list(r.unit_items())
            strip = lambda nm: ureg.parse_unit_name(nm)[0][1] if ureg.parse_unit_name(nm) else nm
            # the leading unit is the first positive-exponent unit of the *input* (prefixes stripped); in the result it is the
            # unit with the same stem (renaming moves it to the end of the container)
            inp = [(strip(k), v) for k, v in q.unit_items()]
            stem = next((k for k, v in inp if v > 0), inp[0][0])
            lead = next(((k, v) for k, v in items if strip(k) == stem), items[0])
            if lead[1] == 1 and not (1 <= abs(F(r.magnitude)) < 1000):
                qb = abs(F(r.magnitude))
                # outside the range is legitimate only at the ends of the prefix table (quecto / quetta)
                if not lead[0].startswith(("quecto", "quetta")):
                    chk.diverge({"clause": "compact-range"}, {"units": d, "magnitude": str(m), "result": [str(r.magnitude), {k: str(v) for k, v in items}]})
    ureg.default_system = "mks"
    chk.samples.append({"bundled_event": {"op": events[0]["op"], "in": [[i["s"], i["e"]] for i in events[0]["a"]], "out": [[i["s"], i["e"]] for i in events[0]["b"]]}})
    return events


def special_inputs(chk):
    """unitless, zero, NaN and infinite inputs are returned unchanged by to_compact (every numeric type)."""
    import pint
    from uncertainties import ufloat
    ureg = pint.UnitRegistry()
    cases = [(0.0, "meter"), (math.nan, "meter"), (math.inf, "meter"), (-math.inf, "kilometer"), (1500.0, ""), (Decimal("Infinity"), "gram"),
             (Decimal("-Infinity"), "gram"), (Decimal("NaN"), "gram"), (0, "second"), (ufloat(0.0, 0.1), "meter"), (ufloat(-math.inf, 0.1), "meter"),
             # pure numbers written with units that cancel: nothing to prefix
             (7000.0, "kilometer / millimeter"), (0.002, "millisecond / second"), (7000.0, "inch / foot"), (12345.0, "hour / minute"), (3e6, "kilogram * second / gram / microsecond"),
             (5000.0, "meter / meter")]
    for m, un in cases:
        chk.case(("special", repr(m), un))
        q = ureg.Quantity(m, un)
        try:
            r = q.to_compact()
        except Exception as e:
            chk.diverge({"clause": "compact-special-raises", "exc": type(e).__name__, "magnitude": repr(m)}, {"magnitude": repr(m), "unit": un})
            continue
        if r.units != q.units or not (repr(r.magnitude) == repr(q.magnitude)):
            chk.diverge({"clause": "compact-special-changed", "magnitude": repr(m)}, {"unit": un, "result": repr((r.magnitude, str(r.units)))})
    # every real numeric type is compacted alike
    for T, mk in (("Decimal", lambda v: Decimal(v)), ("Fraction", lambda v: F(v)), ("int", lambda v: int(float(v))), ("float", float), ("numpy.float64", lambda v: __import__("numpy").float64(v))):
        for v, un in (("1.5E+7", "meter"), ("2500", "kilometer"), ("0.0005", "second"), ("123456789", "gram")):
            if T == "int" and float(v) < 1:
                continue
            chk.case(("typed-compact", T, v, un))
            try:
                r = ureg.Quantity(mk(v), un).to_compact()
            except Exception as e:
                chk.diverge({"clause": "compact-special-raises", "exc": type(e).__name__, "magnitude": T}, {"magnitude": v, "unit": un})
                continue
            if not (1 <= abs(float(r.magnitude)) < 1000) or abs(float(r.to(un).magnitude) - float(v)) > 1e-9 * float(v):
                chk.diverge({"clause": "compact-range", "magnitude": T}, {"input": v, "unit": un, "result": repr((r.magnitude, str(r.units)))})
    # logarithmic units: the in-place forms equal the functional ones for plain numbers as for arrays
    for un, dst in (("dBm", "milliwatt"), ("dB", "dimensionless"), ("octave", "dimensionless"), ("neper", "dimensionless")):
        for form in ("ito", "ito_root_units", "ito_base_units"):
            chk.case(("log-inplace", un, form))
            q = ureg.Quantity(20.0, un)
            try:
                want = q.to(dst) if form == "ito" else (q.to_root_units() if form == "ito_root_units" else q.to_base_units())
                twin = ureg.Quantity(20.0, un)
                twin.ito(dst) if form == "ito" else getattr(twin, form)()
            except Exception as e:
                chk.diverge({"clause": "in-place-differs", "helper": form, "exc": type(e).__name__, "unit": "logarithmic"}, {"unit": un, "error": repr(e)[:200]})
                continue
            if twin.units != want.units or abs(float(twin.magnitude) - float(want.magnitude)) > 1e-9 * max(1.0, abs(float(want.magnitude))):
                chk.diverge({"clause": "in-place-differs", "helper": form, "unit": "logarithmic"}, {"unit": un, "functional": str(want), "in_place": str(twin)})
    # units of half-integer dimension (Gaussian / ESU) next to units over the same base dimensions: reduce has nothing to merge but must
    # not fail; value and dimensionality are kept
    for expr in ("gauss * pascal", "franklin * joule", "statvolt / newton", "oersted * kilogram / second", "maxwell ** 2 / joule"):
        for form in ("to_reduced_units", "ito_reduced_units", "auto_reduce"):
            chk.case(("fractional-dimension-reduce", expr, form))
            try:
                q = ureg.Quantity(2.5, expr)
                if form == "to_reduced_units":
                    r = q.to_reduced_units()
                elif form == "ito_reduced_units":
                    r = ureg.Quantity(2.5, expr)
                    r.ito_reduced_units()
                else:
                    import pint as _p
                    ua = _p.UnitRegistry(auto_reduce_dimensions=True)
                    parts = expr.replace("**", "^").split(" ")
                    r = ua.Quantity(2.5, expr) * ua.Quantity(1.0, "dimensionless")
                    q = ua.Quantity(2.5, expr)
                ok = r.dimensionality == q.dimensionality and abs(r.to_root_units().magnitude - q.to_root_units().magnitude) <= 1e-9 * abs(q.to_root_units().magnitude)
            except Exception as e:
                chk.diverge({"clause": "helper-raises", "helper": "reduced", "exc": type(e).__name__, "class": "fractional-dimension"}, {"units": expr, "form": form})
                continue
            if not ok:
                chk.diverge({"clause": "physical-value", "helper": "reduced", "class": "fractional-dimension"}, {"units": expr, "form": form, "result": str(r)})
    # to_reduced_units leaves no two units whose dimensionalities are proportional (equal, a power, a reciprocal, both empty): a fixed list
    # of such pairs, the proportionality decided here from the registry's dimensionalities
    def proportional(d1, d2):
        if set(d1) != set(d2):
            return False
        if not d1:
            return True
        k = next(iter(d1))
        r = F(d1[k]).limit_denominator(1000) / F(d2[k]).limit_denominator(1000)
        return all(F(d1[x]).limit_denominator(1000) == r * F(d2[x]).limit_denominator(1000) for x in d1)
    for expr in ("hertz ** 2 * second", "becquerel * hour * meter", "reciprocal_centimeter * inch ** 3", "liter * meter", "hectare / foot", "gallon * mile / hour",
                 "knot * gray", "hertz * second * meter", "second * millisecond", "degree * radian * meter", "byte * second / bit", "acre * yard ** -1 * kilogram"):
        for form in ("to_reduced_units", "ito_reduced_units"):
            chk.case(("mergeable-pairs", expr, form))
            try:
                q = ureg.Quantity(3.0, expr)
                r = q.to_reduced_units() if form == "to_reduced_units" else (lambda t: (t.ito_reduced_units(), t)[1])(ureg.Quantity(3.0, expr))
                names = [k for k, _ in r.unit_items()]
                dims = {k: dict(ureg.get_dimensionality(k)) for k in names}
                left = [(a, b) for i, a in enumerate(names) for b in names[i + 1:] if proportional(dims[a], dims[b])]
                same = r.dimensionality == q.dimensionality and abs(r.to_root_units().magnitude - q.to_root_units().magnitude) <= 1e-9 * abs(q.to_root_units().magnitude)
            except Exception as e:
                chk.diverge({"clause": "helper-raises", "helper": "reduced", "exc": type(e).__name__, "class": "mergeable-pairs"}, {"units": expr, "form": form})
                continue
            if left or not same:
                chk.diverge({"clause": "mergeable-pair-left" if left else "physical-value", "helper": "reduced", "class": "mergeable-pairs"}, {"units": expr, "form": form, "result": str(r), "pairs": left})
    # uncertain magnitudes: the nominal value decides the prefix
    for m, un in ((ufloat(2500.0, 1.0), "kilometer"), (ufloat(0.0025, 0.0001), "millisecond"), (ufloat(2.5e7, 1.0), "gram")):
        chk.case(("ufloat-compact", repr(m), un))
        r = ureg.Quantity(m, un).to_compact()
        nv = abs(r.magnitude.nominal_value)
        if not (1 <= nv < 1000):
            chk.diverge({"clause": "compact-range", "magnitude": "ufloat"}, {"input": repr(m), "unit": un, "result": repr((r.magnitude, str(r.units)))})


def auto_registries(chk, rng):
    """auto_reduce_dimensions / autoconvert_to_preferred: arithmetic followed by the automatic rewrite = same physical value."""
    import pint
    plain = pint.UnitRegistry()
    auto = pint.UnitRegistry(auto_reduce_dimensions=True)
    pairs = [("kilometer", "meter"), ("hour", "second"), ("acre", "meter"), ("liter", "meter"), ("hectare", "foot"), ("inch", "centimeter"), ("millisecond", "second")]
    for a, b in pairs:
        for op in ("mul", "div"):
            for ea, eb in ((1, 1), (2, 1), (1, 3), (2, -3)):
                chk.case(("auto-reduce", a, b, op, ea, eb))
                try:
                    x, y = plain.Quantity(3.0, a) ** ea, plain.Quantity(2.0, b) ** eb
                    xa, ya = auto.Quantity(3.0, a) ** ea, auto.Quantity(2.0, b) ** eb
                    rp = (x * y) if op == "mul" else (x / y)
                    ra = (xa * ya) if op == "mul" else (xa / ya)
                    vp, va = rp.to_root_units(), ra.to_root_units()
                except Exception as e:
                    chk.diverge({"clause": "auto-reduce-raises", "exc": type(e).__name__}, {"a": a, "b": b, "op": op, "exps": [ea, eb]})
                    continue
                if dict(vp.unit_items()) != dict(va.unit_items()) or abs(vp.magnitude - va.magnitude) > 1e-9 * abs(vp.magnitude):
                    chk.diverge({"clause": "auto-reduce-changes-value"}, {"a": a, "b": b, "op": op, "plain": str(vp), "auto": str(va)})


def replay(chk, rec):
    import json
    print(json.dumps(rec["detail"], indent=1)[:4000])
    chk.seed = rec.get("seed", 0)
    return run(chk)
