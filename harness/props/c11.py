"""C11 - context conversions apply the declared rules along a shortest chain.

1. TLC law run  : MC_C11 (instance of PintRegistry): every stack of up to three activations over a pool of contexts with
                  colliding edges, a direct edge competing with a two-step chain, parameters and a redefinition:
                  ShortestIsShortest, MostRecentWins, Unreachable, SameDimPlain, RedefinitionScoped.
2. spec -> code : every reachable stack, with the admissible answers for 16 probe pairs (a *set* where several shortest
                  paths / several enclosing contexts are admissible), is realised on real registries through every activation
                  form: enable_contexts (sequential and in one call), nested with-blocks, q.to(u, ctx..., **kw),
                  ureg.convert, @ureg.with_context, by alias, by Context object, contexts loaded from definition text or
                  built through the API; Fraction registries, exact comparison.
3. code -> spec : bundled contexts (spectroscopy, boltzmann, energy, chemistry, textile): conversions between random units of
                  the linked dimensionalities under random stacks are recomputed in fingerprint arithmetic by Trace_Ctx from the
                  equations as read by the independent reader.
"""
import os
import random
from fractions import Fraction as F

from .. import defreg, pintmachine as pm, reader
from ..engine import MachineryError


def run(chk):
    import pint
    rng = random.Random(chk.seed)
    thorough = chk.tier == "thorough"
    wd = chk.workdir("gen")
    dump = os.path.join(wd, "c11.dump")
    g = chk.tlc("laws+gen", "MC_C11", "MC_C11.cfg", wd=wd, args=["-dump", dump])
    model = pm.Model(pm.parse_const(g.out))
    states = [st for st in pm.tlaval.parse_states(open(dump).read()) if st["hist"]]
    os.remove(dump)
    if len(states) < 100:
        raise MachineryError("generator produced only %d stacks" % len(states))
    # group the specification's variants (parameter inheritance choices) by operation sequence
    groups = {}
    for st in states:
        groups.setdefault(tuple(repr(h["op"]) for h in st["hist"]), []).append(st["hist"])
    keys = [tuple(k) for k in model.c["probes"]]
    forms = ["enable-seq", "enable-once", "with-nested", "to-args", "ito-args", "m_as-args", "convert-with", "decorator", "alias", "object", "from-text"]
    nforms = 0
    for opkey, variants in groups.items():
        ops = [h["op"] for h in variants[0]]
        chk.case(opkey, nontrivial=len(ops) > 1, sample={"activations": ops, "answers_a_to_g": sorted(map(repr, pm.allowed(("conv", "a", "g"), variants[0][-1]["obs"][("conv", "a", "g")])))})
        for form in forms:
            got = realise(model, ops, form, keys)
            if got is None:
                continue
            nforms += 1
            # some variant must explain every probe
            best = None
            for hist in variants:
                bad = [k for k in keys if not pm.matches(k, got[k], hist[-1]["obs"][k])]
                if best is None or len(bad) < len(best[1]):
                    best = (hist, bad)
            for k in best[1]:
                al = pm.allowed(k, best[0][-1]["obs"][k])
                kind = "value" if (got[k][0] == "ok" and any(a[0] == "ok" for a in al)) else "outcome"
                chk.diverge({"clause": kind, "form": form, "nctx": len(ops), "expected_kind": sorted({a[0] for a in al})[0], "observed_kind": got[k][0]},
                            {"registry": model.lines(), "activations": ops, "form": form, "probe": k, "expected": sorted(map(repr, al)), "observed": repr(got[k])})
    chk.traces += len(groups)
    chk.notes["stack_form_realisations"] = nforms
    # the graph search iterates over sets of dimension containers: the same stacks under other hash seeds
    import json, subprocess, sys
    work = os.path.join(wd, "hashseed.json")
    multi = {k: v for k, v in groups.items() if len(v[0]) >= 2}
    with open(work, "w") as fh:
        json.dump({"const": model.c, "stacks": [[h["op"] for h in v[0]] for v in multi.values()]}, fh)
    for seed in (("1", "2", "3", "4", "5") if thorough else ("1", "2", "3")):
        p = subprocess.run([sys.executable, "-m", "harness.props.c11", work], capture_output=True, text=True,
                           env=dict(os.environ, PYTHONHASHSEED=seed), cwd=os.path.dirname(os.path.dirname(os.path.dirname(os.path.abspath(__file__)))))
        if p.returncode != 0:
            raise MachineryError("hash-seed worker failed: " + p.stderr[-800:])
        answers = json.loads(p.stdout)
        for (opkey, variants), got_l in zip(multi.items(), answers):
            got = {tuple(k): (tuple(v[:1]) + ((F(v[1][0], v[1][1]),) if len(v) > 1 and isinstance(v[1], list) else tuple(v[1:]))) for k, v in got_l}
            chk.case((opkey, "hashseed", seed))
            best = None
            for hist in variants:
                bad = [k for k in keys if not pm.matches(k, got[k], hist[-1]["obs"][k])]
                if best is None or len(bad) < len(best[1]):
                    best = (hist, bad)
            for k in best[1]:
                al = pm.allowed(k, best[0][-1]["obs"][k])
                chk.diverge({"clause": "value-or-outcome", "form": "enable-seq", "hashseed": "varied", "nctx": len(variants[0])},
                            {"registry": model.lines(), "activations": [h["op"] for h in variants[0]], "probe": k, "PYTHONHASHSEED": seed,
                             "expected": sorted(map(repr, al)), "observed": repr(got[k])})
    bundled(chk, rng, thorough)
    two_parameters(chk)
    array_parameters(chk)
    derived_endpoint_history(chk)
    return chk.finish(
        rule="cases = stacks of up to three activations of MC_C11 (context, keyword parameter) realised through nine activation forms, 16 "
             "probe conversions each compared with the specification's admissible set; distinct by activation sequence; non-trivial = at "
             "least two activations; plus bundled-context conversions validated by Trace_Ctx",
        exhaustive=True)


def realise(model, ops, form, keys):
    """Bring a real registry into the stack `ops` (oldest first) through activation form `form`; return probe answers."""
    import pint
    names = [o[1] for o in ops]
    kws = [pm.fr(o[2]) for o in ops]
    kwd = [({"p": k} if k != 0 else {}) for k in kws]
    single_kw = len({k for k in kws if k != 0}) <= 1 and (not any(kws) or all(k != 0 or model.c["ctxs"][n]["default"] == [0, 1] for n, k in zip(names, kws)))
    u = pm.registry_from_text(model) if form in ("alias", "from-text") else model.registry()

    def probes():
        return {k: pm.probe(u, k) for k in keys}
    if form in ("enable-seq", "from-text"):
        for n, kw in zip(names, kwd):
            u.enable_contexts(n, **kw)
        return probes()
    if form == "alias":
        for n, kw in zip(names, kwd):
            u.enable_contexts(n.lower() + "_alias", **kw)
        return probes()
    if form == "object":
        for n, kw in zip(names, kwd):
            u.enable_contexts(u._contexts[n] if hasattr(u, "_contexts") else n, **kw)
        return probes()
    if form == "with-nested":
        cms = [u.context(n, **kw) for n, kw in zip(names, kwd)]
        for cm in cms:
            cm.__enter__()
        out = probes()
        for cm in reversed(cms):
            cm.__exit__(None, None, None)
        if any(pm.probe(u, k) != ("dimerr",) for k in keys if k[1] in "abgh" and k[2] in "abgh"):
            return {k: ("err", "context-not-left") for k in keys}
        return out
    # forms that activate all contexts in ONE call share one keyword dict and have no enclosing context to inherit from:
    # only stacks whose specification is the same under that reading
    if not one_call_ok(model, ops) or (form == "decorator" and len(ops) > 1):       # with_context takes one context
        return None
    kw = next((k for k in kwd if k), {})
    if form == "enable-once":
        u.enable_contexts(*names, **kw)          # last named = most recent
        return probes()
    out = {}
    for k in keys:
        try:
            if form == "to-args":
                out[k] = ("ok", F(u.Quantity(F(3), k[1]).to(k[2], *names, **kw).magnitude))
            elif form == "ito-args":
                q = u.Quantity(F(3), k[1])
                q.ito(k[2], *names, **kw)
                out[k] = ("ok", F(q.magnitude))
            elif form == "m_as-args":
                with u.context(*names, **kw):
                    out[k] = ("ok", F(u.Quantity(F(3), k[1]).m_as(k[2])))
            elif form == "convert-with":
                with u.context(*names, **kw):
                    out[k] = ("ok", F(u.convert(F(3), k[1], k[2])))
            elif form == "decorator":
                @u.with_context(*names, **kw)
                def f(a, b):
                    return u.Quantity(F(3), a).to(b).magnitude
                out[k] = ("ok", F(f(k[1], k[2])))
        except pint.UndefinedUnitError:
            out[k] = ("undef",)
        except pint.DimensionalityError:
            out[k] = ("dimerr",)
        except Exception as e:
            out[k] = ("err", type(e).__name__)
    return out


def one_call_ok(model, ops):
    """In a single call every context receives the same keywords: equivalent to the sequential stack only when at most one
    keyword value is involved and every parameterised context either gets it or nobody gives any."""
    kws = [pm.fr(o[2]) for o in ops]
    param = [model.c["ctxs"][o[1]]["default"] != [0, 1] for o in ops]
    given = {k for k in kws if k != 0}
    if len(given) > 1:
        return False
    if given:
        return all(k != 0 for k, p in zip(kws, param) if p)
    # no keywords: sequential activation would inherit defaults of an enclosing context; a single call does the same
    # only if at most one parameterised context is present
    return sum(param) <= 1


# ------------------------------------------------------------------------------------------------ bundled contexts
def mono(eq):
    """equation text -> {name: exponent} via the independent reader's expression evaluator (value and parameters are names)"""
    v = reader.parse_expr(eq)
    return v.scale, v.units, v.irr


def bundled(chk, rng, thorough):
    import pint
    R, T = defreg.table()
    ureg = pint.UnitRegistry(non_int_type=F)
    Q = ureg.Quantity
    canon, spell, prefixes = defreg.pools()
    table = {}
    refnames = set()
    for name in ("spectroscopy", "boltzmann", "energy", "chemistry", "textile"):
        c = R["contexts"][name]
        rules = []
        for rel in c["relations"]:
            sc, units, irr = mono(rel["eq"])
            if irr or not isinstance(sc, F):
                continue
            m = [[reader.esc(k), [e.numerator, e.denominator]] for k, e in units.items()]
            refnames |= {k for k in units if k != "value" and k not in c["defaults"]}
            src = reader.parse_expr(rel["src"]).units
            dst = reader.parse_expr(rel["dst"]).units
            P = lambda d: sorted([reader.esc(k), [e.numerator, e.denominator]] for k, e in d.items())
            rules.append({"src": P(src), "dst": P(dst), "s": reader.fp(sc), "mono": m})
            if rel["bidir"]:
                rules.append({"src": P(dst), "dst": P(src), "s": reader.fp(sc), "mono": m})
        table[name] = {"rules": rules, "defaults": {k: reader.fp(v) for k, v in c["defaults"].items()}, "aliases": c["aliases"]}
    extra = {"ctxs": table, "ctxsplits": {reader.esc(s): reader.splits_of(s) for s in sorted(refnames)}}
    dims = {}
    for n in canon:
        dims.setdefault(frozenset(dict(ureg.get_dimensionality(n)).items()), []).append(n)
    pick = lambda dimstr: dims.get(frozenset(dict(ureg.get_dimensionality(dimstr)).items()), [])
    pools = {"[length]": pick("[length]"), "[frequency]": pick("[frequency]"), "[energy]": pick("[energy]"), "[wavenumber]": pick("1/[length]"),
             "[temperature]": ["kelvin", "degree_Rankine"], "[mass]": pick("[mass]"), "[substance]": pick("[substance]"),
             "[mass]/[length]": pick("[mass]/[length]"), "[length]/[mass]": pick("[length]/[mass]")}
    stacks = [["spectroscopy"], ["boltzmann"], ["energy"], ["chemistry"], ["textile"], ["spectroscopy", "boltzmann"], ["energy", "spectroscopy"],
              ["boltzmann", "energy", "spectroscopy"], ["chemistry", "textile"], ["spectroscopy", "energy", "boltzmann", "chemistry"]]
    events = []
    for _ in range(2500 if thorough else 500):
        stack = rng.choice(stacks)
        kws = {}
        if "spectroscopy" in stack and rng.random() < 0.5:
            kws["n"] = rng.choice([F(3, 2), F(4, 3)])
        if "chemistry" in stack:
            kws["mw"] = Q(F(18), "gram/mole")
        dnames = [d for d in pools if pools[d]]
        a = rng.choice(pools[rng.choice(dnames)])
        b = rng.choice(pools[rng.choice(dnames)])
        x = rng.choice([F(1), F(5, 2), F(300), F(1, 1000)])
        try:
            with ureg.context(*stack, **kws):
                r = Q(x, a).to(b).magnitude
            res = "ok"
        except pint.DimensionalityError:
            r, res = F(0), "Dimensionality"
        except Exception as e:
            r, res = F(0), "other:" + type(e).__name__
        if not isinstance(r, (F, int)):
            chk.skipped += 1
            continue
        num, den = defreg.residues(r)
        events.append({"ev": "ctxconv", "stack": list(reversed(stack)),            # most recent first
                       "params": {k: ({"x": list(defreg.residues(v.magnitude)), "u": defreg.cont({"gram": 1, "mole": -1})} if hasattr(v, "magnitude")
                                      else {"x": list(defreg.residues(v)), "u": []}) for k, v in kws.items()},
                       "a": defreg.cont({a: 1}), "b": defreg.cont({b: 1}), "x": list(defreg.residues(x)), "res": res if not res.startswith("other") else "other",
                       "num": num, "den": den})
        chk.case(("ctxconv", tuple(stack), a, b, x, tuple(sorted(kws))))
    for e, clause in defreg.validate(chk, "Trace_Ctx", events, label="ctx", extra=extra):
        chk.diverge({"clause": clause, "src": "bundled-contexts", "nctx": len(e["stack"])},
                    {k: ([[i["s"], i["e"]] for i in v] if k in ("a", "b") else v) for k, v in e.items() if not k.startswith("_")})
    if events:
        e = events[0]
        chk.samples.append({"bundled": {"stack": e["stack"], "a": e["a"][0]["s"], "b": e["b"][0]["s"], "res": e["res"]}})


def worker(path):
    """subprocess entry (other PYTHONHASHSEED): realise each stack with enable-seq and print the probe answers"""
    import json, logging, warnings
    logging.disable(logging.CRITICAL)
    warnings.simplefilter("ignore")
    d = json.load(open(path))
    model = pm.Model(d["const"])
    keys = [tuple(k) for k in model.c["probes"]]
    out = []
    for ops in d["stacks"]:
        got = realise(model, ops, "enable-seq", keys)
        out.append([[list(k), [v[0]] + ([[v[1].numerator, v[1].denominator]] if len(v) > 1 and isinstance(v[1], F) else list(v[1:]))] for k, v in got.items()])
    print(json.dumps(out))


def two_parameters(chk):
    """parameters are resolved one by one: a keyword of the call, else the value the single enclosing active context was entered with, else
    the declared default - entering the inner context with one keyword does not stop the other parameter from being inherited.
    (One enclosing context only: with deeper stacks the lender is not fixed by the statement, see ParamChoices in PintRegistry.tla.)"""
    import pint
    lines = ["a = [A]", "b = [B]", "g = [G]"]
    forms = ("with", "enable", "per-call", "decorator")
    for outer_n, inner_kw, want in ((3, {"k": 5}, {15}), (3, {}, {3}), (None, {"k": 5}, {10, 5}), (3, {"k": 5, "n": 7}, {35}), (None, {}, {2, 1})):
        for form in forms:
            chk.case(("two-parameters", outer_n, tuple(sorted(inner_kw.items())), form), nontrivial=True)
            u = pint.UnitRegistry(lines, non_int_type=F)
            outer = pint.Context("outer", defaults={"n": 2})
            outer.add_transformation("[A]", "[B]", lambda ureg, x, n: x * n * ureg.Quantity(1, "b / a"))
            inner = pint.Context("inner", defaults={"n": 1, "k": 1})
            inner.add_transformation("[B]", "[G]", lambda ureg, x, n, k: x * n * k * ureg.Quantity(1, "g / b"))
            u.add_context(outer)
            u.add_context(inner)
            okw = {} if outer_n is None else {"n": outer_n}
            q = u.Quantity(F(1), "b")
            try:
                if form == "with":
                    with u.context("outer", **okw):
                        with u.context("inner", **inner_kw):
                            got = q.to("g").magnitude
                elif form == "enable":
                    u.enable_contexts("outer", **okw)
                    u.enable_contexts("inner", **inner_kw)
                    got = q.to("g").magnitude
                elif form == "per-call":
                    with u.context("outer", **okw):
                        got = q.to("g", "inner", **inner_kw).magnitude
                else:
                    with u.context("outer", **okw):
                        @u.with_context("inner", **inner_kw)
                        def f():
                            return q.to("g").magnitude
                        got = f()
            except Exception as e:
                chk.diverge({"clause": "two-parameters-raises", "form": form, "exc": type(e).__name__}, {"outer_n": outer_n, "inner": inner_kw})
                continue
            # expected: n = call keyword, else the value the enclosing context was entered with, else a declared default (the enclosing
            # context's 2 or the inner context's 1: the statement does not say which, both are admitted); k likewise
            if got not in want:
                chk.diverge({"clause": "parameter-resolution", "form": form, "inner_keywords": sorted(inner_kw)}, {"outer_n": outer_n, "inner": inner_kw, "expected": sorted(want), "observed": str(got)})


def derived_endpoint_history(chk):
    """a rule whose endpoints were written as *derived* dimensions ([V] = [A] / [T]) in a context built by program: every activation
    applies it, with the keyword of the call or else the declared default - whatever the earlier activations of the same context
    were given (sequences of three activations, with and without a keyword, per-call and with-block forms)"""
    import itertools
    import pint
    lines = ["a = [A]", "t = [T]", "b = [B]", "[V] = [A] / [T]", "v = a / t"]
    for form in ("per-call", "with"):
        for seq in itertools.product((None, 2, 5), repeat=3):
            chk.case(("derived-endpoint-history", form, seq), nontrivial=True)
            u = pint.UnitRegistry(lines, non_int_type=F)
            c = pint.Context("c", defaults={"k": 1})
            c.add_transformation("[V]", "[B]", lambda ureg, x, k: x * k * ureg.Quantity(1, "b / v"))
            u.add_context(c)
            q = u.Quantity(F(3), "v")
            for i, k in enumerate(seq):
                kw = {} if k is None else {"k": k}
                try:
                    if form == "per-call":
                        got = q.to("b", "c", **kw).magnitude
                    else:
                        with u.context("c", **kw):
                            got = q.to("b").magnitude
                            comp = q.is_compatible_with("b")
                        if not comp:
                            got = "not-compatible"
                except Exception as e:
                    got = "raises " + type(e).__name__
                if got != 3 * (k or 1):
                    chk.diverge({"clause": "derived-endpoint-history", "form": form, "keyword_now": k is not None, "keyword_first": seq[0] is not None},
                                {"registry": lines, "keywords": list(seq[:i + 1]), "expected": 3 * (k or 1), "observed": str(got)})
                    break


def array_parameters(chk):
    """a context parameter is a value handed to the rule's equation: an array (not hashable) is as good as a number, in every form"""
    import numpy as np
    import pint
    u = pint.UnitRegistry(["a = [A]", "b = [B]"])
    c = pint.Context("c", defaults={"n": 1.0})
    c.add_transformation("[A]", "[B]", lambda ureg, x, n: x * n * ureg.Quantity(1, "b / a"))
    u.add_context(c)
    n = np.array([1.0, 2.0, 4.0])
    q = u.Quantity(3.0, "a")
    forms = {"to": lambda: q.to("b", "c", n=n), "with": lambda: (lambda: [u.enable_contexts("c", n=n), q.to("b"), u.disable_contexts()][1])(),
             "quantity-parameter": lambda: q.to("b", "c", n=u.Quantity(n, "dimensionless"))}
    for name, f in forms.items():
        chk.case(("array-parameter", name))
        try:
            r = f()
            ok = np.allclose(np.asarray(r.to("b").magnitude, dtype=float), 3.0 * n)
        except Exception as e:
            try:
                u.disable_contexts()
            except Exception:
                pass
            chk.diverge({"clause": "array-parameter-raises", "form": name, "exc": type(e).__name__}, {"form": name, "error": repr(e)[:200]})
            continue
        if not ok:
            chk.diverge({"clause": "array-parameter", "form": name}, {"form": name, "observed": repr(r)})


def replay(chk, rec):
    import json
    print(json.dumps(rec["detail"], indent=1)[:4000])
    chk.seed = rec.get("seed", 0)
    return run(chk)


if __name__ == "__main__":
    import sys
    worker(sys.argv[1])
