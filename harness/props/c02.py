"""C02 - conversion factors equal the exact ratio implied by the written definitions.

1. TLC law run  : MC_Reg (family F1): operational root-unit recursion = declarative product along the reference
                  chain; Factor(a,a)=1, Factor(a,b)*Factor(b,a)=1, path independence, prefix law.
2. spec -> code : every registry of the family materialised with Fraction (exact comparison, result must stay
                  Fraction), Decimal (<= 1e-25 relative) and float (<= 16 ulp); to / ito / m_as / convert /
                  get_root_units / to_root_units; each question asked twice and in both orders.
3. code -> spec : bundled registry in Fraction mode: factor of same-dimension pairs (canonical, alias, symbol,
                  prefixed, plural, compound) as modular fingerprints recomputed by Trace_Reg from the
                  reader's written literals; float / Decimal registries compared with the exact Fraction answer.
"""
import math
import os
import random
from decimal import Decimal
from fractions import Fraction as F

from .. import defreg, regfamily as fam
from ..engine import alarm, CaseTimeout

ULPS = 16


def close(got, exact, T):
    if T is F:
        return isinstance(got, (F, int)) and F(got) == exact
    if T is Decimal:
        if not isinstance(got, (Decimal, int)):
            return False
        return abs(F(got) - exact) <= abs(exact) * F(1, 10 ** 25)
    if not isinstance(got, (float, int)):
        return False
    ex = float(exact)
    return abs(got - ex) <= ULPS * math.ulp(ex)


def typed(x, T):
    if T is float:
        return float(x)
    if T is Decimal:
        return Decimal(x.numerator) / Decimal(x.denominator)
    return F(x)


def run(chk):
    rng = random.Random(chk.seed)
    thorough = chk.tier == "thorough"
    family = fam.generate(chk, full=thorough)
    nreg = 0
    for rid, reg, probes in family:
        layout = rng.randrange(4)
        for T in (F, Decimal, float):
            try:
                ureg = fam.materialise(reg, T, layout)
            except Exception as e:
                chk.diverge({"clause": "load", "exc": type(e).__name__}, {"lines": fam.lines_of(reg, layout), "error": repr(e)})
                continue
            nreg += 1
            replay_registry(chk, ureg, reg, probes, T, rid, rng, reverse=False)
        # a fresh registry asked in the opposite order (swapped cache keys show)
        replay_registry(chk, fam.materialise(reg, F, layout), reg, probes, F, rid, rng, reverse=True)
    chk.notes["registries_materialised"] = nreg

    events = drive_default(chk, rng, thorough)
    for e, clause in defreg.validate(chk, "Trace_Reg", events):
        small = {k: v for k, v in e.items() if k not in ("a", "b", "c", "u") and not k.startswith("_")}
        for k in ("a", "b", "c", "u"):
            if k in e:
                small[k] = [[i["s"], i["e"]] for i in e[k]]
        if e.get("_form"):
            small["form"] = e["_form"]
            small["observed"] = e.get("_r")
        chk.diverge({"clause": clause, "src": "default-registry", "ev": e["ev"]}, small)
    for e in events:
        if "_bridge" not in e:
            continue
        small = {"a": [[i["s"], i["e"]] for i in e["a"]], "b": [[i["s"], i["e"]] for i in e["b"]]}
        for T in (float, Decimal):
            g = e["_bridge"][T.__name__]
            if isinstance(g, Exception):
                chk.diverge({"clause": "bridge-raises", "type": T.__name__, "exc": type(g).__name__}, small)
            elif not isinstance(g, (T, int)):
                chk.diverge({"clause": "bridge-type", "type": T.__name__, "got": type(g).__name__}, small)
            elif e.get("_inexact") or e["_exactval"] is None:
                if abs(float(g) - e["_approx"]) > 1e-9 * abs(e["_approx"]):       # irrational chain: float agreement only
                    chk.diverge({"clause": "bridge-value-irrational", "type": T.__name__}, dict(small, observed=repr(g), approx=e["_approx"]))
            elif not close(g, e["_exactval"], T):
                chk.diverge({"clause": "bridge-value", "type": T.__name__}, dict(small, exact=e["_exactval"], observed=repr(g)))
    return chk.finish(
        rule="cases = (registry of family F1, numeric type, ordered convertible probe pair, API form) compared exactly with the "
             "TLC-computed factor, plus logged conversions over the bundled registry validated through modular fingerprints by "
             "Trace_Reg; distinct by (registry, pair) resp. event content; non-trivial = factor differs from 1",
        exhaustive=thorough)


def replay_registry(chk, ureg, reg, probes, T, rid, rng, reverse):
    Q = ureg.Quantity
    cfg = {"type": T.__name__}
    up = [(p, o) for p, o in probes if fam.is_unit_probe(p)]
    cls = lambda *os: "plain" if all(o["strict"] for o in os) else "trivial-scale-under-fractional-power"
    if reverse:
        up = up[::-1]
    xs = [F(1), F(7, 3), F(-5, 2)]
    for p, o in up:
        c = fam.ucont(ureg, p, T)
        if not o["exact"]:
            continue
        for rep in (0, 1):
            try:
                f, ru = ureg.get_root_units(c)
                ok = close(f, o["f"], T) and fam.same_cont(dict((1 * ru).unit_items()), o["ru"], T)
                q = Q(typed(F(3), T), c).to_root_units()
                ok2 = close(q.magnitude, 3 * o["f"], T) and fam.same_cont(dict(q.unit_items()), o["ru"], T)
            except Exception as e:
                chk.diverge({"clause": "root-raises", "exc": type(e).__name__, **cfg}, {"lines": fam.lines_of(reg), "probe": p})
                break
            if not ok:
                chk.diverge({"clause": "get_root_units", "class": cls(o), **cfg}, {"lines": fam.lines_of(reg), "probe": p, "expected": [o["f"], o["ru"]], "observed": [repr(f), repr(dict((1 * ru).unit_items()))]})
            if not ok2:
                chk.diverge({"clause": "to_root_units", "class": cls(o), **cfg}, {"lines": fam.lines_of(reg), "probe": p, "expected": [3 * o["f"], o["ru"]], "observed": [repr(q.magnitude), repr(dict(q.unit_items()))]})
    for p1, o1 in up:
        for p2, o2 in (up[::-1] if reverse else up):
            if o1["dim"] != o2["dim"] or not (o1["exact"] and o2["exact"]):
                continue
            factor = o1["f"] / o2["f"]          # FactorAB = Root(a).f / Root(b).f  (law FactorLaws of MC_Reg)
            x = rng.choice(xs)
            chk.case(("factor", rid, sorted(p1.items()), sorted(p2.items())), nontrivial=factor != 1,
                     sample={"registry": fam.lines_of(reg), "src": p1, "dst": p2, "factor": factor})
            c1, c2 = fam.ucont(ureg, p1, T), fam.ucont(ureg, p2, T)
            xv = typed(x, T)
            forms = {
                "to": lambda: Q(xv, c1).to(c2).magnitude,
                "to-again": lambda: Q(xv, c1).to(c2).magnitude,
                "m_as": lambda: Q(xv, c1).m_as(c2),
                "ito": lambda: ito(Q(xv, c1), c2),
                "convert": lambda: ureg.convert(xv, c1, c2),
                "to-str": lambda: Q(xv, c1).to(defreg.expr(p2)).magnitude,
                "from_": lambda: ureg.Unit(c2).from_(Q(xv, c1)).magnitude,
                "m_from": lambda: ureg.Unit(c2).m_from(Q(xv, c1)),
            }
            for name, fn in forms.items():
                try:
                    got = fn()
                except Exception as e:
                    chk.diverge({"clause": "conversion-raises", "form": name, "exc": type(e).__name__, **cfg},
                                {"lines": fam.lines_of(reg), "src": p1, "dst": p2})
                    continue
                if not close(got, x * factor, T):
                    kind = "type" if not isinstance(got, (T, int)) else "value"
                    chk.diverge({"clause": "factor-" + kind, "form": name, "class": cls(o1, o2), **cfg},
                                {"lines": fam.lines_of(reg), "src": p1, "dst": p2, "x": x, "expected": x * factor, "observed": repr(got)})
            # the same question through symbol / alias / plural spellings
            for v in fam.variants(p1)[:2]:
                try:
                    got = Q(xv, ureg.parse_units(defreg.expr(v))).to(c2).magnitude
                    if not close(got, x * factor, T):
                        chk.diverge({"clause": "factor-spelling", "class": cls(o1, o2), **cfg}, {"lines": fam.lines_of(reg), "src": v, "dst": p2, "expected": x * factor, "observed": repr(got)})
                except Exception as e:
                    chk.diverge({"clause": "factor-spelling-raises", "exc": type(e).__name__, **cfg}, {"lines": fam.lines_of(reg), "src": v, "dst": p2})
    chk.traces += 1


def ito(q, c):
    q.ito(c)
    return q.magnitude


# ------------------------------------------------------------------------------------------------
def drive_default(chk, rng, thorough):
    import pint
    ureg = pint.UnitRegistry(non_int_type=F)
    uflt = pint.UnitRegistry()
    udec = pint.UnitRegistry(non_int_type=Decimal)
    Q = ureg.Quantity
    canon, spell, prefixes = defreg.pools()
    events = []
    dims = {}
    for n in canon:
        dims.setdefault(frozenset(dict(ureg.get_dimensionality(n)).items()), []).append(n)
    classes = [v for v in dims.values() if len(v) > 1]

    def conv_event(da, db, bridge=True):
        try:
            with alarm(5):
                ua, ub = ureg.parse_units(defreg.expr(da)), ureg.parse_units(defreg.expr(db))
                r = Q(F(1), ua).to(ub).magnitude
        except CaseTimeout:
            chk.skipped += 1
            return
        except pint.DimensionalityError:
            return
        except (pint.UndefinedUnitError, pint.DefinitionSyntaxError, AttributeError, SyntaxError, TypeError, ValueError, KeyError):
            chk.skipped += 1
            return
        exact = isinstance(r, (F, int))
        num, den = defreg.residues(r) if exact else ([0, 0], [1, 1])
        events.append({"ev": "conv", "a": defreg.cont(da), "b": defreg.cont(db), "res": "ok", "checkfactor": True,
                       "num": num, "den": den, "pyexact": exact})
        if bridge and rng.random() < 0.3:
            # float and Decimal registries, compared (after TLC has said which events are exact) with the Fraction answer
            ev = events[-1]
            ev["_exactval"] = F(r) if exact else None
            ev["_approx"] = float(r)
            ev["_bridge"] = {}
            for U, T in ((uflt, float), (udec, Decimal)):
                try:
                    g = U.Quantity(typed(F(1), T), U.parse_units(defreg.expr(da))).to(U.parse_units(defreg.expr(db))).magnitude
                except Exception as e:
                    g = e
                ev["_bridge"][T.__name__] = g

    # units handed over as mappings with float exponents (dict / the registry's UnitsContainer factory): an exact registry reads the
    # exponents in its own numeric type, so integral ones keep the factor exact.  On a registry of its own: the cache must be cold.
    # (A pint.util.UnitsContainer built by the caller without the registry keeps its float exponents - that is the caller's choice of type.)
    umap = pint.UnitRegistry(non_int_type=F)
    UC = umap.UnitsContainer
    for _ in range(400 if thorough else 120):
        c = rng.choice(classes)
        a, b = rng.choice(c), rng.choice(c)
        e = rng.choice([2.0, -1.0, 3.0, -2.0, 1.0])
        form = rng.choice(["convert(dict)", "Quantity(UnitsContainer).to", "get_root_units(dict)"])
        try:
            with alarm(5):
                if form == "convert(dict)":
                    r = umap.convert(F(1), {a: e}, {b: e})
                elif form == "Quantity(UnitsContainer).to":
                    r = umap.Quantity(F(1), UC({a: e})).to(UC({b: e})).magnitude
                else:
                    ra, rb = umap.get_root_units({a: e})[0], umap.get_root_units({b: e})[0]
                    r = F(ra) / F(rb) if isinstance(ra, (F, int)) and isinstance(rb, (F, int)) else ra / rb      # (int / int is a float in Python)
        except CaseTimeout:
            chk.skipped += 1
            continue
        except Exception as ex:
            chk.diverge({"clause": "mapping-units-raise", "form": form, "exc": type(ex).__name__, "src": "default-registry"}, {"a": a, "b": b, "exponent": e})
            continue
        exact = isinstance(r, (F, int))
        num, den = defreg.residues(r) if exact else ([0, 0], [1, 1])
        events.append({"ev": "conv", "a": defreg.cont({a: int(e)}), "b": defreg.cont({b: int(e)}), "res": "ok", "checkfactor": True,
                       "num": num, "den": den, "pyexact": exact, "_form": form, "_r": repr(r), "_e": e})
    # the float registry's root factor of every canonical unit - irrational chains (square roots in Gaussian / atomic units) included -
    # against the factor computed from the reader's table in floating point (harness arithmetic: 1e-9 relative)
    for n in canon:
        chk.case(("float-root-factor", n))
        try:
            want, got = defreg.float_factor(n), float(uflt.get_root_units(n)[0])
        except Exception as e:
            chk.diverge({"clause": "root-raises", "exc": type(e).__name__, "src": "default-registry", "registry": "float"}, {"unit": n})
            continue
        if abs(got - want) > 1e-9 * abs(want):
            chk.diverge({"clause": "float-root-factor", "src": "default-registry"}, {"unit": n, "expected": want, "observed": got})
    # integer-typed numpy magnitudes convert like Python numbers: no wrap-around, identity after there and back
    import numpy as np
    for dt in ("int32", "int64", "uint8", "int16"):
        for a, b, vals in (("kilometer", "meter", [3, 200]), ("kilometer", "meter", [3000000]), ("exameter", "meter", [10, 20]), ("kilometer / hour", "meter / hour", [100]),
                           ("megagram", "gram", [250])):
            arr = np.array(vals).astype(dt) if max(vals) <= np.iinfo(dt).max else None
            if arr is None:
                continue
            chk.case(("numpy-int", dt, a, b, tuple(vals)))
            try:
                r = uflt.Quantity(arr.copy(), a).to(b)
                want = [float(uflt.Quantity(float(v), a).to(b).magnitude) for v in vals]
                got = [float(x) for x in np.asarray(r.magnitude).ravel()]
                back = [float(x) for x in np.asarray(r.to(a).magnitude).ravel()]
            except Exception as e:
                chk.diverge({"clause": "numpy-int-raises", "dtype": dt, "exc": type(e).__name__}, {"from": a, "to": b, "values": vals})
                continue
            if any(abs(g - w) > 1e-9 * abs(w) for g, w in zip(got, want)) or any(abs(x - v) > 1e-9 * abs(v) for x, v in zip(back, vals)):
                chk.diverge({"clause": "numpy-int-conversion", "dtype": dt}, {"from": a, "to": b, "values": vals, "expected": want, "observed": got, "back": back})
    # root factor of every canonical unit
    for n in canon:
        try:
            f, ru = ureg.get_root_units(n)
        except Exception as e:
            chk.diverge({"clause": "root-raises", "exc": type(e).__name__, "src": "default-registry"}, {"unit": n})
            continue
        exact = isinstance(f, (F, int))
        num, den = defreg.residues(f) if exact else ([0, 0], [1, 1])
        events.append({"ev": "root", "u": defreg.cont({n: 1}), "units": defreg.pairs((k, F(v).limit_denominator(1000)) for k, v in (1 * ru).unit_items()),
                       "num": num, "den": den, "pyexact": exact})
    # same-dimension pairs of canonical units
    if thorough:
        prs = [(a, b) for c in classes for a in c for b in c]
    else:
        prs = []
        for _ in range(2500):
            c = rng.choice(classes)
            prs.append((rng.choice(c), rng.choice(c)))
    for a, b in prs:
        conv_event({a: 1}, {b: 1})
    # spellings: alias / symbol / prefixed / plural against the canonical name's class
    cls_of = {n: c for c in dims.values() for n in c}
    usp = defreg._cache["sp"][0]
    for _ in range(6000 if thorough else 1200):
        s = rng.choice(spell)
        cn = usp[s]
        if cn not in cls_of:
            continue
        pre = rng.choice(["", rng.choice(prefixes)])
        suf = rng.choice(["", "", "s"])
        full = pre + s + suf
        if not full.isidentifier():
            continue
        conv_event({full: 1}, {rng.choice(cls_of[cn]): 1})
    # compound units with integer exponents
    for _ in range(3000 if thorough else 600):
        c1, c2 = rng.choice(classes), rng.choice(classes)
        e1, e2 = rng.choice([1, 2, -1, -2, 3]), rng.choice([1, -1, 2])
        a1, b1, a2, b2 = rng.choice(c1), rng.choice(c1), rng.choice(c2), rng.choice(c2)
        if len({a1, a2}) < 2 or len({b1, b2}) < 2:
            continue
        conv_event({a1: e1, a2: e2}, {b1: e1, b2: e2})
    # the same pair at exponents -1 then -2 on one registry (hash(-1) == hash(-2) in CPython: keys must not be hashes)
    for _ in range(600 if thorough else 150):
        c = rng.choice(classes)
        a, b = rng.choice(c), rng.choice(c)
        if a == b:
            continue
        for e in (rng.sample([-1, -2], 2)):
            conv_event({a: e}, {b: e}, bridge=False)
    # case-insensitive registry: a correctly cased spelling means the same unit as in the case-sensitive registry
    uci = pint.UnitRegistry(non_int_type=F, case_sensitive=False)
    # ... on every path that takes a unit as text: constructor, to / ito / m_as, ureg.convert, get_root_units
    for a, b in (("INCH", "FOOT"), ("Mile", "Yard"), ("kiloMETER", "Meter"), ("Hour", "MINUTE")):
        la, lb = a.lower(), b.lower()
        want = ureg.Quantity(F(1), la).to(lb).magnitude
        forms = {"to": lambda: uci.Quantity(F(1), a).to(b).magnitude, "m_as": lambda: uci.Quantity(F(1), a).m_as(b), "convert": lambda: uci.convert(F(1), a, b),
                 "ito": lambda: (lambda q: (q.ito(b), q.magnitude)[1])(uci.Quantity(F(1), a)), "get_root_units": lambda: uci.get_root_units(a)[0] / uci.get_root_units(b)[0] * 1}
        for fname, f in forms.items():
            chk.case(("casei-path", a, b, fname))
            try:
                got = f()
            except Exception as e:
                chk.diverge({"clause": "case-insensitive-path-raises", "form": fname, "exc": type(e).__name__}, {"from": a, "to": b})
                continue
            if F(got) != F(want):
                chk.diverge({"clause": "case-insensitive-path-value", "form": fname}, {"from": a, "to": b, "expected": str(want), "observed": str(got)})
    psp_all = dict(defreg._cache["sp"][1])
    lower_units = {}
    for sp_k, cn_k in usp.items():
        lower_units.setdefault(sp_k.lower(), set()).add(cn_k)
    R_, _T = defreg.table()
    upper = [p_ for p_ in prefixes if p_ != p_.lower() and len(p_) <= 2]          # M, G, T, P, E, Z, Y, Ki, Mi, ...
    symbols = [d["symbol"] for n_, d in R_["units"].items() if d["symbol"] and d["symbol"].isidentifier() and usp.get(d["symbol"]) in cls_of]
    for _ in range(1500 if thorough else 300):
        pre = rng.choice(upper) if rng.random() < 0.7 else rng.choice(prefixes)
        s_ = rng.choice(symbols) if rng.random() < 0.7 else rng.choice(spell)
        full = pre + s_
        if not full.isidentifier() or usp.get(s_) not in cls_of:
            continue
        try:
            ureg.get_name(full)
        except Exception:
            continue
        # only strings with a single case-insensitive reading (exact-case prefix + unit spelling up to letter case)
        readings = set()
        for i in range(len(full) + 1):
            h, m_ = full[:i], full[i:]
            if h in psp_all and m_.lower() in lower_units:
                readings |= {(psp_all[h], cn_) for cn_ in lower_units[m_.lower()]}
            if h in psp_all and m_.endswith("s") and len(m_) > 2 and m_[:-1].lower() in lower_units:
                readings |= {(psp_all[h], cn_) for cn_ in lower_units[m_[:-1].lower()]}
        if len(readings) != 1:
            continue
        tgt = rng.choice(cls_of[usp[s_]])
        try:
            with alarm(5):
                r = uci.Quantity(F(1), full).to(tgt).magnitude
        except CaseTimeout:
            chk.skipped += 1
            continue
        except Exception as e:
            chk.diverge({"clause": "case-insensitive-refuses-exact-spelling", "exc": type(e).__name__, "src": "default-registry"}, {"a": full, "b": tgt})
            continue
        if isinstance(r, (F, int)):
            num, den = defreg.residues(r)
            events.append({"ev": "conv", "a": defreg.cont({full: 1}), "b": defreg.cont({tgt: 1}), "res": "ok", "checkfactor": True,
                           "num": num, "den": den, "pyexact": True, "casei": True})
    # path independence a -> b -> c = a -> c, and round trip (validated by the spec through fingerprints)
    for _ in range(2000 if thorough else 400):
        c = rng.choice(classes)
        a, b, d = rng.choice(c), rng.choice(c), rng.choice(c)
        try:
            with alarm(5):
                x = Q(F(1), a)
                via, direct, back = x.to(b).to(d).magnitude, x.to(d).magnitude, x.to(b).to(a).magnitude
        except CaseTimeout:
            chk.skipped += 1
            continue
        if all(isinstance(v, (F, int)) for v in (via, direct, back)):
            rv, rd, rb = defreg.residues(via), defreg.residues(direct), defreg.residues(back)
            events.append({"ev": "path", "a": defreg.cont({a: 1}), "b": defreg.cont({b: 1}), "c": defreg.cont({d: 1}),
                           "via_num": rv[0], "via_den": rv[1], "num": rd[0], "den": rd[1], "back_num": rb[0], "back_den": rb[1]})
    for e in events:
        key = (e["ev"], str([(i["s"], i["e"]) for k in ("a", "b", "c", "u") if k in e for i in e[k]]))
        chk.case(key, nontrivial=True)
    for e in events[::max(1, len(events) // 3)][:3]:
        chk.samples.append({k: ([[i["s"], i["e"]] for i in v] if k in ("a", "b", "u") else v) for k, v in e.items()})
    chk.notes["float_ulps"] = ULPS
    return events


def replay(chk, rec):
    import json
    print(json.dumps(rec["detail"], indent=1)[:4000])
    chk.seed = rec.get("seed", 0)
    return run(chk)
