"""C03 - arithmetic results do not depend on the units used to express the operands.

1. TLC law run  : MC_C03: every operator form of PlainQuantity (transcribed branch by branch in Quantity.tla /
                  Offset.tla) over a pool of magnitudes x units: covariance under re-expression of each operand in
                  every alternative compatible unit, dimension errors, bare-number rules, divmod and reflected-form
                  consistency.
2. spec -> code : every reachable state (a, b, op, expected result or error kind) executed on a Fraction registry
                  (exact), Decimal and float registries (tolerance), in plain, reflected, in-place and ndarray
                  in-place form; operands must be unchanged except the target of an in-place form.
3. code -> spec : random expression trees (depth <= 4) over the bundled registry with operands expressed in random
                  compatible units; Trace_C03 evaluates the tree in physical space (modular fingerprints) and
                  compares value, dimensionality and error kind.
"""
import copy
import os
import random
from decimal import Decimal
from fractions import Fraction as F

from .. import defreg, qreplay as qr, tlaval
from ..engine import MachineryError, alarm, CaseTimeout

ARITH = {"add", "sub", "mul", "div", "radd", "rsub", "rmul", "rdiv", "neg", "abs", "pow0", "pow1", "pow2", "pow3", "pow-1", "pow-2"}


def generate(chk, module, cfg):
    wd = chk.workdir("gen")
    dump = os.path.join(wd, "q.dump")
    r = chk.tlc("laws+gen", module, cfg, wd=wd, args=["-dump", dump], timeout=1800)
    reg, cases = None, []
    for st in tlaval.parse_states(open(dump).read()):
        if st["stage"] == 0:
            reg = qr.reg_of(st["regv"])
        elif st["stage"] == 2:
            cases.append(st)
    os.remove(dump)
    if reg is None or len(cases) < 100:
        raise MachineryError("generator dump incomplete")
    return r, reg, cases


def run(chk):
    import numpy as np
    rng = random.Random(chk.seed)
    thorough = chk.tier == "thorough"
    r, reg, cases = generate(chk, "MC_C03", "MC_C03.cfg")
    kinds = {st["res"]["k"] for st in cases}
    if not {"ok", "bool", "pair", "dimerr", "zerodiv", "valueerr"} <= kinds or len({st["op"] for st in cases}) < 28:
        raise MachineryError("vacuous generator: result kinds %s" % sorted(kinds))
    ureg = {T: qr.materialise(reg, T) for T in (F, Decimal, float)}
    lines = qr.lines_of(reg)
    for st in cases:
        a, b, op = st["a"], st["b"], st["op"]
        exp = qr.expected(st["res"])
        nontrivial = not b["num"] and a["u"] != b["u"] and op not in qr.POW and op not in ("neg", "abs", "bool")
        chk.case((op, a, b), nontrivial=nontrivial or (b["num"] and a["u"] not in ([], {})),
                 sample={"a": a, "b": b, "op": op, "expected": st["res"]})
        case = {"registry": lines, "a": a, "b": b, "op": op, "expected": st["res"]}
        sig0 = {"op": op, "expected": exp["k"], "bnum": b["num"]}
        # plain form, exact
        x, y = qr.mkq(ureg[F], a), qr.mkq(ureg[F], b)
        sx, sy = qr.snapshot(x), qr.snapshot(y)
        try:
            got = qr.project(qr.apply(op, x, y))
        except Exception as e:
            got = {"k": qr.kind_of_exception(e)}
        if got != exp:
            chk.diverge(dict(sig0, clause="result", form="plain", observed=got["k"]), dict(case, observed=got))
        elif got["k"] == "ok" and isinstance(got["m"], float):
            chk.diverge(dict(sig0, clause="numeric-type", form="plain"), dict(case, observed=repr(got)))
        if (qr.snapshot(x), qr.snapshot(y)) != (sx, sy):
            chk.diverge(dict(sig0, clause="operands-unchanged", form="plain"), case)
        # in-place scalar form: same result, right operand untouched
        if op in qr.INPLACE and not a["num"]:
            x2, y2 = qr.mkq(ureg[F], a), qr.mkq(ureg[F], b)
            sy2 = qr.snapshot(y2)
            try:
                x2 = qr.INPLACE[op](x2, y2)
                got2 = qr.project(x2)
            except Exception as e:
                got2 = {"k": qr.kind_of_exception(e)}
            if got2 != exp:
                chk.diverge(dict(sig0, clause="result", form="inplace", observed=got2["k"]), dict(case, observed=got2))
            if qr.snapshot(y2) != sy2:
                chk.diverge(dict(sig0, clause="operands-unchanged", form="inplace"), case)
        # a seeded share: other numeric types and ndarray in-place twins
        if not (thorough or rng.random() < 0.25):
            continue
        if op in ARITH:
            for T in (Decimal, float):
                g = qr.run_case(ureg[T], a, b, op, T)
                if g["k"] == "zerodiv" and (a["m"][0] == 0 or b["m"][0] == 0):
                    continue        # 0 ** 0, 0 ** -1, x / 0 in Decimal / float: the number type's own arithmetic error
                if not qr.approx_equal(g, exp):
                    chk.diverge(dict(sig0, clause="result", form="plain", type=T.__name__, observed=g["k"]), dict(case, observed=g))
                elif g["k"] == "ok" and not isinstance(g["m"], float if T is float else F):
                    chk.diverge(dict(sig0, clause="numeric-type", type=T.__name__), dict(case, observed=repr(g["m"])))
        # integer magnitudes and integer bare numbers in an exact registry: same rational value, no float
        ints = a["m"][1] == 1 and b["m"][1] == 1
        if ints and op not in ("bool", "pow-1", "pow-2"):      # int ** negative int is a float in Python itself
            xi = ureg[F].Quantity(int(a["m"][0]), qr.mkq(ureg[F], a).units)
            yi = int(b["m"][0]) if b["num"] else ureg[F].Quantity(int(b["m"][0]), qr.mkq(ureg[F], b).units)
            try:
                gi = qr.project(qr.apply(op, xi, yi))
            except Exception as e:
                gi = {"k": qr.kind_of_exception(e)}
            floaty = gi.get("k") == "ok" and isinstance(gi.get("m"), float)
            if gi != exp or floaty:
                kind = "numeric-type" if floaty else "result"
                chk.diverge(dict(sig0, clause=kind, form="int-magnitudes", observed=gi["k"]), dict(case, observed=repr(gi)))
        if op in qr.INPLACE and not a["num"]:
            U = ureg[float]
            xa = U.Quantity(np.array([float(F(*a["m"]))] * 3), qr.mkq(U, a, float).units)
            if b["num"]:
                ya = float(F(*b["m"]))
            else:
                ya = U.Quantity(np.array([float(F(*b["m"]))] * 3), qr.mkq(U, b, float).units)
            sy3 = qr.snapshot(ya)
            idm = id(xa.magnitude)
            xa.dimensionality                      # an earlier question about the target must not stick to it
            try:
                with np.errstate(all="ignore"):
                    xr = qr.INPLACE[op](xa, ya)
                g = {"k": "ok", "m": float(xr.magnitude[0]), "u": {k: qr.frac(v) for k, v in xr.unit_items()}}
                if not np.all(xr.magnitude == xr.magnitude[0]) and not np.isnan(xr.magnitude[0]):
                    g = {"k": "nonuniform"}
            except Exception as e:
                g = {"k": qr.kind_of_exception(e)}
            e2 = exp
            if exp["k"] == "zerodiv" or op in ("floordiv", "mod"):      # numpy divides by zero without raising; float // % near ties
                e2 = None
            if e2 is not None and not qr.approx_equal(g, e2):
                chk.diverge(dict(sig0, clause="result", form="ndarray-inplace", observed=g["k"]), dict(case, observed=g))
            if qr.snapshot(ya) != sy3:
                chk.diverge(dict(sig0, clause="operands-unchanged", form="ndarray-inplace"), case)
            if g["k"] == "ok" and (dict(xr.dimensionality) != dict(U.get_dimensionality(xr.units)) or not xr.is_compatible_with(xr.units)):
                chk.diverge(dict(sig0, clause="inplace-target-inconsistent", form="ndarray-inplace"),
                            dict(case, units=str(xr.units), dimensionality=str(xr.dimensionality)))
        # plain (not in-place) operators on ndarray magnitudes: no operand is touched, and applying the operator again gives the same
        if op in qr.BIN and not a["num"] and not b["num"]:
            U = ureg[float]
            xa = U.Quantity(np.array([float(F(*a["m"]))] * 3), qr.mkq(U, a, float).units)
            ya = U.Quantity(np.array([float(F(*b["m"]))] * 3), qr.mkq(U, b, float).units)
            sx4, sy4 = qr.snapshot(xa), qr.snapshot(ya)
            outs = []
            for _ in range(2):
                try:
                    with np.errstate(all="ignore"):
                        r = qr.BIN[op](xa, ya)
                    parts = r if isinstance(r, tuple) else (r,)
                    outs.append(tuple((np.asarray(getattr(p_, "magnitude", p_)).tolist(), str(getattr(p_, "units", ""))) for p_ in parts))
                except Exception as e:
                    outs.append(qr.kind_of_exception(e))
            if (qr.snapshot(xa), qr.snapshot(ya)) != (sx4, sy4):
                chk.diverge(dict(sig0, clause="operands-unchanged", form="ndarray-plain"), case)
            elif repr(outs[0]) != repr(outs[1]):
                chk.diverge(dict(sig0, clause="not-repeatable", form="ndarray-plain"), dict(case, first=repr(outs[0])[:200], second=repr(outs[1])[:200]))
    chk.traces += len(cases)

    mixed_types_history(chk)
    events = drive_default(chk, rng, 4000 if thorough else 800)
    for e, clause in defreg.validate(chk, "Trace_C03", events):
        chk.diverge({"clause": clause, "src": "default-registry", "observed": e["res"]["k"]}, {"expr": e["_expr"], "res": e["res"]["k"]})
    return chk.finish(
        rule="cases = reachable states of MC_C03 (operand a, operand b or bare number, operator form) executed in plain / in-place / "
             "ndarray / other-numeric-type form; distinct by (op, a, b); non-trivial = operands in different units (or a "
             "bare number with a unit-bearing quantity); plus random expression trees over the bundled registry validated by Trace_C03",
        exhaustive=True)


# ------------------------------------------------------------------------------------------------
def mixed_types_history(chk):
    """One float registry used with float, Decimal and Fraction magnitudes on the same unit pairs, in every order of first use:
    the result of a + b, a - b, a == b, a < b may not depend on which magnitude type asked for that pair of units first
    (statement: the result depends on the physical values of the operands, not on their units - nor on earlier calls)."""
    import itertools
    from decimal import Decimal as D
    import pint
    mk = {"float": lambda n, d: n / d, "Decimal": lambda n, d: D(n) / D(d), "Fraction": lambda n, d: F(n, d)}
    pairs = [("m", "km", 1000), ("s", "ms", F(1, 1000)), ("kg", "g", F(1, 1000))]
    for order in itertools.permutations(sorted(mk)):
        ureg = pint.UnitRegistry()
        Q = ureg.Quantity
        for (u1, u2, k), first in zip(pairs, order):
            for ty in [first] + [t for t in order if t != first]:
                chk.case(("mixed-types", "/".join(order), u1, u2, ty))
                a, b = Q(mk[ty](3, 2), u1), Q(mk[ty](5, 4), u2)
                want_sum = F(3, 2) + F(5, 4) * k          # in u1
                sig = {"clause": "mixed-types-history", "type": ty, "first_type_for_pair": first}
                try:
                    got = (a + b, a - b, a == b, a < b, b + a)
                    vals = (F(str(got[0].m_as(u1))) if ty != "float" else F(got[0].m_as(u1)).limit_denominator(10**9),
                            F(str(got[1].m_as(u1))) if ty != "float" else F(got[1].m_as(u1)).limit_denominator(10**9))
                    ok = (vals[0] == want_sum and vals[1] == F(3, 2) - F(5, 4) * k and got[2] is False
                          and got[3] is (F(3, 2) < F(5, 4) * k) and got[0].units == a.units and got[4].units == b.units)
                except Exception as e:
                    chk.diverge(dict(sig, exc=type(e).__name__), {"units": [u1, u2], "order": order, "error": repr(e)[:200]})
                    continue
                if not ok:
                    chk.diverge(sig, {"units": [u1, u2], "order": order, "got": [str(x) for x in got]})


# ------------------------------------------------------------------------------------------------
def drive_default(chk, rng, n):
    """Random trees over + - * / ** neg; leaves = quantities in random units of a few dimension classes."""
    import pint
    ureg = pint.UnitRegistry(non_int_type=F)
    Q = ureg.Quantity
    canon, spell, prefixes = defreg.pools()
    dims = {}
    for nme in canon:
        dims.setdefault(frozenset(dict(ureg.get_dimensionality(nme)).items()), []).append(nme)
    classes = sorted((v for v in dims.values() if len(v) >= 3), key=lambda v: -len(v))[:12]
    mags = [F(0), F(1), F(-2), F(7, 3), F(5, 2), F(-1, 4), F(12), F(1, 1000)]
    events = []

    def leaf(cls):
        u = rng.choice(cls)
        if rng.random() < 0.3:
            u = rng.choice(prefixes) + u
        m = rng.choice(mags)
        rn, rd = defreg.residues(m)
        return ({"t": "leaf", "num": rn, "den": rd, "u": defreg.cont({u: 1})}, Q(m, u), "Q(%s,%r)" % (m, u))

    def numleaf():
        m = rng.choice([F(0), F(2), F(-3, 2)])
        rn, rd = defreg.residues(m)
        return ({"t": "num", "num": rn, "den": rd}, m, str(m))

    def tree(depth, cls):
        if depth == 0 or rng.random() < 0.25:
            return leaf(cls)
        kind = rng.random()
        if kind < 0.12:
            t, v, s = tree(depth - 1, cls)
            return ({"t": "un", "op": "neg", "x": t}, lambda v=v: -val(v), "-(%s)" % s)
        if kind < 0.27:
            t, v, s = tree(depth - 1, cls)
            e = rng.choice([2, 3, -1, -2, 0, 1])
            return ({"t": "pow", "x": t, "e": e}, lambda v=v, e=e: val(v) ** e, "(%s)**%d" % (s, e))
        op = rng.choice(["add", "sub", "mul", "div", "add", "sub"])
        cls2 = cls if (op in ("add", "sub") and rng.random() < 0.9) else rng.choice(classes)
        lt, lv, ls = tree(depth - 1, cls)
        if rng.random() < 0.1:
            rt, rv, rs = numleaf()
        else:
            rt, rv, rs = tree(depth - 1, cls2)
        if rng.random() < 0.5 and rt["t"] != "num":
            lt, lv, ls, rt, rv, rs = rt, rv, rs, lt, lv, ls
        f = {"add": lambda a, b: a + b, "sub": lambda a, b: a - b, "mul": lambda a, b: a * b, "div": lambda a, b: a / b}[op]
        return ({"t": "bin", "op": op, "l": lt, "r": rt}, lambda lv=lv, rv=rv, f=f: f(val(lv), val(rv)),
                "(%s %s %s)" % (ls, {"add": "+", "sub": "-", "mul": "*", "div": "/"}[op], rs))

    def val(v):
        return v() if callable(v) else v

    while len(events) < n:
        t, v, s = tree(rng.randint(1, 4), rng.choice(classes))
        if t["t"] in ("leaf", "num"):
            continue
        try:
            with alarm(5):
                r = val(v)
            if not hasattr(r, "unit_items"):
                continue
            m = r.magnitude
            if not isinstance(m, (F, int)):
                chk.skipped += 1
                continue
            rn, rd = defreg.residues(m)
            res = {"k": "ok", "num": rn, "den": rd, "u": defreg.cont({k: F(e) for k, e in r.unit_items()})}
        except CaseTimeout:
            chk.skipped += 1
            continue
        except Exception as e:
            res = {"k": qr.kind_of_exception(e), "num": [0, 0], "den": [1, 1], "u": []}
        events.append({"ev": "tree", "tree": t, "res": res, "_expr": s})
        chk.case(("tree", s), nontrivial=True, sample=None)
    for e in events[:2]:
        chk.samples.append({"expr": e["_expr"], "result": e["res"]["k"]})
    return events


def replay(chk, rec):
    import json
    print(json.dumps(rec["detail"], indent=1)[:4000])
    chk.seed = rec.get("seed", 0)
    return run(chk)
