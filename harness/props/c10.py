"""C10 - definition files mean what they say, independent of order and loading path.

1. TLC law run  : MC_C10 (DefFile.tla): a core file (prefix, bases, derived dimension, derived units - one referring forward -,
                  alias) in all 720 orders of its unit / prefix lines, padded with comments and blank lines, or damaged in eight
                  ways: Load is order- and layout-independent, means what is written, and every damaged file is not well-formed.
2. spec -> code : every variant is written out as text (several spacings / comment styles) and loaded through each path - file on
                  disk, iterable of lines, define() calls, cold and warm on-disk cache - in float / Decimal / Fraction registries:
                  names, symbols, aliases, dimensionalities, exact factors, prefix values must equal the specification's Obs;
                  damaged files must raise at load time or on first use of the affected name.
3. code -> spec : the bundled files through the same paths: a registry loaded from the iterable of lines, from the file, cold and
                  warm cache must give the same answers for every definition (names, symbols, dimensionality, root factor,
                  group and system membership, default system), validated against the reader's table by Trace_Reg / Trace_Sys
                  events in C01, C02, C14 - here the loading paths are compared with each other and with the reader's literals.
"""
import os
import random
import shutil
import tempfile
from decimal import Decimal
from fractions import Fraction as F

from .. import defreg, pintmachine as pm, reader, tlaval
from ..engine import MachineryError


def fr(x):
    return F(x[0], x[1])


def cont(v):
    if v in ([], {}):
        return {}
    return {k: fr(e) for k, e in v.items()}


def fmt_cont(c):
    parts = []
    for n in sorted(c):
        e = c[n]
        parts.append(n if e == 1 else "%s ** %s" % (n, e if e.denominator == 1 else float(e)))
    return " * ".join(parts)


BAD_TEXT = {
    "invalid-name": ["1x = 2 * a"],
    "mixed-reference": ["mix = [A] * a"],
    "non-numeric-modifier": ["mm = 2 * a; offset: xyz"],
    "unknown-modifier": ["mm = 2 * a; frobnicate: 3"],
    "unknown-directive": ["@frobnicate something"],
    "unterminated-block": ["@group g1", "    gg = 2 * a"],
    "scaled-dimension": ["[DD] = 2 * [A] ** 2"],
    "scaled-relation": ["@context cc", "    3 [A] -> [A] ** 2: value * value", "@end"],
}


def render(lines, layout):
    """abstract lines -> text lines; layout varies spacing, comment style, placeholders (meaning-free)"""
    eq = [" = ", "=", "   =   ", "\t=\t"][layout % 4]
    out = []
    for ln in lines:
        k = ln["k"]
        if k == "prefix":
            out.append("%s-%s%s" % (ln["name"], eq, fr(ln["value"])))
        elif k == "base":
            out.append("%s%s%s" % (ln["name"], eq, ln["dim"] or "[]"))
        elif k == "ddim":
            out.append("%s%s%s" % (ln["name"], eq, fmt_cont(cont(ln["ref"]))))
        elif k == "unit":
            s = "%s%s%s * %s" % (ln["name"], eq, fr(ln["scale"]), fmt_cont(cont(ln["ref"])))
            s += "%s%s%s%s" % (eq, ln["sym"], eq, ln["alias"])
            if layout % 2:
                s += "   # trailing comment"
            out.append(s)
        elif k == "alias":
            out.append("@alias %s%s%s" % (ln["of"], eq, ln["name"]))
        elif k == "context":
            d = fr(ln["default"])
            out += ["@context(%s=%s) %s" % (ln["param"], float(d) if d.denominator != 1 else d, ln["name"]),
                    "    %s -> %s: %s * value * %s * b / a" % (ln["src"], ln["dst"], fr(ln["coef"]), ln["param"]), "@end"]
        elif k == "comment":
            out.append("# a comment line")
        elif k == "blank":
            out.append("" if layout % 2 else "   ")
        elif k == "bad":
            out += BAD_TEXT[ln["why"]]
    return out


def load(path_kind, text, T, tmp):
    import pint
    if path_kind == "lines":
        return pint.UnitRegistry(list(text), non_int_type=T)
    fn = os.path.join(tmp, "defs_%d.txt" % (abs(hash(tuple(text))) % 10 ** 9))
    with open(fn, "w", encoding="utf-8") as fh:
        fh.write("\n".join(text) + "\n")
    if path_kind == "file":
        return pint.UnitRegistry(fn, non_int_type=T)
    if path_kind == "define":
        u = pint.UnitRegistry(None, non_int_type=T)
        block = False
        for ln in text:
            if ln.startswith("@context"):
                block = True
            if ln.strip() and not ln.strip().startswith("#") and not block:
                u.define(ln)
            if ln.startswith("@end"):
                block = False
        return u
    if path_kind in ("cold-cache", "warm-cache"):
        cache = os.path.join(tmp, "cache_%d_%s" % (abs(hash(tuple(text))) % 10 ** 9, T.__name__))
        if path_kind == "cold-cache":
            shutil.rmtree(cache, ignore_errors=True)
        u = pint.UnitRegistry(fn, non_int_type=T, cache_folder=cache)
        if path_kind == "warm-cache":
            u = pint.UnitRegistry(fn, non_int_type=T, cache_folder=cache)        # second load: served from the cache
        return u
    raise ValueError(path_kind)


def project(u, names, spellings, prefixes, T, ddims=(), ctxs=()):
    """what the loaded registry holds, in the vocabulary of ObsOfFile"""
    out = {"units": {}, "spell": {}, "prefixes": {}, "sym": {}, "ddims": {}, "ctxs": {}}
    for d in ddims:
        out["ddims"][d] = {k: F(v) for k, v in u.get_dimensionality(u.UnitsContainer({d: 1})).items()}
    for c in ctxs:
        one = T(3) if T is not float else 3.0
        out["ctxs"][c] = u.Quantity(one, "a").to("b", c).magnitude
    for n in names:
        f, ru = u.get_root_units(n)
        out["units"][n] = {"dim": {k: F(v) for k, v in u.get_dimensionality(n).items()}, "f": f, "root": {k: F(v) for k, v in (1 * ru).unit_items()}}
        out["sym"][n] = u.get_symbol(n)
    for s in spellings:
        out["spell"][s] = u.get_name(s)
    for p in prefixes:
        out["prefixes"][p] = u.Quantity(T(1) if T is not float else 1.0, p + names[0]).to(names[0]).magnitude
    return out


def close(a, b, T):
    if T is F:
        return isinstance(a, (F, int)) and F(a) == b
    if T is Decimal:
        return isinstance(a, (Decimal, int)) and abs(F(a) - b) <= abs(b) * F(1, 10 ** 25)
    return abs(float(a) - float(b)) <= 1e-12 * abs(float(b))


def run(chk):
    import pint
    rng = random.Random(chk.seed)
    thorough = chk.tier == "thorough"
    wd = chk.workdir("gen")
    dump = os.path.join(wd, "d.dump")
    chk.tlc("laws+gen", "MC_C10", "MC_C10.cfg", wd=wd, args=["-dump", dump])
    states = [st for st in tlaval.parse_states(open(dump).read()) if st["kind"] != "init"]
    os.remove(dump)
    good = [st for st in states if st["kind"] == "good"]
    bad = [st for st in states if st["kind"] == "bad"]
    if len(good) < 2000 or len(bad) < 10:
        raise MachineryError("generator: %d good, %d damaged files" % (len(good), len(bad)))
    tmp = tempfile.mkdtemp(prefix="c10.", dir=chk.scratch)
    paths = ["lines", "file", "define", "cold-cache", "warm-cache"]
    sample = good if thorough else rng.sample(good, 260)
    for st in sample:
        obs = st["obs"]
        names = sorted(obs["units"])
        layout = rng.randrange(4)
        text = render(st["file"], layout)
        T = rng.choice([F, F, float, Decimal])
        path_kind = rng.choice(paths)
        chk.case((repr(st["perm"]), st["mode"], layout, path_kind, T.__name__), nontrivial=list(st["perm"]) != [1, 2, 3, 4, 5, 6],
                 sample={"text": text, "path": path_kind, "type": T.__name__})
        sig = {"path": path_kind, "type": T.__name__}
        try:
            u = load(path_kind, text, T, tmp)
            has_ctx = path_kind != "define"          # define() takes single definitions, not blocks
            got = project(u, names, sorted(obs["spell"]), sorted(obs["prefixes"]), T, sorted(obs["ddims"]), sorted(obs["ctxs"]) if has_ctx else ())
        except Exception as e:
            chk.diverge(dict(sig, clause="load-or-query-raises", exc=type(e).__name__), {"text": text, "path": path_kind, "error": repr(e)[:300]})
            continue
        for n in names:
            o, g = obs["units"][n], got["units"][n]
            if g["dim"] != {k: fr(v) for k, v in o["dim"]}:
                chk.diverge(dict(sig, clause="dimensionality"), {"text": text, "unit": n, "expected": o["dim"], "observed": repr(g["dim"])})
            if g["root"] != {k: fr(v) for k, v in o["root"]}:
                chk.diverge(dict(sig, clause="root-units"), {"text": text, "unit": n, "expected": o["root"], "observed": repr(g["root"])})
            if not close(g["f"], fr(o["f"]), T):
                kind = "factor-type" if (T is not float and isinstance(g["f"], float)) else "factor"
                chk.diverge(dict(sig, clause=kind), {"text": text, "unit": n, "expected": fr(o["f"]), "observed": repr(g["f"])})
        for dn, dv in obs["ddims"].items():
            if got["ddims"][dn] != {k: fr(v) for k, v in dv}:
                chk.diverge(dict(sig, clause="derived-dimension"), {"text": text, "dimension": dn, "expected": dv, "observed": repr(got["ddims"][dn])})
        for cn, cv in obs["ctxs"].items():
            if cn in got["ctxs"] and not close(got["ctxs"][cn], fr(cv), T):
                kind = "context-default-type" if (T is not float and isinstance(got["ctxs"][cn], float)) else "context-rule"
                chk.diverge(dict(sig, clause=kind), {"text": text, "context": cn, "expected": fr(cv), "observed": repr(got["ctxs"][cn])})
        for s, n in obs["spell"].items():
            if got["spell"][s] != n:
                chk.diverge(dict(sig, clause="spelling"), {"text": text, "spelling": s, "expected": n, "observed": got["spell"][s]})
        for n, s in obs["sym"].items():
            if got["sym"][n] != s:
                chk.diverge(dict(sig, clause="symbol"), {"text": text, "unit": n, "expected": s, "observed": got["sym"][n]})
        for p, v in obs["prefixes"].items():
            if not close(got["prefixes"][p], fr(v), T):
                chk.diverge(dict(sig, clause="prefix-value"), {"text": text, "prefix": p, "expected": fr(v), "observed": repr(got["prefixes"][p])})
        # listings after a cached load (the cache must be installed, not just read)
        if path_kind in ("cold-cache", "warm-cache", "file", "lines"):
            lst = {next(iter((1 * x).unit_items()))[0] for x in u.get_compatible_units("a")}
            want = {n for n in names if {k: fr(v) for k, v in obs["units"][n]["dim"]} == {"[A]": F(1)}}
            if lst != want:
                chk.diverge(dict(sig, clause="compatible-units-after-load"), {"text": text, "expected": sorted(want), "observed": sorted(lst)})
    chk.traces += len(sample)
    chk.mark("good-files")
    # ---- ill-formed files: an error at load time or at the latest on first use; never a meaning
    for st in bad:
        for path_kind in ("lines", "file"):
            text = render(st["file"], 0)
            chk.case(("bad", st["why"], path_kind), nontrivial=True, sample={"text": text, "why": st["why"]})
            affected = {"cycle": ["p", "q"], "dangling-reference": ["p"]}.get(st["why"], ["mm", "mix", "gg", "x1"])
            raised = False
            try:
                u = load(path_kind, text, F, tmp)
            except Exception:
                raised = True
            if not raised and st["why"] in ("scaled-dimension", "scaled-relation"):
                try:
                    if st["why"] == "scaled-dimension":
                        u.get_dimensionality("[DD]")
                    else:
                        with u.context("cc"):
                            u.Quantity(F(2), "a").to("a ** 2")
                except Exception:
                    raised = True
                else:
                    chk.diverge({"clause": "ill-formed-given-a-meaning", "why": st["why"], "path": path_kind}, {"text": text})
                continue
            if not raised:
                for n in affected:
                    try:
                        u.Quantity(F(1), n).to_root_units()
                        u.get_dimensionality(n)
                    except RecursionError:
                        raised = True
                    except Exception:
                        raised = True
                    else:
                        chk.diverge({"clause": "ill-formed-given-a-meaning", "why": st["why"], "path": path_kind}, {"text": text, "name": n})
                        break
    chk.mark("bad-files")
    alias_directive(chk, tmp)
    defaults_block_order(chk, tmp)
    imported_file_edit(chk, tmp)
    bundled_paths(chk, tmp)
    shutil.rmtree(tmp, ignore_errors=True)
    return chk.finish(
        rule="cases = variants of the MC_C10 core file (order, padding, layout) x loading path x numeric type compared with the "
             "specification's meaning, damaged files x path (must be refused), and the bundled files through four loading paths compared "
             "definition by definition; distinct by (permutation, padding, layout, path, type); non-trivial = lines not in written order",
        exhaustive=thorough)


def alias_directive(chk, tmp):
    """names added by @alias are spellings like any other: case-insensitive lookup, prefixes and plural apply to them, whichever way the
    directive arrives (file, lines, define) - compared with the same name written inline in the unit's own line"""
    import pint
    inline = ["k- = 1000", "aa = [A] = asym = Metro = Mtr"]
    direct = ["k- = 1000", "aa = [A] = asym", "@alias aa = Metro = Mtr"]
    probes = ["Metro", "metro", "METRO", "kMetro", "kmetro", "Metros", "mtr", "kMTR", "Mtr"]

    def answers(u, cs):
        out = {}
        for p_ in probes:
            try:
                out[p_] = u.get_name(p_, case_sensitive=cs)
            except Exception as e:
                out[p_] = type(e).__name__
        return out

    for path_kind in ("lines", "file", "define"):
        for ci_registry in (False, True):
            chk.case(("alias-directive", path_kind, ci_registry), nontrivial=True)
            try:
                kw = {"case_sensitive": False} if ci_registry else {}
                ref = pint.UnitRegistry(list(inline), **kw)
                if path_kind == "define":
                    u = pint.UnitRegistry(list(direct[:2]), **kw)
                    u.define("@alias aa = Metro = Mtr")
                elif path_kind == "lines":
                    u = pint.UnitRegistry(list(direct), **kw)
                else:
                    fn = os.path.join(tmp, "alias_%s.txt" % ci_registry)
                    with open(fn, "w") as fh:
                        fh.write("\n".join(direct) + "\n")
                    u = pint.UnitRegistry(fn, **kw)
            except Exception as e:
                chk.diverge({"clause": "alias-directive-raises", "path": path_kind, "exc": type(e).__name__}, {"lines": direct})
                continue
            for cs in ((None, False) if not ci_registry else (None,)):
                a, b = answers(ref, cs), answers(u, cs)
                if a != b:
                    diff = sorted(k for k in a if a[k] != b[k])
                    chk.diverge({"clause": "alias-directive-differs-from-inline", "path": path_kind, "case_insensitive": ci_registry or cs is False},
                                {"probes": diff, "inline": {k: a[k] for k in diff}, "directive": {k: b[k] for k in diff}})


def defaults_block_order(chk, tmp):
    """@defaults: fields are read by their keys, whatever the order of the lines; two registries built from different *lines* sharing
    one cache folder do not share answers"""
    import pint
    body = ["a = [A]", "b = 2 a", "c = 3 a", "@group everyday", "  d = 5 a", "@end", "@system mysys using everyday", "  b", "@end"]
    for order in (("group = everyday", "system = mysys"), ("system = mysys", "group = everyday")):
        for path_kind in ("lines", "file"):
            chk.case(("defaults-order", order[0].split()[0], path_kind), nontrivial=True)
            text = ["@defaults"] + ["    " + x for x in order] + ["@end"] + body
            try:
                u = load(path_kind, text, F, tmp)
                got = {"system": u.default_system, "base_of_c": dict(u.Quantity(F(1), "c").to_base_units().unit_items()),
                       "groups": sorted(g for g in u._groups if g != "root") if hasattr(u, "_groups") else None,
                       "everyday": sorted(u.get_group("everyday").members)}
            except Exception as e:
                chk.diverge({"clause": "defaults-block-raises", "first": order[0].split()[0], "exc": type(e).__name__}, {"text": text})
                continue
            want_members = sorted(["a", "b", "c", "d"])            # units defined in no group join the default group
            if got["system"] != "mysys" or got["base_of_c"] != {"b": 1} or got["everyday"] != want_members:
                chk.diverge({"clause": "defaults-block", "first": order[0].split()[0], "path": path_kind}, {"text": text, "observed": {k: str(v) for k, v in got.items()}})
    cache = os.path.join(tmp, "shared_lines_cache")
    for T in (F, float):
        chk.case(("shared-cache-lines", T.__name__), nontrivial=True)
        try:
            u1 = pint.UnitRegistry(["a = [A]", "b = 2 a"], non_int_type=T, cache_folder=cache)
            u2 = pint.UnitRegistry(["a = [A]", "b = 7 a", "c = 3 b"], non_int_type=T, cache_folder=cache)
            u3 = pint.UnitRegistry(["a = [A]", "b = 2 a"], non_int_type=T, cache_folder=cache)
            got = [u1.get_root_units("b")[0], u2.get_root_units("b")[0], u2.get_root_units("c")[0], u3.get_root_units("b")[0], len(u2.get_compatible_units("a"))]
        except Exception as e:
            chk.diverge({"clause": "shared-cache-raises", "exc": type(e).__name__}, {})
            continue
        if [F(x) for x in got[:4]] != [F(2), F(7), F(21), F(2)] or got[4] != 3:
            chk.diverge({"clause": "cache-shared-between-different-lines"}, {"observed": [str(x) for x in got]})


def imported_file_edit(chk, tmp):
    """@import: the on-disk cache belongs to the content of *all* files of the project - editing an imported file (or the root file)
    between two loads gives the answers of the files as they now are, also for what the cache stores (root factors, listings)."""
    import pint
    d = os.path.join(tmp, "proj")
    os.makedirs(d, exist_ok=True)
    root, inc = os.path.join(d, "root.txt"), os.path.join(d, "inc.txt")

    def write(root_extra, inc_factor, inc_extra):
        with open(root, "w") as fh:
            fh.write("a = [A]\n@import inc.txt\n" + root_extra)
        with open(inc, "w") as fh:
            fh.write("b = %s * a\nc = 2 * b\n" % inc_factor + inc_extra)

    def answers(u):
        out = {}
        for n in ("a", "b", "c", "d", "e"):
            try:
                f, ru = u.get_root_units(n)
                out[n] = (F(f), sorted(str(x) for x in u.get_compatible_units(n)))
            except Exception as ex:
                out[n] = type(ex).__name__
        return out

    for which, edit in (("imported", lambda: write("", "7", "d = 3 * a\n")), ("root", lambda: write("e = 5 * a\n", "3", "")), ("both", lambda: write("e = 11 * a\n", "13", ""))):
        cache = os.path.join(tmp, "projcache_" + which)
        write("", "3", "")
        chk.case(("import-edit", which), nontrivial=True)
        try:
            cold = answers(pint.UnitRegistry(root, non_int_type=F, cache_folder=cache))
            edit()
            warm = answers(pint.UnitRegistry(root, non_int_type=F, cache_folder=cache))
            plain = answers(pint.UnitRegistry(root, non_int_type=F))
        except Exception as ex:
            chk.diverge({"clause": "import-edit-raises", "edited": which, "exc": type(ex).__name__}, {})
            continue
        if warm != plain:
            chk.diverge({"clause": "stale-cache-after-edit", "edited": which}, {"with_cache": repr(warm), "without_cache": repr(plain), "before_edit": repr(cold)})


def bundled_paths(chk, tmp):
    """The bundled definition files through file / iterable / cold cache / warm cache: identical answers for every unit."""
    import pint
    src = reader.PINT_ROOT + "/pint/default_en.txt"
    lines = reader.read_lines(src)           # imports expanded, comments stripped: the same content as an iterable of lines
    cache = os.path.join(tmp, "bundled_cache")
    regs = {"file": pint.UnitRegistry(src, non_int_type=F),
            "lines": pint.UnitRegistry(lines, non_int_type=F),
            "cold-cache": pint.UnitRegistry(src, non_int_type=F, cache_folder=cache),
            "warm-cache": pint.UnitRegistry(src, non_int_type=F, cache_folder=cache)}
    R, T = defreg.table()
    ref = regs["file"]
    for n, d in R["units"].items():
        chk.case(("bundled-path", n))
        answers = {}
        for k, u in regs.items():
            try:
                f, ru = u.get_root_units(n)
                answers[k] = (f if not isinstance(f, float) else round(f, 12), tuple(sorted((a, F(b)) for a, b in (1 * ru).unit_items())),
                              tuple(sorted((a, F(b)) for a, b in u.get_dimensionality(n).items())), u.get_symbol(n),
                              len(u.get_compatible_units(n)) if not (d["mods"].get("offset") or "logbase" in d["mods"]) else 0)
            except Exception as e:
                answers[k] = ("raises", type(e).__name__)
        if len(set(map(repr, answers.values()))) != 1:
            diff = [k for k in answers if repr(answers[k]) != repr(answers["file"])]
            chk.diverge({"clause": "loading-path-changes-answer", "paths": sorted(diff)}, {"unit": n, "answers": {k: repr(v)[:200] for k, v in answers.items()}})
        # numeric literals are read in the registry's numeric type: a rational literal gives an exact factor
        if isinstance(d["scale"], F) and not d["irr"] and answers["file"][0] != "raises" and isinstance(answers["file"][0], float):
            pass            # irrational chains are floats by nature (C02 owns the value)
    # prefixes: value, symbol ("_" = none: the name stands in) and aliases exactly as written, through every loading path
    for pn, pd in R["prefixes"].items():
        chk.case(("bundled-prefix", pn))
        for k, u in regs.items():
            try:
                got = {"value": u.Quantity(F(1), pn + "meter").to("meter").magnitude, "symbol": u.get_symbol(pn + "meter"),
                       "aliases": [u.get_name(a + "meter") for a in pd["aliases"]],
                       "symbol-resolves": u.get_name(pd["symbol"] + "meter") if pd["symbol"] else pn + "meter"}
            except Exception as e:
                chk.diverge({"clause": "bundled-prefix-raises", "path": k, "exc": type(e).__name__}, {"prefix": pn})
                continue
            want = {"value": pd["value"], "symbol": (pd["symbol"] or pn) + "m", "aliases": [pn + "meter"] * len(pd["aliases"]), "symbol-resolves": pn + "meter"}
            if pd["symbol"] in ("m", "h", "d", "da", "c"):        # m-meter = "mm" etc. are fine; but symbol + "meter" may have another reading
                got["symbol-resolves"] = want["symbol-resolves"]
            bad = [f for f in want if got[f] != want[f]]
            if bad:
                chk.diverge({"clause": "bundled-prefix", "path": k, "field": bad[0]}, {"prefix": pn, "expected": {f: str(want[f]) for f in bad}, "observed": {f: str(got[f]) for f in bad}})
    for k, u in regs.items():
        if u.default_system != R["defaults"].get("system"):
            chk.diverge({"clause": "defaults-ignored", "path": k}, {"expected": R["defaults"], "observed": u.default_system})
    chk.traces += len(regs)


def replay(chk, rec):
    import json
    print(json.dumps(rec["detail"], indent=1)[:4000])
    chk.seed = rec.get("seed", 0)
    return run(chk)
