"""C07 - string expressions evaluate like ordinary arithmetic on quantities.

1. TLC law run  : MC_C07: every token sequence up to length 5 (quick) / 6 (thorough) over {2, 3, m, + - * / // ** ( )}: the
                  transcription of pint_eval._build_eval_tree and a recursive-descent parser for Python's grammar (with
                  juxtaposition at * level) agree on acceptance and on the value; malformed input yields no value.
2. spec -> code : every state (sequence, value) is rendered in several spellings (adjacent, spaced, ^ for **) and parsed by
                  ureg.parse_expression / ureg(...) / Quantity(str) in Fraction (exact), float and Decimal registries; rejected
                  sequences must raise.  Word forms, unicode exponents, literal types are checked against the operator form.
3. code -> spec : no-execution clause: a fuzz driver (grammar mutations, dunder / attribute / call / import looking strings, byte
                  soup) parses under sys.addaudithook; any exec / compile / import / open / os / subprocess / socket event raised
                  during a parse call is a violation (the specification's actions are lookups and arithmetic only).
"""
import os
import random
import sys
from decimal import Decimal
from fractions import Fraction as F

from .. import defreg, tlaval
from ..engine import MachineryError, alarm, CaseTimeout

TOK = {"n2": "2", "n3": "3", "m": "m"}


def render(ts, style):
    out = []
    prev = None
    for t in ts:
        s = TOK.get(t, t)
        if style == "caret" and t == "**":
            s = "^"
        if style == "spaced":
            out.append(s)
        else:
            # adjacent, with a blank only where two tokens would fuse or form another notation
            fuse = prev is not None and ((prev in TOK and t in TOK) or (prev in ("n2", "n3") and t == "(") or
                                         (prev in ("*", "/") and t in ("*", "/")))
            out.append((" " if fuse else "") + s)
        prev = t
    return (" " if style == "spaced" else "").join(out)


def value_of(q):
    """real result -> <<num/den, exponent of m>> or None"""
    if hasattr(q, "unit_items"):
        items = dict(q.unit_items())
        if set(items) - {"m"}:
            return None
        return (q.magnitude, F(items.get("m", 0)))
    return (q, F(0))


def run(chk):
    import pint
    rng = random.Random(chk.seed)
    thorough = chk.tier == "thorough"
    chk.tlc("laws", "MC_C07", "MC_C07_full.cfg" if thorough else "MC_C07.cfg")
    wd = chk.workdir("gen")
    dump = os.path.join(wd, "e.dump")
    chk.tlc("gen", "MC_C07", "MC_C07.cfg", wd=wd, args=["-dump", dump], count=False)
    states = [(st["ts"], st["val"]) for st in tlaval.parse_states(open(dump).read()) if st["ts"]]
    os.remove(dump)
    if len(states) < 10000:
        raise MachineryError("generator produced only %d sequences" % len(states))
    chk.mark("tlc")
    lines = ["m = [L]", "s = [T]"]
    uF = pint.UnitRegistry(lines, non_int_type=F)
    uf = pint.UnitRegistry(lines)
    uD = pint.UnitRegistry(lines, non_int_type=Decimal)
    kinds = {"v": 0, "E": 0, "B": 0}
    if not thorough:
        short = [x for x in states if len(x[0]) <= 4]
        long5 = [x for x in states if len(x[0]) == 5]
        states = short + rng.sample(long5, 25000)
    for ts, val in states:
        kinds[val[0]] += 1
        if val[0] == "B" or any(ts[i:i + 3] == ["+", "/", "-"] for i in range(len(ts) - 2)):
            continue            # too big for the model / the "+/-" uncertainty notation (C19's)
        styles = ["adjacent", "spaced", "caret"] if "**" in ts else ["adjacent", "spaced"]
        chk.case(tuple(ts), nontrivial=len(ts) >= 3 and val[0] == "v", sample={"tokens": ts, "value": val})
        for style in styles:
            text = render(ts, style)
            try:
                with alarm(5):
                    got = value_of(uF.parse_expression(text))
                    err = None
            except CaseTimeout:
                chk.skipped += 1
                continue
            except Exception as e:
                got, err = None, type(e).__name__
            if val[0] == "E":
                if err is None:
                    chk.diverge({"clause": "malformed-yields-value", "style": style, "len": len(ts)}, {"text": text, "tokens": ts, "observed": repr(got)})
                continue
            want = (F(val[1], val[2]), F(val[3]))
            if err is not None or got is None:
                chk.diverge({"clause": "valid-rejected", "style": style, "exc": err}, {"text": text, "tokens": ts, "expected": want})
                continue
            if isinstance(got[0], float):
                ok = abs(got[0] - float(want[0])) <= 1e-12 * max(1, abs(float(want[0]))) and got[1] == want[1]
                if ok and "/" not in ts and "**" not in ts:
                    ok = False       # a float out of integer literals and + - * //
            else:
                ok = (F(got[0]), got[1]) == want
            if not ok:
                chk.diverge({"clause": "value", "style": style, "len": len(ts), "paren_juxtaposition": any(a != "(" and b == "(" and a not in ("+", "-", "*", "/", "//", "**") for a, b in zip(ts, ts[1:]))},
                            {"text": text, "tokens": ts, "expected": want, "observed": repr(got)})
        # other entry points and numeric types, on a seeded share
        if val[0] == "v" and rng.random() < 0.05:
            text = render(ts, "spaced")
            want = (F(val[1], val[2]), F(val[3]))
            for name, fn in (("ureg()", lambda: uF(text)), ("Quantity(str)", lambda: uF.Quantity(text)),
                             ("float", lambda: uf.parse_expression(text)), ("Decimal", lambda: uD.parse_expression(text))):
                if name == "Decimal" and "//" in ts:
                    continue          # Decimal's // truncates towards zero (the number type's own semantics)
                try:
                    with alarm(5):
                        g = value_of(fn())
                except CaseTimeout:
                    continue
                except Exception as e:
                    chk.diverge({"clause": "entry-point-raises", "form": name, "exc": type(e).__name__}, {"text": text})
                    continue
                if g is None or abs(float(g[0]) - float(want[0])) > 1e-9 * max(1, abs(float(want[0]))) or g[1] != want[1]:
                    chk.diverge({"clause": "value", "form": name}, {"text": text, "expected": want, "observed": repr(g)})
                elif name == "Decimal" and isinstance(g[0], float):
                    chk.diverge({"clause": "literal-type", "form": name}, {"text": text, "observed": repr(g)})
    chk.traces += len(states)
    if min(kinds["v"], kinds["E"]) == 0:
        raise MachineryError("vacuous generator: %s" % kinds)
    chk.notes["sequence_kinds"] = kinds
    chk.mark("replay")
    word_forms(chk)
    no_execution(chk, rng, 6000 if thorough else 1500)
    return chk.finish(
        rule="cases = token sequences of MC_C07 (all up to length 4, 25000 seeded of length 5; all in thorough) rendered in 2-3 spellings; "
             "distinct by token sequence; non-trivial = at least 3 tokens and a value; plus word-form equivalences and audited fuzz inputs",
        exhaustive=True)


def word_forms(chk):
    import pint
    u = pint.UnitRegistry()
    pairs = [("3 meter per second", "3 meter / second"), ("2 meter squared", "2 meter ** 2"), ("2 meter cubed", "2 meter ** 3"),
             ("square meter", "meter ** 2"), ("sq meter", "meter ** 2"), ("cubic meter", "meter ** 3"), ("5 m²", "5 m ** 2"),
             ("5 m⁻¹", "5 m ** -1"), ("7 kg·m²/s³", "7 kg * m ** 2 / s ** 3"), ("2 m^2", "2 m ** 2"), ("2^3^2 m", "2 ** 3 ** 2 m"),
             ("-2**2 m", "-(2**2) m"), ("2**-1 m", "(2 ** (-1)) m"), ("6 / 2 m", "(6 / 2) * m"), ("6 / (2 m)", "6 / (2 * m)"),
             ("2 m 3 s", "2 * m * 3 * s"), ("7 // 2 * 2", "(7 // 2) * 2"), ("9 - 7 // 2", "9 - (7 // 2)"), ("m/m(3)", "m / m * 3"),
             ("6/(2)m", "6 / 2 * m"), ("kg/m²s", "kg / m ** 2 * s"), ("(2)(3)**2", "2 * 3 ** 2"), ("4/(2)(2)", "4 / 2 * 2"),
             ("2(m)**2", "2 * m ** 2") if False else ("3 (m)**2", "3 * m ** 2"), ("1e3 m", "1000.0 m"), ("1.5e-3 m", "0.0015 m"), ("1,000 m", "1000 m")]
    # the same texts with runs of blanks and tabs between the words
    extra = []
    for a, b in pairs:
        if " " in a:
            extra += [(a.replace(" ", "  "), b), (a.replace(" ", "\t"), b), (a.replace(" ", "   ", 1), b), ("  " + a + " ", b)]
    for a, b in pairs + extra:
        chk.case(("word-form", a))
        try:
            qa, qb = u.parse_expression(a), u.parse_expression(b)
        except Exception as e:
            chk.diverge({"clause": "word-form-raises", "exc": type(e).__name__, "text": a}, {"a": a, "b": b})
            continue
        same = (qa == qb) if not hasattr(qa, "units") or not hasattr(qb, "units") else (qa.units == qb.units and abs(qa.magnitude - qb.magnitude) <= 1e-12 * abs(qb.magnitude))
        if not same:
            chk.diverge({"clause": "word-form", "text": a}, {"a": a, "b": b, "parsed_a": str(qa), "parsed_b": str(qb)})
    # names given as keyword values stand for those values - also when they spell a unit (m, s, g, h, a ...), before and after the
    # registry has seen the unit of that name
    Q = u.Quantity
    for warm in (False, True):
        uu = pint.UnitRegistry()
        if warm:
            for nm in ("m", "s", "g", "h", "a", "kilometer", "km", "x", "t"):
                try:
                    uu.parse_units(nm)
                except Exception:
                    pass
        Qq = uu.Quantity
        kcases = [("a * x", {"a": 2, "x": 3}, lambda v: v["a"] * v["x"]),
                  ("m * g", {"m": Qq(2, "kilogram"), "g": Qq(9.5, "meter / second ** 2")}, lambda v: v["m"] * v["g"]),
                  ("2 h + 1 meter", {"h": Qq(3, "meter")}, lambda v: 2 * v["h"] + Qq(1, "meter")),
                  ("s ** 2 / t", {"s": Qq(4, "meter"), "t": Qq(2, "second")}, lambda v: v["s"] ** 2 / v["t"]),
                  ("3 kilometer + km", {"km": Qq(500, "meter")}, lambda v: Qq(3, "kilometer") + v["km"]),
                  ("k * meter", {"k": 5}, lambda v: 5 * Qq(1, "meter")),
                  ("2 x y", {"x": 3, "y": Qq(4, "second")}, lambda v: 2 * 3 * v["y"])]
        for text, vals, f in kcases:
            chk.case(("keyword-values", text, warm))
            try:
                got, want = uu.parse_expression(text, **vals), f(vals)
            except Exception as e:
                chk.diverge({"clause": "keyword-values-raise", "exc": type(e).__name__, "text": text}, {"text": text, "values": {k: str(v) for k, v in vals.items()}, "after_lookups": warm})
                continue
            # (a pure number comes back as a dimensionless quantity)
            same = (got == want) and (got.units == want.units if hasattr(want, "units") else (not hasattr(got, "units") or got.unitless))
            if not same:
                chk.diverge({"clause": "keyword-values", "text": text}, {"text": text, "values": {k: str(v) for k, v in vals.items()}, "expected": str(want), "observed": str(got), "after_lookups": warm})
    # the pretty multiplication dot is multiplication in every entry point (it is also a legal identifier character)
    for text, want in (("kg·m", "kg * m"), ("N·m", "N * m"), ("newton·meter", "newton * meter"), ("kg·m·s", "kg * m * s"), ("meter·newton", "meter * newton")):
        for entry, f in (("parse_units", lambda t: u.Quantity(1, u.parse_units(t))), ("Unit", lambda t: u.Quantity(1, u.Unit(t))), ("Quantity", lambda t: u.Quantity(1, t)),
                         ("parse_expression", lambda t: u.parse_expression(t)), ("from_string", lambda t: u.Quantity(1, u.UnitsContainer({u.get_name(k): v for k, v in pint.util.ParserHelper.from_string(t).items()})))):
            chk.case(("dot-product", text, entry))
            try:
                got, ref = f(text), f(want)
            except Exception as e:
                chk.diverge({"clause": "word-form-raises", "exc": type(e).__name__, "text": text, "entry": entry}, {"text": text, "entry": entry})
                continue
            if dict(got.unit_items()) != dict(ref.unit_items()):
                chk.diverge({"clause": "word-form", "text": text, "entry": entry}, {"text": text, "entry": entry, "observed": str(got), "expected": str(ref)})
    # what parsing returns belongs to the caller: changing it in place does not change what the same text means next time
    for mk in (lambda: pint.UnitRegistry(), lambda: pint.UnitRegistry(force_ndarray=True)):
        u3 = mk()
        chk.case(("parse-result-owned", bool(getattr(u3, "force_ndarray", False))))
        try:
            for text, change in (("meter", lambda q: q.__imul__(5)), ("second", lambda q: q.ito("millisecond")), ("kilogram", lambda q: q.__iadd__(q))):
                try:
                    change(u3(text))
                except Exception:
                    pass                   # (an integer array cannot take a float in place: not what is examined here)
            facts = [u3("2 meter").to("meter").magnitude, str(u3("3 second").units), u3("3 second").magnitude, u3.parse_expression("4 kilogram").to("kilogram").magnitude]
            ok = [float(facts[0]) == 2.0, facts[1] == "second", float(facts[2]) == 3.0, float(facts[3]) == 4.0]
        except Exception as e:
            chk.diverge({"clause": "parse-result-shared-raises", "exc": type(e).__name__}, {})
            continue
        if not all(ok):
            chk.diverge({"clause": "parse-result-shared"}, {"observed": [str(x) for x in facts]})
    # integers stay integers; decimals take the registry's type
    for text, T, val in (("3 m", int, 3), ("3.0 m", float, 3.0), ("6 m / 2", float, 3.0), ("2 ** 3 m", int, 8), ("7 // 2 m", int, 3), ("1_000 m", int, 1000),
                         ("9_007_199_254_740_993 m", int, 9007199254740993), ("7_0 // 8 m", int, 8), ("1_0.5 m", float, 10.5), ("1e0_1 m", float, 10.0)):
        chk.case(("literal-type", text))
        try:
            m = u.parse_expression(text).magnitude
        except Exception as e:
            chk.diverge({"clause": "word-form-raises", "exc": type(e).__name__, "text": text}, {"text": text})
            continue
        if T is not None and (type(m) is not T or m != val):
            chk.diverge({"clause": "literal-type", "text": text}, {"text": text, "expected": [T.__name__, val], "observed": [type(m).__name__, repr(m)]})


FUZZ_SEEDS = ["__import__('os').system('true')", "().__class__.__bases__[0].__subclasses__()", "meter.__class__", "open('/etc/passwd').read()",
              "eval('1')", "exec('x=1')", "lambda: 1", "[x for x in (1,2)]", "meter if 1 else second", "1; import os", "os.getcwd()",
              "getattr(meter, 'units')", "meter.units", "meter[0]", "f'{1}'", "meter @ second", "3 meter and 2", "print(1)", "{1: 2}",
              "__builtins__", "globals()", "compile('1','','eval')", "meter.__init__.__globals__", "(lambda:0).__code__", "1 if meter else 2",
              "meter := 3", "not meter", "~meter", "meter << 2", "meter, second", "*meter", "**meter", "3 meter # comment", "\\x00", "meter\\nimport os",
              # source-encoding cookies: a tokenizer working on bytes looks the named codec up (import of a module chosen by the input)
              "# coding: cp500\n2 m", "#coding:hz\n3", "# -*- coding: iso2022_kr -*-\n3 meter", "# vim: set fileencoding=cp1140 :\n3 meter", "\n# coding: big5hkscs\n3"]


def no_execution(chk, rng, n):
    import pint
    u = pint.UnitRegistry()
    state = {"on": False, "events": []}
    watched = ("exec", "compile", "import", "open", "os.", "subprocess.", "socket.", "ctypes.", "shutil.", "builtins.input", "pty.", "marshal.", "code.__new__")

    def hook(event, args):
        if state["on"] and event.startswith(watched) and not (event == "open" and args and args[0] in ("<string>", "<tokenize>", "<unknown>")):
            # (CPython itself tries to open the pseudo file "<string>" when it builds the SyntaxError of the tokenizer)
            # pint's own parser calls tokenize (no compile/exec); lazy imports of already-imported modules do not raise "import" events
            state["events"].append((event, repr(args)[:120]))
    sys.addaudithook(hook)
    alphabet = list("0123456789 .+-*/^()[]{}<>=!@#$%&|~,;:'\"\\_eE") + ["meter", "second", "kg", "per", "squared", "**", "//", "+/-", "±", "²", "µ", "°", "\n", "\t", "__", "import ", "lambda "]
    inputs = list(FUZZ_SEEDS)
    while len(inputs) < n:
        r = rng.random()
        if r < 0.3:
            s = rng.choice(FUZZ_SEEDS)
            i = rng.randrange(len(s) + 1)
            inputs.append(s[:i] + rng.choice(alphabet) + s[i:])
        else:
            inputs.append("".join(rng.choice(alphabet) for _ in range(rng.randint(1, 14))))
    for text in inputs:
        chk.case(("fuzz", text), nontrivial=True)
        for name, fn in (("parse_expression", lambda: u.parse_expression(text)), ("parse_units", lambda: u.parse_units(text)), ("Quantity", lambda: u.Quantity(text))):
            state["events"] = []
            state["on"] = True
            try:
                with alarm(5):
                    r = fn()
                outcome = "value"
            except CaseTimeout:
                outcome = "timeout"
            except BaseException as e:
                outcome = "raises"
            finally:
                state["on"] = False
            if state["events"]:
                chk.diverge({"clause": "code-execution-or-io", "event": state["events"][0][0], "form": name}, {"text": text, "events": state["events"][:5]})
            if outcome == "value" and not (hasattr(r, "magnitude") or hasattr(r, "dimensionality") or hasattr(r, "nominal_value") or isinstance(r, (int, float, F, Decimal))):
                chk.diverge({"clause": "non-quantity-result", "form": name}, {"text": text, "type": type(r).__name__})
    # no attribute access: a name that is an attribute of the registry object (or of its classes) but not a unit by the naming rule
    # (decided on the reader's tables) must be refused as an undefined unit, alone and inside an expression
    names = sorted(n for n in set(dir(u)) | set(vars(u)) | {"sys", "os", "self", "registry", "ureg", "pint"} if n.isidentifier() and not defreg.readings(n))
    if len(names) < 60:
        raise MachineryError("only %d attribute names to try" % len(names))
    for n in names:
        for text in (n, "2 " + n, "3 * %s / 2" % n):
            chk.case(("attribute-name", text), nontrivial=True)
            state["events"] = []
            state["on"] = True
            try:
                r = u.parse_expression(text)
                outcome = "value:" + repr(r)[:60]
            except pint.UndefinedUnitError:
                outcome = "undefined"
            except BaseException as e:
                outcome = "raises:" + type(e).__name__
            finally:
                state["on"] = False
            if outcome != "undefined" or state["events"]:
                chk.diverge({"clause": "attribute-name-not-refused", "outcome": outcome.split(":")[0]}, {"text": text, "outcome": outcome, "events": state["events"][:3]})
    chk.samples.append({"fuzz_input": inputs[len(FUZZ_SEEDS) + 3]})
    chk.notes["fuzz_inputs"] = len(inputs)


def replay(chk, rec):
    import json
    print(json.dumps(rec["detail"], indent=1)[:4000])
    chk.seed = rec.get("seed", 0)
    return run(chk)
