"""C19 - measurements carry uncertainty consistently through construction, conversion, arithmetic, text and rendering.

1. TLC law run  : MC_C19 (Measure.tla): a measurement is (nominal, first-order dependence on independent variables, units); laws: the
                  relative error is unchanged under multiplicative conversion, the deviation scales with the slope only (offsets move the
                  nominal value), converting back is the identity, negative errors are rejected by every constructor form and all forms
                  agree, x - x and x / x have no uncertainty, (x + y) - y = x, independent variances add, fully correlated operands cancel,
                  x**2 = x * x, shorthand digits align with the last digits of the nominal value.
2. spec -> code : every TLC state is executed on pint: 252 constructor cases x 7 forms, 49 conversions (degC / degF / K included), 3606
                  arithmetic expressions of depth <= 2 over a pool with shared variables (as Measurement objects and as quantities with
                  ufloat magnitudes), 1300+ notation records each rendered in every spelling (+/-, unicode, spacing, exponent spellings, sign
                  inside / outside the parentheses, with / without unit, at the end of the input) and parsed by the registry, and the 16
                  (flag, shape) renderings assembled from the pieces of the magnitude and compared with format(m, spec).
3. code -> spec : random values / errors over many decades for conversion and arithmetic on the bundled registry (relational: against plain
                  quantities and numerical differentiation).
"""
import math
import os
import random
import re
import warnings
from fractions import Fraction as F

from .. import tlaval
from ..engine import MachineryError

UNAME = {"m": "meter", "cm": "centimeter", "km": "kilometer", "s": "second", "K": "kelvin", "degC": "degree_Celsius", "degF": "degree_Fahrenheit"}
OTHER_UNIT = {"m": ("cm", 100), "cm": ("m", F(1, 100)), "degC": ("degC", 1)}
SUP = str.maketrans("-0123456789", "⁻⁰¹²³⁴⁵⁶⁷⁸⁹")


def fr(p):
    return F(p[0], p[1])


def close(a, b, rel=1e-9, ab=1e-12):
    a, b = float(a), float(b)
    return abs(a - b) <= max(ab, rel * max(abs(a), abs(b)))


def run(chk):
    import pint
    warnings.simplefilter("ignore")
    rng = random.Random(chk.seed)
    wd = chk.workdir("gen")
    dump = os.path.join(wd, "m.dump")
    chk.tlc("laws+gen", "MC_C19", "MC_C19_full.cfg" if chk.tier == "thorough" else "MC_C19.cfg", wd=wd, args=["-dump", dump])
    states = [st for st in tlaval.parse_states(open(dump).read()) if st["kind"] != "init"]
    os.remove(dump)
    kinds = {}
    for st in states:
        kinds[st["kind"]] = kinds.get(st["kind"], 0) + 1
    if not (kinds.get("ctor", 0) >= 200 and kinds.get("conv", 0) >= 40 and kinds.get("arith", 0) >= 3000 and kinds.get("note", 0) >= 1000 and kinds.get("render", 0) == 16):
        raise MachineryError("generator produced %s" % kinds)
    ureg = pint.UnitRegistry()
    for st in states:
        {"ctor": ctor, "conv": conv, "arith": arith, "note": note, "render": render}[st["kind"]](chk, ureg, st, rng)
    chk.traces += len(states)
    ufloat_with_unit(chk, ureg)
    format_defaults_and_identity_conversion(chk)
    chk.mark("states")
    randomised(chk, ureg, rng, 1500 if chk.tier == "thorough" else 300)
    return chk.finish(
        rule="cases = states of MC_C19 (constructor form x value x error x unit; conversion; arithmetic expression; notation record; rendering "
             "flag x shape), each executed on pint (notations in every spelling, arithmetic in two representations); distinct by state; "
             "non-trivial = non-zero uncertainty or a refusal; plus random conversions / expressions on the bundled registry",
        exhaustive=True)


# ---------------------------------------------------------------- constructors
def ctor(chk, ureg, st, rng):
    import pint
    from uncertainties import ufloat
    i, out = st["inp"], st["out"]
    Q, M = ureg.Quantity, ureg.Measurement
    v, e, u = float(fr(i["v"])), float(fr(i["e"])), UNAME[i["u"]]
    form = i["form"]
    chk.case(("ctor", form, repr(i["v"]), repr(i["e"]), i["u"]), nontrivial=e != 0, sample={"form": form, "value": v, "error": e, "unit": u})
    ou, k = OTHER_UNIT[i["u"]]
    thunks = {
        "quantity-pair": lambda: M(Q(v, u), Q(e * float(k), UNAME[ou])),
        "numbers-unit": lambda: M(v, e, u),
        "quantity-number": lambda: M(Q(v, u), e),
        "ufloat-unit": lambda: M(ufloat(v, e), u),
        "plus-minus": lambda: Q(v, u).plus_minus(e),
        "plus-minus-quantity": lambda: Q(v, u).plus_minus(Q(e * float(k), UNAME[ou])),
        "plus-minus-relative": lambda: Q(v, u).plus_minus(e / abs(v), relative=True),
    }
    sig = {"kind": "ctor", "form": form}
    try:
        m = thunks[form]()
        err = None
    except ValueError as ex:
        m, err = None, "valueerr"
    except Exception as ex:
        # uncertainties itself refuses a negative deviation (NegativeStdDev) before pint sees it: a refusal all the same
        m, err = None, "valueerr" if type(ex).__name__ == "NegativeStdDev" and form == "ufloat-unit" else "other:" + type(ex).__name__
    if out["k"] != "ok":
        if err != out["k"]:
            chk.diverge(dict(sig, clause="negative-error-not-rejected", observed=err or "accepted"), {"form": form, "value": v, "error": e, "unit": u})
        return
    if err:
        chk.diverge(dict(sig, clause="constructor-raises", observed=err), {"form": form, "value": v, "error": e, "unit": u})
        return
    got = {"value": m.value.magnitude, "error": m.error.magnitude, "rel": m.rel}
    ok = all(close(got[f], fr(out[f])) for f in ("value", "error", "rel")) and dict(m.unit_items()) == {u: 1} \
        and dict(m.value.unit_items()) == {u: 1} and dict(m.error.unit_items()) == {u: 1} \
        and close(m.magnitude.nominal_value, fr(out["value"])) and close(m.magnitude.std_dev, fr(out["error"]))
    if not ok:
        chk.diverge(dict(sig, clause="accessors"), {"form": form, "value": v, "error": e, "unit": u, "observed": {k_: repr(x) for k_, x in got.items()}})


def format_defaults_and_identity_conversion(chk):
    """a measurement is rendered with the unit flags of default_format exactly as the plain quantity is (separate_format_defaults on
    and off); converting to the units it already has is the same measurement - fully correlated with the original"""
    import pint
    for sep in (True, None):
        u = pint.UnitRegistry()
        u.formatter.default_format = "~"
        if sep is not None:
            u.separate_format_defaults = sep
        m = u.Measurement(4.0, 0.1, "kilometer / second")
        q = u.Quantity(4.0, "kilometer / second")
        for spec in (".1f", ".2f", ""):
            chk.case(("measurement-default-format", sep, spec))
            try:
                mt, qt = format(m, spec), format(q, spec)
            except Exception as e:
                chk.diverge({"kind": "render", "clause": "format-raises", "exc": type(e).__name__, "flag": "default"}, {"spec": spec, "separate_format_defaults": sep})
                continue
            if mt.split(") ")[-1] != qt.split(" ", 1)[-1]:
                chk.diverge({"kind": "render", "clause": "measurement-unit-part-differs-from-quantity"}, {"spec": spec, "separate_format_defaults": sep, "measurement": mt, "quantity": qt})
    u = pint.UnitRegistry()
    for m in (u.Measurement(5.0, 0.5, "meter"), u.Quantity(5.0, "meter").plus_minus(0.5), u.Measurement(2.0, 0.1, "kilometer")):
        un = str(m.units)
        for name, f in (("to-same-unit", lambda: m - m.to(un)), ("to-other-unit", lambda: m - m.to("centimeter")), ("to_compact", lambda: m - m.to_compact()),
                        ("to_base_units", lambda: m - m.to_base_units())):
            chk.case(("identity-conversion", un, name))
            try:
                d = f()
                ok = abs(d.magnitude.nominal_value) < 1e-12 and d.magnitude.std_dev < 1e-12
            except Exception as e:
                chk.diverge({"kind": "arith", "clause": "identity-conversion-raises", "form": name, "exc": type(e).__name__}, {"measurement": repr(m)})
                continue
            if not ok:
                chk.diverge({"kind": "arith", "clause": "conversion-breaks-correlation", "form": name}, {"measurement": repr(m), "difference": repr(d)})


def ufloat_with_unit(chk, ureg):
    """a bare ufloat combined with a Unit object makes the quantity with that uncertain magnitude, on either side of * and /"""
    from uncertainties import ufloat
    x = ufloat(4.0, 0.1)
    for name, fn, want_units, want_nom in (("ufloat * unit", lambda: x * ureg.second, {"second": 1}, 4.0), ("unit * ufloat", lambda: ureg.second * x, {"second": 1}, 4.0),
                                            ("ufloat / unit", lambda: x / ureg.second, {"second": -1}, 4.0), ("unit / ufloat", lambda: ureg.second / x, {"second": 1}, 0.25),
                                            ("ufloat * quantity", lambda: x * ureg.Quantity(2.0, "meter"), {"meter": 1}, 8.0), ("quantity / ufloat", lambda: ureg.Quantity(2.0, "meter") / x, {"meter": 1}, 0.5),
                                            ("ufloat / quantity", lambda: x / ureg.Quantity(2.0, "meter"), {"meter": -1}, 2.0)):
        chk.case(("ufloat-with-unit", name))
        try:
            r = fn()
            ok = {k: int(v) for k, v in r.unit_items()} == want_units and close(r.magnitude.nominal_value, want_nom) and r.magnitude.std_dev > 0
        except Exception as e:
            chk.diverge({"kind": "ctor", "clause": "ufloat-with-unit-raises", "form": name, "exc": type(e).__name__}, {"form": name})
            continue
        if not ok:
            chk.diverge({"kind": "ctor", "clause": "ufloat-with-unit", "form": name}, {"form": name, "observed": repr(r)})


# ---------------------------------------------------------------- conversion
def conv(chk, ureg, st, rng):
    import pint
    i, out = st["inp"], st["out"]
    v, e = float(fr(i["v"])), float(fr(i["e"]))
    u0, u1 = UNAME[i["u0"]], UNAME[i["u1"]]
    chk.case(("conv", repr(i["v"]), repr(i["e"]), u0, u1), nontrivial=True, sample={"measurement": "(%s +/- %s) %s" % (v, e, u0), "to": u1})
    for how in ("to", "ito", "plus_minus-after-to", "quantity-with-ufloat"):
        sig = {"kind": "conv", "how": how, "offset": i["u0"] in ("degC", "degF") or i["u1"] in ("degC", "degF")}
        try:
            if how == "to":
                m = ureg.Measurement(v, e, u0).to(u1)
            elif how == "ito":
                m = ureg.Measurement(v, e, u0)
                m.ito(u1)
            elif how == "quantity-with-ufloat":
                from uncertainties import ufloat
                m = ureg.Quantity(ufloat(v, e), u0).to(u1)
            else:
                # the nominal value converts like a plain quantity
                m = ureg.Quantity(v, u0).to(u1)
            err = None
        except pint.DimensionalityError:
            m, err = None, "dimerr"
        except Exception as ex:
            m, err = None, "other:" + type(ex).__name__
        if out["k"] != "ok":
            if err != out["k"]:
                chk.diverge(dict(sig, clause="conversion-expected-refusal", observed=err or "converted"), {"v": v, "e": e, "from": u0, "to": u1})
            continue
        if err:
            chk.diverge(dict(sig, clause="conversion-raises", observed=err), {"v": v, "e": e, "from": u0, "to": u1})
            continue
        if how == "plus_minus-after-to":
            ok = close(m.magnitude, fr(out["value"]), rel=1e-12, ab=1e-9)
        else:
            mag = m.magnitude
            ok = close(mag.nominal_value, fr(out["value"]), rel=1e-12, ab=1e-9) and close(mag.std_dev, fr(out["error"]), rel=1e-12) and dict(m.unit_items()) == {u1: 1}
        if not ok:
            chk.diverge(dict(sig, clause="converted-value"), {"v": v, "e": e, "from": u0, "to": u1, "expected": [str(fr(out["value"])), str(fr(out["error"]))], "observed": repr(m)})


# ---------------------------------------------------------------- arithmetic
def pools(ureg):
    from uncertainties import ufloat
    M, Q = ureg.Measurement, ureg.Quantity
    out = {}
    for rep in ("measurement", "ufloat-quantity"):
        if rep == "measurement":
            A, B, C = M(3.0, 0.5, "meter"), M(200.0, 50.0, "centimeter"), M(2.0, 0.25, "second")
        else:
            A, B, C = Q(ufloat(3.0, 0.5), "meter"), Q(ufloat(200.0, 50.0), "centimeter"), Q(ufloat(2.0, 0.25), "second")
        p = {"A": A, "B": B, "C": C, "A2": A.to("centimeter"), "P": Q(2.0, "meter"), "N": 3.0}
        vars_ = {"a": A.magnitude, "b": B.magnitude, "c": C.magnitude}
        out[rep] = (p, vars_)
    return out


def ev(p, e):
    import operator
    if isinstance(e, str):
        return p[e]
    if len(e) == 2:
        return ev(p, e[0]) ** 2
    op = {"+": operator.add, "-": operator.sub, "*": operator.mul, "/": operator.truediv}[e[1]]
    return op(ev(p, e[0]), ev(p, e[2]))


def observe(r, vars_):
    """nominal, dependence on each pool variable (derivative x sigma), units of a result"""
    mag = r.magnitude if hasattr(r, "magnitude") else r
    un = {k: int(v) for k, v in r.unit_items()} if hasattr(r, "unit_items") else {}
    if hasattr(mag, "nominal_value"):
        nom = mag.nominal_value
        lin = {}
        for name, var in vars_.items():
            d = [v for k, v in mag.derivatives.items() if any(k is x for x in var.derivatives)]
            lin[name] = (d[0] if d else 0.0) * var.std_dev
        return nom, lin, un, mag.std_dev
    return float(mag), {k: 0.0 for k in vars_}, un, 0.0


def arith(chk, ureg, st, rng, _cache={}):
    import pint
    if id(ureg) not in _cache:
        _cache.clear()
        _cache[id(ureg)] = pools(ureg)
    e, out = st["inp"], st["out"]
    text = repr(e).replace("'", "").replace(",", "")
    chk.case(("arith", text), nontrivial=out["k"] != "ok" or any(x[0] != 0 for x in out["lin"].values()), sample={"expression": text, "expected": out["k"]})
    for rep, (p, vars_) in _cache[id(ureg)].items():
        sig = {"kind": "arith", "representation": rep, "depth": 2 if not isinstance(e[0], str) else 1, "op": e[1]}
        try:
            r = ev(p, e)
            err = None
        except pint.DimensionalityError:
            r, err = None, "dimerr"
        except ZeroDivisionError:
            r, err = None, "zerodiv"
        except Exception as ex:
            r, err = None, "other:" + type(ex).__name__
        if out["k"] != "ok":
            if err != out["k"]:
                chk.diverge(dict(sig, clause="arith-expected-refusal", expected=out["k"], observed=err or "returned"), {"expression": text, "observed": repr(r)})
            continue
        if err:
            chk.diverge(dict(sig, clause="arith-raises", observed=err), {"expression": text})
            continue
        nom, lin, un, std = observe(r, vars_)
        want_un = {UNAME[k]: v for k, v in out["un"].items() if v != 0}
        var = sum(float(fr(x)) ** 2 for x in out["lin"].values())
        ok = close(nom, fr(out["nom"]), rel=1e-12) and un == want_un and close(std ** 2, var, rel=1e-9, ab=1e-18) \
            and all(close(lin[k], fr(out["lin"][k]), rel=1e-9, ab=1e-12) for k in lin)
        if not ok:
            chk.diverge(dict(sig, clause="arith-result"), {"expression": text, "expected": {"nom": str(fr(out["nom"])), "variance": var, "units": want_un},
                                                              "observed": {"nom": nom, "variance": std ** 2, "units": un, "lin": lin}})


# ---------------------------------------------------------------- notations
def dec(p):
    digits, decimals = p
    s = str(digits)
    if decimals == 0:
        return s
    s = s.rjust(decimals + 1, "0")
    return s[:-decimals] + "." + s[-decimals:]


EXP_SPELL = {0: ["e0", "e+0", "e+00", "E-00"], 1: ["e1", "e+01"], -1: ["e-1", "E-01"], 3: ["e3", "e+03", "E+3"], 2: ["e2", "e+2", "e+02", "E+02"], -2: ["e-2", "e-02", "E-2"], 6: ["e6", "e+6", "e+06", "E+06"], -6: ["e-6", "e-06", "E-06"]}


def spellings(n):
    """every text of a notation record: +/- sign spelling and spacing, exponent spelling, sign placement, unit attachment"""
    nom, unc = dec(n["nom"]), dec(n["unc"]) if n["form"] != "short" else str(n["unc"][0])
    exps = [""] if n["exp"] == 99 else EXP_SPELL[n["exp"]]
    out = []
    for ex in exps:
        if n["form"] == "pm":
            cores = [("-" if n["neg"] else "") + nom + pm + unc for pm in (" +/- ", "+/-", " ± ", "±")]
        elif n["form"] == "ppm":
            cores = []
            for pm in (" +/- ", "+/-", " ± ", "±"):
                if n["neg"]:
                    cores += ["(-" + nom + pm + unc + ")" + ex, "-(" + nom + pm + unc + ")" + ex]
                else:
                    cores += ["(" + nom + pm + unc + ")" + ex, "( " + nom + pm + unc + " )" + ex]
        else:
            if n["form"] == "short-dot" and n["unc"][1] == 0:
                continue
            alts = [unc] + ([unc[1:]] if n["form"] == "short-dot" and unc.startswith("0.") else [])
            cores = [("-" if n["neg"] else "") + nom + "(" + a + ")" + ex for a in alts]
        for c in cores:
            c = c + n["tail"]
            mults = [""] if n["mult"] == 1 else ["%d * " % n["mult"], "%d*" % n["mult"]]
            for mu in mults:
                if n["unit"]:
                    out += [mu + c + " " + n["unit"], mu + c + n["unit"] if not c[-1].isdigit() else mu + c + " * " + n["unit"]]
                else:
                    out.append(mu + c)
    return sorted(set(out))


def note(chk, ureg, st, rng):
    n, out = st["inp"], st["out"]
    texts = spellings(n)
    want_un = {UNAME[k]: v for k, v in out["un"].items() if v != 0}
    base = {"form": n["form"], "exponent": n["exp"] != 99, "tail": n["tail"], "unit": bool(n["unit"])}
    for t in texts:
        chk.case(("note", t), nontrivial=True, sample={"text": t, "expected": "%s +/- %s %s" % (fr(out["nom"]), fr(out["std"]), n["unit"])})
        sig = dict(base, kind="note")
        try:
            r = ureg(t)
        except Exception as ex:
            chk.diverge(dict(sig, clause="notation-raises", exc=type(ex).__name__), {"text": t, "error": repr(ex)[:200]})
            continue
        mag = r.magnitude if hasattr(r, "magnitude") else r
        un = {k: int(v) for k, v in r.unit_items()} if hasattr(r, "unit_items") else {}
        if not hasattr(mag, "nominal_value"):
            chk.diverge(dict(sig, clause="notation-loses-uncertainty"), {"text": t, "observed": repr(r)})
            continue
        if not (close(mag.nominal_value, fr(out["nom"]), rel=1e-12) and close(mag.std_dev, fr(out["std"]), rel=1e-12) and un == want_un):
            which = "std" if close(mag.nominal_value, fr(out["nom"]), rel=1e-12) and un == want_un else "nominal-or-units"
            chk.diverge(dict(sig, clause="notation-value", which=which), {"text": t, "expected": [str(fr(out["nom"])), str(fr(out["std"])), want_un], "observed": repr(r)})


# ---------------------------------------------------------------- rendering
SHAPES = {
    "plain": (re.compile(r"^(-?[\d.]+)\+/-([\d.]+)$"), [("", 4.0, 0.1), (".1f", 4.0, 0.1), (".3u", 0.2, 0.01), ("", -31.25, 2.5), (".2f", 1234.5, 20.0)]),
    "exp": (re.compile(r"^\((-?[\d.]+)\+/-([\d.]+)\)e([+-]\d+)$"), [("", 4e20, 1e19), ("", 4e-20, 1e-21), ("e", 4.0, 0.1), (".1ue", 0.2, 0.01), (".1ue", -3.5e5, 2e4), (".2ue", 6.02e123, 1e121), ("e", 3e9, 1e8)]),
    "short": (re.compile(r"^(-?[\d.]+)\((\d+)\)$"), [("S", 4.0, 0.1), (".1uS", 0.2, 0.01), ("S", -31.25, 0.25)]),
    "short-exp": (re.compile(r"^(-?[\d.]+)\((\d+)\)e([+-]\d+)$"), [("S", 4e20, 1e19), ("S", 4e-20, 1e-21), ("eS", 4.0, 0.1), (".1ueS", -3.5e5, 2e4)]),
}


def render(chk, ureg, st, rng):
    flag, shape = st["inp"]
    segs = st["out"]
    rx, pool = SHAPES[shape]
    for numspec, v, e in pool:
        for units in ("second ** 2", "meter / second", "kilogram"):
            for abbrev in ("", "~"):
                m = ureg.Measurement(v, e, units)
                plain = format(m.magnitude, numspec)
                mt = rx.match(plain)
                if not mt:
                    raise MachineryError("magnitude %r with %r does not have the shape %s: %r" % ((v, e), numspec, shape, plain))
                exp = int(mt.group(3)) if mt.lastindex == 3 else None
                pieces = {"NOM": mt.group(1), "ERR": mt.group(2), "ERRDIGITS": mt.group(2), "UNIT": format(m.units, abbrev + flag),
                          "EXP2": mt.group(3) if exp is not None else "", "EXPINT": str(exp), "EXPSUP": str(exp).translate(SUP)}
                want = "".join(pieces.get(s, s) for s in segs).replace("<pm>", "±").replace("<x>", "×")
                spec = numspec + abbrev + ("" if flag == "D" and rng.random() < 0.5 else flag)
                chk.case(("render", flag, shape, numspec, v, units, abbrev), nontrivial=True, sample={"spec": spec, "measurement": repr(m), "expected": want})
                try:
                    got = format(m, spec)
                except Exception as ex:
                    chk.diverge({"kind": "render", "clause": "format-raises", "flag": flag, "shape": shape, "exc": type(ex).__name__}, {"spec": spec, "measurement": repr(m)})
                    continue
                if got != want:
                    chk.diverge({"kind": "render", "clause": "rendered-text", "flag": flag, "shape": shape}, {"spec": spec, "measurement": repr(m), "expected": want, "observed": got})


# ---------------------------------------------------------------- random cross-check on the bundled registry
def randomised(chk, ureg, rng, n):
    import pint
    M, Q = ureg.Measurement, ureg.Quantity
    groups = [["meter", "inch", "mile", "nanometer", "light_year"], ["second", "hour", "year"], ["kilogram", "pound", "grain"], ["joule", "electron_volt", "calorie", "kilowatt_hour"],
              ["kelvin", "degree_Celsius", "degree_Fahrenheit", "degree_Rankine"], ["pascal", "bar", "psi", "mmHg"]]
    for t in range(n):
        g = rng.choice(groups)
        u0, u1 = rng.choice(g), rng.choice(g)
        v = rng.choice([-1, 1]) * 10 ** rng.uniform(-6, 9)
        rel = 10 ** rng.uniform(-6, 0)
        e = abs(v) * rel
        chk.case(("random-conv", t, chk.seed))
        m = M(v, e, u0)
        try:
            c = m.to(u1)
            # conversions are affine: the slope is a difference quotient of the plain conversion over a step of the order of the value
            h = max(abs(v), 1.0)
            q0, q1 = Q(v, u0).to(u1).magnitude, Q(v + h, u0).to(u1).magnitude
            qa = Q(v - h, u0).to(u1).magnitude
        except Exception as ex:
            chk.diverge({"kind": "random-conv", "clause": "raises", "exc": type(ex).__name__}, {"v": v, "e": e, "from": u0, "to": u1})
            continue
        slope = (q1 - qa) / (2 * h)
        ok = close(c.value.magnitude, q0, rel=1e-12, ab=1e-300) and close(c.error.magnitude, abs(slope) * e, rel=1e-9, ab=1e-300)
        if ok and not any("degree" in x and "Rankine" not in x for x in (u0, u1)):
            ok = close(c.rel, m.rel, rel=1e-9)
        if not ok:
            chk.diverge({"kind": "random-conv", "clause": "converted-value", "offset": any("degree" in x for x in (u0, u1))},
                        {"v": v, "e": e, "from": u0, "to": u1, "observed": repr(c), "plain": [q0, q1]})
    # random expressions: first-order propagation against numerical differentiation of the same expression on plain quantities
    ops = ["+", "-", "*", "/"]
    for t in range(n):
        units = [rng.choice(groups[0]) for _ in range(3)]
        vals = [10 ** rng.uniform(-2, 3) for _ in range(3)]
        rels = [10 ** rng.uniform(-5, -2) for _ in range(3)]
        o1, o2 = rng.choice(ops), rng.choice(ops)
        if (o1 in "+-") != (o2 in "+-") and o1 in "*/":
            o2 = rng.choice("*/")
        if o1 in "+-" and o2 in "*/":
            pass
        import operator
        OP = {"+": operator.add, "-": operator.sub, "*": operator.mul, "/": operator.truediv}
        f = lambda x, y, z: OP[o2](OP[o1](x, y), z)
        ms = [M(v, v * r, u) for v, r, u in zip(vals, rels, units)]
        chk.case(("random-expr", t, chk.seed))
        try:
            r = f(*ms)
            base = f(*[Q(v, u) for v, u in zip(vals, units)])
        except pint.DimensionalityError:
            try:
                f(*[Q(v, u) for v, u in zip(vals, units)])
                chk.diverge({"kind": "random-expr", "clause": "measurement-refused-plain-accepted"}, {"ops": [o1, o2], "units": units})
            except pint.DimensionalityError:
                pass
            continue
        var = 0.0
        for i in range(3):
            h = vals[i] * 1e-6
            a = [Q(v + (h if j == i else 0), u) for j, (v, u) in enumerate(zip(vals, units))]
            b = [Q(v - (h if j == i else 0), u) for j, (v, u) in enumerate(zip(vals, units))]
            d = (f(*a).to(base.units).magnitude - f(*b).to(base.units).magnitude) / (2 * h)
            var += (d * vals[i] * rels[i]) ** 2
        ok = dict(r.unit_items()) == dict(base.unit_items()) and close(r.magnitude.nominal_value, base.magnitude, rel=1e-12) and close(r.magnitude.std_dev ** 2, var, rel=1e-4)
        if not ok:
            chk.diverge({"kind": "random-expr", "clause": "propagation"}, {"ops": [o1, o2], "units": units, "values": vals, "rels": rels, "observed": repr(r), "plain": repr(base), "variance": var})


def replay(chk, rec):
    import json
    print(json.dumps(rec["detail"], indent=1, ensure_ascii=False)[:4000])
    chk.seed = rec.get("seed", 0)
    return run(chk)
