"""C06 - offset and logarithmic units convert by their defining maps and refuse ambiguity.

1. TLC law run  : MC_C06: NonMultiplicativeRegistry._convert, _add_sub (seven branches), _mul_div, __pow__ transcribed in
                  Offset.tla, in both registry modes, against the documented table (difference of offsets is a delta, offset
                  +- delta stays offset, offset + offset refused, products / powers refused or through base units, delta by
                  scale only, delta <-> offset refused, logarithmic units on the exact lattice).
2. spec -> code : every state executed on a registry materialised from the model (C, Fh, R, K, deltas, dBm, dB, oct) in
                  both modes, scalar Fraction exact, ndarray in-place twins with tolerance.
3. code -> spec : bundled registry: conversions among degC, degF, degR, degRe, kelvin and their deltas with exact Fraction
                  magnitudes validated through the affine maps in fingerprint arithmetic by Trace_Reg; dB / dBm / Np / octave /
                  decade conversions against their defining formula (float tolerance).
"""
import math
import random
from fractions import Fraction as F

from .. import defreg, qreplay as qr
from ..engine import MachineryError
from .c03 import generate

UN = {"muln": lambda x: x * 2, "divn": lambda x: x / 2, "rdivn": lambda x: 2 / x, "pow0": lambda x: x ** 0, "pow1": lambda x: x ** 1,
      "pow2": lambda x: x ** 2, "neg": lambda x: -x, "eq0": lambda x: x == 0, "gt0": lambda x: x > 0, "bool": lambda x: bool(x)}


def run(chk):
    import numpy as np
    import pint
    rng = random.Random(chk.seed)
    thorough = chk.tier == "thorough"
    r, reg, cases = generate(chk, "MC_C06", "MC_C06.cfg")
    kinds = {st["res"]["k"] for st in cases}
    if not {"ok", "bool", "dimerr", "offseterr", "valueerr"} <= kinds:
        raise MachineryError("vacuous generator: result kinds %s" % sorted(kinds))
    lines = qr.lines_of(reg)
    uregs = {ac: qr.materialise(reg, F, autoconvert_offset_to_baseunit=ac) for ac in (False, True)}
    fregs = {ac: qr.materialise(reg, float, autoconvert_offset_to_baseunit=ac) for ac in (False, True)}
    logs = {n for n, d in reg["units"].items() if d.get("log")}
    for st in cases:
        a, b, op, ac = st["a"], st["b"], st["op"], st["ac"]
        exp = qr.expected(st["res"])
        islog = bool(logs & (set(qr.cont_of(a["u"])) | set(qr.cont_of(b["u"]))))
        ureg = fregs[ac] if islog else uregs[ac]       # logarithms need float magnitudes
        T = float if islog else F
        chk.case((ac, op, a, b), nontrivial=True, sample={"autoconvert": ac, "a": a, "b": b, "op": op, "expected": st["res"]})
        case = {"registry": lines, "autoconvert": ac, "a": a, "b": b, "op": op, "expected": st["res"]}
        x, y = qr.mkq(ureg, a, T), qr.mkq(ureg, b, T)
        sx, sy = qr.snapshot(x), qr.snapshot(y)
        try:
            got = qr.project(UN[op](x) if op in UN else qr.apply(op, x, y))
        except Exception as e:
            got = {"k": qr.kind_of_exception(e)}
        sig = {"op": op, "autoconvert": ac, "expected": exp["k"], "observed": got["k"], "log": islog}
        if islog and exp["k"] == "ok":
            # logarithms are computed in floating point: value within 1e-9 (or any value when the model says "irrational")
            ok = got["k"] == "ok" and set(got["u"]) == set(exp["u"]) and (
                exp["m"] is None or abs(float(got["m"]) - float(exp["m"])) <= 1e-9 * max(1.0, abs(float(exp["m"]))))
            if not ok:
                chk.diverge(dict(sig, clause="result"), dict(case, observed=got))
        elif got != exp:
            chk.diverge(dict(sig, clause="result"), dict(case, observed=got))
        if (qr.snapshot(x), qr.snapshot(y)) != (sx, sy):
            chk.diverge(dict(sig, clause="operands-unchanged"), case)
        # in-place conversion of an ndarray magnitude (the converters' in-place branches)
        if op == "to":
            U = fregs[ac]
            xa = U.Quantity(np.array([float(F(*a["m"]))] * 2), qr.mkq(U, a, float).units)
            try:
                with np.errstate(all="ignore"):
                    xa.ito(qr.mkq(U, b, float).units)
                g = {"k": "ok", "m": float(xa.magnitude[0]), "u": {k: qr.frac(v) for k, v in xa.unit_items()}}
            except Exception as e:
                g = {"k": qr.kind_of_exception(e)}
            if exp["k"] == "ok" and exp["m"] is None:
                okk = g["k"] == "ok"
            else:
                okk = qr.approx_equal(g, exp, 1e-9)
            if not okk:
                chk.diverge(dict(sig, clause="result", form="ndarray-ito", observed=g["k"]), dict(case, observed=g))
        # ndarray in-place twins (only reached with array magnitudes)
        if op in ("add", "sub", "mul", "div") and not islog:
            U = fregs[ac]
            xa = U.Quantity(np.array([float(F(*a["m"]))] * 2), qr.mkq(U, a, float).units)
            ya = U.Quantity(np.array([float(F(*b["m"]))] * 2), qr.mkq(U, b, float).units)
            sy3 = qr.snapshot(ya)
            try:
                with np.errstate(all="ignore"):
                    xr = qr.INPLACE[op](xa, ya)
                g = {"k": "ok", "m": float(xr.magnitude[0]), "u": {k: qr.frac(v) for k, v in xr.unit_items()}}
            except Exception as e:
                g = {"k": qr.kind_of_exception(e)}
            if exp["k"] != "zerodiv" and not qr.approx_equal(g, exp, 1e-9):
                chk.diverge(dict(sig, clause="result", form="ndarray-inplace", observed=g["k"]), dict(case, observed=g))
            if op in ("add", "sub") and qr.snapshot(ya) != sy3:
                chk.diverge(dict(sig, clause="operands-unchanged", form="ndarray-inplace"), case)
    chk.traces += len(cases)

    events = drive_default(chk, rng, thorough)
    for e, clause in defreg.validate(chk, "Trace_Reg", events):
        chk.diverge({"clause": clause, "src": "default-registry"},
                    {k: ([[i["s"], i["e"]] for i in v] if k in ("a", "b") else v) for k, v in e.items() if not k.startswith("_")})
    log_bridge(chk)
    redefined_offset_unit(chk)
    return chk.finish(
        rule="cases = reachable states of MC_C06 (registry mode, operand a, operand b, operation) executed on materialised registries "
             "in scalar and ndarray in-place form; every state is non-trivial (pool built from offset / delta / absolute / log units); "
             "plus conversions among the bundled temperature units validated by Trace_Reg and log-unit formulas in float",
        exhaustive=True)


def drive_default(chk, rng, thorough):
    import pint
    ureg = pint.UnitRegistry(non_int_type=F)
    Q = ureg.Quantity
    temps = ["degree_Celsius", "degree_Fahrenheit", "degree_Rankine", "degree_Reaumur", "kelvin", "delta_degree_Celsius",
             "delta_degree_Fahrenheit", "delta_degree_Reaumur", "degC", "degF", "degR", "degK", "celsius", "fahrenheit", "meter", "atomic_unit_of_temperature"]
    xs = [F(0), F(100), F(-40), F(37), F(27315, 100), F(1, 3), F(-45967, 100)]
    events = []
    for a in temps:
        for b in temps:
            for x in (xs if thorough else rng.sample(xs, 3)):
                try:
                    r = Q(x, a).to(b).magnitude
                    res = "ok"
                except pint.DimensionalityError:
                    r, res = F(0), "Dimensionality"
                except Exception as e:
                    r, res = F(0), "other"
                if not isinstance(r, (F, int)):
                    chk.skipped += 1
                    continue
                num, den = defreg.residues(r)
                events.append({"ev": "oconv", "a": defreg.cont({a: 1}), "b": defreg.cont({b: 1}), "x": list(defreg.residues(x)),
                               "res": res, "num": num, "den": den})
                chk.case(("oconv", a, b, x))
    # delta <-> offset is refused both ways (relational on the event stream: the spec sees different... handled here)
    for a, b in (("degC", "delta_degC"), ("delta_degF", "degF"), ("degC", "delta_degF")):
        try:
            Q(F(1), a).to(b)
            chk.diverge({"clause": "delta-offset-accepted", "src": "default-registry"}, {"a": a, "b": b})
        except pint.DimensionalityError:
            pass
        except Exception as e:
            chk.diverge({"clause": "delta-offset-wrong-error", "exc": type(e).__name__, "src": "default-registry"}, {"a": a, "b": b})
    chk.samples.append({"ev": "oconv", "a": "degree_Celsius", "b": "degree_Fahrenheit", "x": "100"})
    return events


def redefined_offset_unit(chk):
    """an offset unit defined a second time (on_redefinition = warn / ignore) is the new unit - and so is its delta counterpart: a
    difference of two temperatures converts with the new scale, offset + delta lands on the right temperature"""
    import logging
    import pint
    from fractions import Fraction as Fr
    logging.getLogger("pint").setLevel(logging.ERROR)
    for mode in ("warn", "ignore"):
        chk.case(("redefined-offset-unit", mode), nontrivial=True)
        try:
            u = pint.UnitRegistry(["K = [Th]", "degX = 2 * K; offset: 100"], non_int_type=Fr, on_redefinition=mode)
            # (nothing is asked of the registry before the second definition: what survives in caches across a redefinition is C13's)
            first = Fr(8)
            u.define("degX = 3 * K; offset: 50")
            d = (u.Quantity(Fr(7), "degX") - u.Quantity(Fr(3), "degX"))
            got = {"first-difference": first, "difference": d.to("K").magnitude, "delta-unit": u.Quantity(Fr(1), "delta_degX").to("K").magnitude,
                   "offset-plus-delta": (u.Quantity(Fr(3), "degX") + u.Quantity(Fr(4), "delta_degX")).to("K").magnitude, "absolute": u.Quantity(Fr(1), "degX").to("K").magnitude}
        except Exception as e:
            chk.diverge({"clause": "redefined-offset-unit-raises", "exc": type(e).__name__, "mode": mode}, {})
            continue
        want = {"first-difference": Fr(8), "difference": Fr(12), "delta-unit": Fr(3), "offset-plus-delta": Fr(71), "absolute": Fr(53)}
        bad = sorted(k for k in want if Fr(got[k]) != want[k])
        if bad:
            chk.diverge({"clause": "redefined-offset-unit", "field": bad[0], "mode": mode}, {"expected": {k: str(want[k]) for k in bad}, "observed": {k: str(got[k]) for k in bad}})


def log_bridge(chk):
    """dB, dBm, dBu, Np, octave, decade of the bundled registry against their defining formula (float)."""
    import pint
    ureg = pint.UnitRegistry(autoconvert_offset_to_baseunit=True)
    Q = ureg.Quantity
    R, _ = defreg.table()
    for name, d in R["units"].items():
        if "logbase" not in d["mods"]:
            continue
        lb, lf, scale = float(d["mods"]["logbase"]), float(d["mods"]["logfactor"]), float(d["scale"])
        ref = {k: v for k, v in d["ref"].items()}
        refexpr = defreg.expr(ref) if ref else "dimensionless"
        for v in (0.0, 10.0, -3.0, 20.0, 0.5):
            chk.case(("log", name, v))
            want = scale * lb ** (v / lf)
            try:
                got = Q(v, name).to(refexpr).magnitude
                back = Q(want, refexpr).to(name).magnitude
            except Exception as e:
                chk.diverge({"clause": "log-conversion-raises", "unit": name, "exc": type(e).__name__}, {"unit": name, "value": v})
                continue
            if abs(got - want) > 1e-9 * abs(want) or abs(back - v) > 1e-9 * max(1.0, abs(v)):
                chk.diverge({"clause": "log-defining-map", "unit": name}, {"unit": name, "value": v, "expected": want, "observed": got, "back": back})


def replay(chk, rec):
    import json
    print(json.dumps(rec["detail"], indent=1)[:4000])
    chk.seed = rec.get("seed", 0)
    return run(chk)
