"""C04 - units form a commutative group with a canonical representation.

1. TLC law run  : MC_C04 (all containers over 3 names, exponents -2..2 and +-1/2): operational model of
                  UnitsContainer.__mul__/__truediv__/__pow__ |= pointwise definition + group laws.
2. spec -> code : every state of the generator instance is a test case (operands, op, expected result),
                  replayed on UnitsContainer / ParserHelper / Unit / Quantity with int, float, Fraction,
                  Decimal exponents; equality, hash, canonical form, operand immutability.
3. code -> spec : random containers over the default registry's names through the real operators and
                  ureg.pi_theorem on random quantity sets are logged; Trace_C04 recomputes every result
                  with the specification's operators (and checks the null-space basis conditions).
"""
import json
import os
import random
from decimal import Decimal
from fractions import Fraction as F

from ..engine import MachineryError, alarm, CaseTimeout
from .. import tlaval

LAWS = ["Binary", "Power", "Recip", "Triple", "Edit"]
REG_LINES = ["a = [A]", "b = [B]", "c = a ** 2 / b", "h = [H]"]


def conv_exp(fr, T):
    """Rational exponent in numeric type T (ints stay ints, like pint does)."""
    fr = F(*fr) if not isinstance(fr, F) else fr
    if fr.denominator == 1:
        return int(fr)
    if T is F:
        return fr
    if T is Decimal:
        return Decimal(fr.numerator) / Decimal(fr.denominator)
    return fr.numerator / fr.denominator


def exact_in(fr, T):
    fr = F(*fr) if not isinstance(fr, F) else fr
    if T is F or fr.denominator == 1:
        return True
    d = fr.denominator
    while d % 2 == 0:
        d //= 2
    if T is float:
        return d == 1
    while d % 5 == 0:
        d //= 5
    return d == 1


def cont_of(v):
    """TLA container value (dict name -> [n, d], or [] for the empty function) -> {name: Fraction}"""
    if v == [] or v == {}:
        return {}
    return {k: F(e[0], e[1]) for k, e in v.items()}


def same_items(items, expected, T):
    """items: iterable of (name, exponent) read back from pint; expected {name: Fraction}."""
    got = dict(items)
    if set(got) != set(expected):
        return False
    for k, e in expected.items():
        g = got[k]
        if isinstance(g, float):
            if abs(g - float(e)) > 1e-12:
                return False
        elif isinstance(g, Decimal):
            if abs(F(g) - e) > F(1, 10 ** 20):
                return False
        else:
            if F(g) != e:
                return False
    return True


def run(chk):
    import pint
    from pint.util import UnitsContainer, ParserHelper
    rng = random.Random(chk.seed)
    thorough = chk.tier == "thorough"

    # ---- 1. law run --------------------------------------------------------------------------
    r = chk.tlc("laws", "MC_C04", "MC_C04.cfg", args=["-coverage", "1"])
    chk.require_coverage(r, LAWS)

    # ---- 2. generator + replay ----------------------------------------------------------------
    wd = chk.workdir("gen")
    dump = os.path.join(wd, "c04.dump")
    g = chk.tlc("gen", "MC_C04", "MC_C04.cfg" if thorough else "MC_C04_gen.cfg", wd=wd, args=["-dump", dump], count=False)
    states = [s for s in tlaval.parse_states(open(dump).read()) if s["op"] != "init"]
    if len(states) < 1000:
        raise MachineryError("generator produced only %d cases" % len(states))
    os.remove(dump)

    ureg = {T: pint.UnitRegistry(REG_LINES, non_int_type=T) for T in (float, F, Decimal)}
    DIM = {"a": {"[A]": F(1)}, "b": {"[B]": F(1)}, "c": {"[A]": F(2), "[B]": F(-1)}}

    def model_dim(c):
        out = {}
        for n, e in c.items():
            for d, de in DIM[n].items():
                out[d] = out.get(d, 0) + e * de
        return {d: e for d, e in out.items() if e != 0}

    def mk(layer, T, c):
        d = {k: conv_exp(e, T) for k, e in c.items()}
        if layer == "UnitsContainer":
            return UnitsContainer(d, non_int_type=T)
        if layer == "ParserHelper":
            return ParserHelper(1, d, non_int_type=T)
        if layer == "Unit":
            return ureg[T].Unit(UnitsContainer(d, non_int_type=T))
        return ureg[T].Quantity(1, UnitsContainer(d, non_int_type=T))

    def items(layer, o):
        if layer in ("UnitsContainer", "ParserHelper"):
            return list(o.items())
        if layer == "Unit":
            return list((1 * o).unit_items())
        return list(o.unit_items())

    def snapshot(layer, o):
        return (sorted((k, F(v) if not isinstance(v, float) else v) for k, v in items(layer, o)), hash(o) if layer != "Quantity" else None)

    layers = ["UnitsContainer", "ParserHelper", "Unit", "Quantity"]
    types = [int, float, F, Decimal]      # int: only integer exponents/powers, float registry
    nrep = 0
    for st in states:
        x, y, z, k = cont_of(st["x"]), cont_of(st["y"]), cont_of(st["z"]), F(*st["k"])
        exp = cont_of(st["res"])
        op = st["op"]
        chk.case((op, st["x"], st["y"], st["z"], st["k"]), nontrivial=bool(x) and (op in ("pow", "rdiv") or bool(y)),
                 sample={"op": op, "x": x, "y": y, "z": z, "k": k, "expected": exp})
        # all layers/types for a seeded share of the cases, UnitsContainer/Fraction for all
        combos = [("UnitsContainer", F)]
        if thorough or rng.random() < 0.15:
            combos = [(l, T) for l in layers for T in types]
        for layer, T in combos:
            vals = list(x.values()) + list(y.values()) + list(z.values()) + ([k] if op == "pow" else [])
            if T is int:
                if any(v.denominator != 1 for v in vals):
                    continue
                TT = float
            else:
                TT = T
                if not all(exact_in(v, T) for v in vals) or not all(exact_in(v, T) for v in exp.values()):
                    continue
            try:
                X, Y, Z = mk(layer, TT, x), mk(layer, TT, y), mk(layer, TT, z)
                hx = hash(X) if layer != "Quantity" else None      # cached hash is now set on the operand
                before = (snapshot(layer, X), snapshot(layer, Y), snapshot(layer, Z))
                kk = conv_exp(k, TT)
                if op == "mul":
                    R = X * Y
                    R2 = Y * X
                elif op == "div":
                    R = X / Y
                    R2 = None
                elif op == "pow":
                    R = X ** kk
                    R2 = None
                elif op in ("add1", "remove", "rename"):
                    if layer not in ("UnitsContainer", "ParserHelper"):
                        continue
                    n1 = next(iter(y))
                    R2 = None
                    if op == "add1":
                        R = X.add(n1, conv_exp(y[n1], TT))
                        if layer == "ParserHelper" and y[n1] in (1, -1):      # ParserHelper * "name", / "name"
                            R2 = (X * n1) if y[n1] == 1 else (X / n1)
                    elif op == "remove":
                        R = X.remove([n1])
                    else:
                        R = X.rename(n1, next(iter(z)))
                elif op == "rdiv":
                    R = 1 / X
                    if layer == "Unit":          # number / Unit is a Quantity: its unit is the reciprocal
                        ok1 = (R.magnitude == 1)
                        R = R.units
                    R2 = None
                else:
                    R = (X * Y) * Z
                    R2 = X * (Y * Z)
                after = (snapshot(layer, X), snapshot(layer, Y), snapshot(layer, Z))
                E = mk(layer, TT, exp)
                ok_items = same_items(items(layer, R), exp, TT)
                ok_eq = (R == E) and (E == R) and not (R != E)
                ok_hash = layer == "Quantity" or hash(R) == hash(E)
                # ... and only then: against each operand, == holds exactly when the exponents are the same (hash(-1) == hash(-2) in CPython)
                ok_neq = True
                for O, o in ((X, x), (Y, y), (Z, z)):
                    if layer == "Quantity" or type(O) is not type(R):
                        continue
                    same_o = {n: F(e) for n, e in o.items() if e != 0} == {n: F(e) for n, e in exp.items() if e != 0}
                    if bool(R == O) != same_o or bool(R != O) == same_o:
                        ok_neq = False
                ok_comm = R2 is None or (R2 == R and same_items(items(layer, R2), exp, TT))
                ok_imm = before == after
                ok_dim = True
                if layer in ("Unit", "Quantity"):
                    dim = dict(R.dimensionality)
                    ok_dim = same_items(dim.items(), model_dim(exp), TT)
                    if not exp:
                        ok_dim = ok_dim and R.dimensionless and (R.unitless if layer == "Quantity" else True)
                nrep += 1
            except Exception as e:      # no operation of the group may fail
                chk.diverge({"clause": "raises", "layer": layer, "type": T.__name__, "op": op, "exc": type(e).__name__,
                             "k": k if op == "pow" else None},
                            {"op": op, "x": x, "y": y, "z": z, "k": k, "expected": exp, "error": repr(e)})
                continue
            for clause, ok in (("result", ok_items), ("eq", ok_eq), ("eq-only-when-same", ok_neq), ("hash", ok_hash), ("commutative/associative", ok_comm),
                               ("operands-unchanged", ok_imm), ("dimensionality", ok_dim)):
                if not ok:
                    cls = "pow0" if (op == "pow" and k == 0) else ("cancel" if len(exp) < len(set(x) | set(y) | set(z)) else "plain")
                    chk.diverge({"clause": clause, "layer": layer, "type": T.__name__, "op": op, "class": cls},
                                {"op": op, "x": x, "y": y, "z": z, "k": k, "expected": exp,
                                 "observed": [(n, str(e)) for n, e in items(layer, R)]})
    chk.traces += len(states)
    chk.notes["replayed_operations"] = nrep

    # ---- 3. traces from the default registry, validated by TLC -------------------------------
    events = drive_default(chk, rng, 3000 if not thorough else 20000)
    validate(chk, events)

    return chk.finish(
        rule="cases = reachable states of MC_C04 (operands x op x expected result), distinct by (op, operands); "
             "non-trivial = non-empty left operand and (unary op or non-empty right operand); plus logged events "
             "over the default registry validated by Trace_C04",
        exhaustive=True)


# ------------------------------------------------------------------------------------------------
def esc(s):
    return "".join(c if c.isascii() and (c.isalnum() or c == "_") else "_u%04X" % ord(c) for c in s)


def pairs(itms):
    return sorted([esc(k), [F(v).numerator, F(v).denominator]] for k, v in itms)


def drive_default(chk, rng, n):
    """Random containers over the real default registry (Fraction exponents) through the real operators."""
    import pint
    ureg = pint.UnitRegistry(non_int_type=F)
    def multiplicative(nm):
        try:
            ureg.Quantity(F(1), nm) * ureg.Quantity(F(1), nm)
            return True
        except Exception:
            return False
    names = sorted(n for n in {ureg.get_name(k) for k in dir(ureg) if not k.startswith("_") and k in ureg}
                   if multiplicative(n))   # canonical multiplicative names; just a pool of long strings
    dims = sorted(k for k in ureg._dimensions)
    exps = [F(1), F(-1), F(2), F(-2), F(3), F(1, 2), F(-1, 2), F(3, 2), F(-3), F(1, 3)]
    powers = [0, 1, -1, 2, -2, 3, F(1, 2), F(-1, 2), F(2, 3), F(0)]
    events = []

    def rand_cont(pool):
        return {rng.choice(pool): rng.choice(exps) for _ in range(rng.randint(0, 5))}

    for i in range(n):
        layer = rng.choice(["container", "unit", "quantity", "dims"])
        pool = names[: 40] if rng.random() < 0.5 else names      # small pool -> frequent cancellation
        if layer == "dims":
            pool = dims
        x, y = rand_cont(pool), rand_cont(pool)
        if rng.random() < 0.25:
            y = dict(x)                                         # u / u
        if rng.random() < 0.15 and x:
            kk = rng.choice(list(x))
            y = dict(y); y[kk] = -x[kk] if rng.random() < 0.5 else x[kk]
        op = rng.choice(["mul", "div", "pow", "rdiv"])
        k = rng.choice(powers)
        mkc = lambda c: ureg.UnitsContainer(c)
        try:
            if layer in ("container", "dims"):
                X, Y = mkc(x), mkc(y)
                get = lambda r: list(r.items())
            elif layer == "unit":
                X, Y = ureg.Unit(mkc(x)), ureg.Unit(mkc(y))
                get = lambda r: list((1 * r).unit_items())
            else:
                X, Y = ureg.Quantity(F(2), mkc(x)), ureg.Quantity(F(3), mkc(y))
                get = lambda r: list(r.unit_items())
            hx = None if layer == "quantity" else (hash(X), hash(Y))
            R = {"mul": lambda: X * Y, "div": lambda: X / Y, "pow": lambda: X ** k, "rdiv": lambda: 1 / X}[op]()
            if layer == "unit" and op == "rdiv":
                R = R.units
            ev = {"ev": "op", "layer": layer, "op": op, "x": pairs(x.items()), "y": pairs(y.items()),
                  "k": [F(k).numerator, F(k).denominator], "res": pairs(get(R)),
                  "xafter": pairs(get(X)), "yafter": pairs(get(Y)),
                  "hash_stable": hx is None or hx == (hash(X), hash(Y)),
                  # equality / hash against an independently constructed object holding the same items
                  "eq_fresh": bool(R == type(R)(mkc(dict(get(R))))) if layer in ("unit",) else
                              bool(R == mkc(dict(get(R)))) if layer in ("container", "dims") else
                              bool(R.units == ureg.Unit(mkc(dict(get(R))))),
                  "hash_fresh": (hash(R) == hash(mkc(dict(get(R))))) if layer in ("container", "dims") else
                                (hash(R) == hash(ureg.Unit(mkc(dict(get(R)))))) if layer == "unit" else True,
                  "ok": True}
        except Exception as e:
            ev = {"ev": "op", "layer": layer, "op": op, "x": pairs(x.items()), "y": pairs(y.items()),
                  "k": [F(k).numerator, F(k).denominator], "res": [], "xafter": [], "yafter": [],
                  "hash_stable": True, "eq_fresh": True, "hash_fresh": True, "ok": False, "exc": type(e).__name__}
        events.append(ev)

    # dimensionality homomorphism over units, base dimensions and derived dimensions
    mixed = names[:60] + dims
    for i in range(n // 3):
        pool = dims if rng.random() < 0.5 else mixed
        x, y = rand_cont(pool), rand_cont(pool)
        op = rng.choice(["mul", "div", "pow", "rdiv"])
        k = rng.choice(powers)
        try:
            X, Y = ureg.UnitsContainer(x), ureg.UnitsContainer(y)
            R = {"mul": lambda: X * Y, "div": lambda: X / Y, "pow": lambda: X ** k, "rdiv": lambda: 1 / X}[op]()
            gd = lambda c: pairs((kk, F(v).limit_denominator(10 ** 6)) for kk, v in ureg.get_dimensionality(c).items())
            events.append({"ev": "hom", "op": op, "k": [F(k).numerator, F(k).denominator], "x": pairs(x.items()), "y": pairs(y.items()),
                           "dx": gd(X), "dy": gd(Y), "dres": gd(R), "ok": True})
        except Exception as e:
            events.append({"ev": "hom", "op": op, "k": [F(k).numerator, F(k).denominator], "x": pairs(x.items()), "y": pairs(y.items()),
                           "dx": [], "dy": [], "dres": [], "ok": False, "exc": type(e).__name__})

    # Buckingham pi on random quantity sets of the default registry (dimension matrix logged with the answer)
    base_dims = ["[length]", "[mass]", "[time]", "[current]", "[temperature]"]
    upool = ["meter", "second", "kilogram", "newton", "joule", "watt", "pascal", "hertz", "ampere", "volt", "kelvin",
             "meter/second", "meter/second**2", "kilogram/meter**3", "pascal*second", "newton/meter", "joule/kelvin",
             "watt/meter/kelvin", "meter**2/second", "coulomb", "ohm", "dimensionless", "radian",
             "meter**2", "second**3", "meter*second", "kilogram**2/second", "meter**3/kilogram**2", "second**-2", "ampere**2*second",
             "kelvin**3", "meter**-3", "kilogram*meter**2", "newton**2", "joule**3/watt**2"]
    for i in range(n // 10):
        nq = rng.randint(2, 5)
        qs = {"v%d" % j: rng.choice(upool) for j in range(nq)}
        qq = {kq: ureg.Quantity(F(1), vq) for kq, vq in qs.items()}
        try:
            with alarm(10):
                res = ureg.pi_theorem(qq)
            dimrows = []
            for j in range(nq):
                d = ureg.get_dimensionality(ureg.parse_units(qs["v%d" % j]))
                dimrows.append([[F(d.get(b, 0)).numerator, F(d.get(b, 0)).denominator] for b in base_dims]
                               + [[F(v).numerator, F(v).denominator] for kdim, v in sorted(d.items()) if kdim not in base_dims])
            width = max(len(r) for r in dimrows)
            if any(len(r) != len(base_dims) for r in dimrows):
                continue    # a dimension outside the matrix columns: skip (none with this pool)
            fr = lambda v: F(v).limit_denominator(1000)
            vecs = [[[fr(g.get("v%d" % j, 0)).numerator, fr(g.get("v%d" % j, 0)).denominator] for j in range(nq)] for g in res]
            events.append({"ev": "pi", "m": dimrows, "vecs": vecs, "ok": True, "units": list(qs.values())})
        except CaseTimeout:
            chk.skipped += 1
        except Exception as e:
            dimless = all(ureg.Quantity(1, v).dimensionless for v in qs.values())
            events.append({"ev": "pi", "m": [], "vecs": [], "ok": False, "units": list(qs.values()),
                           "exc": type(e).__name__, "all_dimensionless": dimless})
    return events


def validate(chk, events):
    wd = chk.workdir("trace")
    path = os.path.join(wd, "c04_trace.json")
    with open(path, "w") as fh:
        json.dump({"trace": events}, fh)
    r = chk.tlc("trace", "Trace_C04", "Trace_C04.cfg", wd=wd, workers=1, env={"TRACE_FILE": path}, count=True)
    verdicts = r.printed("VERDICT")
    if not verdicts:
        raise MachineryError("trace validator printed no verdict\n" + r.out[-2000:])
    v = verdicts[-1]
    if v["consumed"] != len(events):
        raise MachineryError("trace validator consumed %s of %d events" % (v["consumed"], len(events)))
    chk.traces += 1
    chk.notes["trace_events"] = len(events)
    for e in events[:2]:
        if len(chk.samples) < 7:
            chk.samples.append(e)
    for ln, clause in v["bad"]:
        e = events[ln - 1]
        for _ in [0]:
            chk.evaluations += 0
        cls = "pow0" if (e.get("op") == "pow" and e.get("k", [1])[0] == 0) else "plain"
        if e["ev"] == "pi" and e.get("all_dimensionless"):
            cls = "all-dimensionless"
        chk.diverge({"clause": clause, "layer": e.get("layer", "pi"), "op": e.get("op", "pi"), "class": cls, "src": "trace"}, e)
    for e in events:
        chk.case(("trace", json.dumps(e, sort_keys=True)), nontrivial=bool(e.get("x")) or e["ev"] == "pi")


def replay(chk, rec):
    print(json.dumps(rec["detail"], indent=1))
    print("re-running the whole check for the recorded seed")
    chk.seed = rec.get("seed", 0)
    return run(chk)
