#!/usr/bin/env python3
"""tools/mkprompts.py <outdir> [ids...] : a scratch worktree of /repo (HEAD) per property and the prompt for a fresh sub-agent that sees
only the property's text.  Nothing from /verif goes into the prompt."""
import json, os, subprocess, sys
out = sys.argv[1]
ids = sys.argv[2:]
for l in open(os.path.join(os.path.dirname(__file__), "..", "properties.jsonl")):
    p = json.loads(l)
    if ids and p["id"] not in ids:
        continue
    wt = os.path.join(out, p["id"])
    if not os.path.isdir(wt):
        subprocess.run(["git", "-C", "/repo", "worktree", "add", "--detach", wt, "HEAD"], check=True, capture_output=True)
    os.makedirs(os.path.join(wt, "out"), exist_ok=True)
    text = {k: p[k] for k in ("id", "title", "statement", "quantifier", "why_tests_cant", "anchors")}
    prompt = f"""You are helping to evaluate a verification effort for the Python library pint (hgrecco/pint). Your job is to write small,
realistic *breaking changes* to the library: changes that violate the semantic property below while the code still imports and the
existing test suite still passes.

Work ONLY inside the git worktree {wt} (a checkout of the library; never touch /repo or /verif, never read /verif).
Python is /venv/bin/python. IMPORTANT: /venv has the package installed in development mode from /repo, so to import *your* checkout
run scripts with the working directory set to {wt} and `sys.path.insert(0, os.getcwd())` at the top of each demo script (check
`pint.__file__` starts with {wt}). Run the test suite with:
    cd {wt} && /venv/bin/python -m pytest -q -p no:cacheprovider -n 8 -x pint/testsuite 2>&1 | tail -3
(2722 passed is the expected outcome; it takes about 30 s). There is no network.

The property:
{json.dumps(text, indent=1)}

{os.environ.get("MKPROMPT_EXTRA", "")}Produce FOUR different changes m1..m4. Requirements for each:
 * it is a plausible slip or "optimisation" a maintainer could make (a few lines), not sabotage like `raise` or `return None`;
 * with it, the library still imports and the whole test suite still passes (run it!);
 * it breaks the property above, and you demonstrate that with a script;
 * it needs something *specific* to manifest: a particular shape of input, a particular configuration, an earlier sequence of
   calls, a particular ordering - not every call of the affected function goes wrong;
 * the four changes touch different functions (at least two of them outside the most obvious function for this property, e.g. in a
   helper, a cache, a formatter, a registry facet, a rarely used code path), and manifest through different observable behaviour.

For each k write into {wt}/out/ :
   m<k>.diff      - `git diff` of the change alone (the worktree must be clean again afterwards: `git checkout -- .` between changes);
   m<k>_demo.py   - a standalone script that exits 0 on the unchanged checkout and exits 1 (printing what went wrong) with the change applied;
   m<k>.json      - {{"property": "{p['id']}", "summary": "<what was changed and why it breaks the property>", "needs": "<what is needed for it to manifest>", "files": [...]}}
Verify each one yourself: demo passes on the clean tree, fails with the patch, test suite passes with the patch. Never use `git stash` (the stash is shared between worktrees of one repository): use `git diff > file` and `git checkout -- .` instead. Leave the worktree clean
at the end. Reply with a short list of the four summaries.
"""
    open(os.path.join(out, p["id"] + ".prompt"), "w").write(prompt)
    print(p["id"], wt)
