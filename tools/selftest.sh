#!/bin/sh
# tools/selftest.sh [ids...] : demonstrate that the binding binds.  Every check is run three times on the unchanged tree with the
# machinery sabotaged: expect (the spec-side expectation of every 97th generated state falsified), corrupt (one recorded field of one
# event per recorded trace falsified), drop (one event per recorded trace removed).  A check that still exits 0 under a sabotage that
# applies to it does not bind.  Output: one line per (check, mode): rc and number of VIOLATION lines.  Not part of MANIFEST.
cd "$(dirname "$0")/.."
ids="${*:-$(/venv/bin/python -c "import json; print(' '.join(c['property_id'] for c in json.load(open('MANIFEST.json'))['checks']))")}"
for c in $ids; do for mode in expect corrupt drop; do
  log=$(mktemp /var/tmp/selftest.XXXXXX)
  out=$(VERIF_SELFTEST=$mode VERIF_SELFTEST_LOG=$log ./check $c --tier quick 2>&1); rc=$?
  n=$(wc -l < $log); rm -f $log
  verdict="DETECTED"; [ $rc -eq 0 ] && verdict="MISSED"; [ $n -eq 0 ] && verdict="n/a (this check has no such artefact)"
  echo "$c $mode sabotaged=$n $verdict rc=$rc violations=$(echo "$out" | grep -c '^VIOLATION') known=$(echo "$out" | grep -c '^KNOWN-FINDING') $(echo "$out" | grep -m1 'MACHINERY' | cut -c1-120)"
done; done
# the evidence files written by sabotaged runs are not evidence: restore them
git checkout -- evidence 2>/dev/null
