#!/bin/sh
# tools/mutcheck.sh <patch.diff> <check-id>...   apply a seeded change to /repo, run the checks, undo it
d="$1"; shift
git -C /repo diff --quiet || { echo "/repo not clean"; exit 2; }
git -C /repo apply "$d" || { echo "patch does not apply"; exit 2; }
for c in "$@"; do
  out=$(cd /verif && ./check "$c" --tier quick 2>&1); rc=$?
  echo "== $c rc=$rc  $(echo "$out" | grep -c '^VIOLATION') violation line(s)"
  echo "$out" | grep -A1 '^VIOLATION' | head -8
  echo "$out" | grep 'MACHINERY' | head -3
done
git -C /repo checkout -- .
