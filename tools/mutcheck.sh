#!/bin/sh
# tools/mutcheck.sh <patch.diff> <check-id>...   run checks against a seeded change.
# default: apply the change to /repo, run the checks, undo it straight afterwards (git -C /repo checkout -- .)
# MUT_WT=1: evaluate it in a throw-away worktree of /repo's HEAD instead (PYTHONPATH + VERIF_PINT_ROOT), leaving /repo alone,
#           so that several changes can be evaluated while other runs use /repo
d="$1"; shift
if [ -n "$MUT_WT" ]; then
  wt=$(mktemp -d /var/tmp/mutwt.XXXXXX); rmdir $wt
  git -C /repo worktree add --detach $wt HEAD >/dev/null 2>&1 || { echo "cannot create worktree"; exit 2; }
  git -C $wt apply "$d" || { echo "patch does not apply"; git -C /repo worktree remove --force $wt; exit 2; }
  export PYTHONPATH=$wt VERIF_PINT_ROOT=$wt
else
  git -C /repo diff --quiet || { echo "/repo not clean"; exit 2; }
  git -C /repo apply "$d" || { echo "patch does not apply"; exit 2; }
fi
for c in "$@"; do
  out=$(cd /verif && ./check "$c" --tier quick 2>&1); rc=$?
  echo "== $c rc=$rc  $(echo "$out" | grep -c '^VIOLATION') violation line(s)"
  echo "$out" | grep -A1 '^VIOLATION' | head -8
  echo "$out" | grep 'MACHINERY' | head -3
done
if [ -n "$MUT_WT" ]; then git -C /repo worktree remove --force $wt; else git -C /repo checkout -- .; fi
