#!/bin/sh
# tools/reseed.sh [seed-name-prefix...] : re-run every stored seeded change (seeded/<name>/patch.diff) against the checks recorded as
# catching it (meta.json caught_by), each in its own throw-away worktree (tools/mutcheck.sh, MUT_WT=1), JOBS at a time (default 4).
# Prints CAUGHT / MISSED / NOAPPLY per seed.  /repo itself is not touched.
cd "$(dirname "$0")/.."
pat="${*:-C}"
one() {
  d=$1; n=$(basename $d)
  ids=$(/venv/bin/python -c "import json; m=json.load(open('$d/meta.json')); print('' if m.get('neutralised') else ' '.join(m['caught_by']))")
  [ -z "$ids" ] && { echo "$n NEUTRALISED (see meta.json)"; return; }
  out=$(MUT_WT=1 tools/mutcheck.sh $PWD/$d/patch.diff $ids 2>&1)
  case "$out" in *"does not apply"*) echo "$n NOAPPLY";; *"rc=1"*) echo "$n CAUGHT $(echo "$out" | grep -o '== C[0-9]* rc=[0-9]*' | tr '\n' ' ')";; *) echo "$n MISSED $(echo "$out" | grep -o '== C[0-9]* rc=[0-9]*' | tr '\n' ' ')";; esac
}
list=""
for d in seeded/*/; do n=$(basename $d); for p in $pat; do case $n in $p*) list="$list $d";; esac; done; done
i=0
for d in $list; do one $d & i=$((i+1)); [ $((i % ${JOBS:-4})) -eq 0 ] && wait; done; wait
