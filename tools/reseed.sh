#!/bin/sh
# tools/reseed.sh [seed-name-prefix...] : re-run every stored seeded change (seeded/<name>/patch.diff) against the checks recorded as
# catching it (meta.json caught_by); prints CAUGHT / MISSED / NOAPPLY per seed.  /repo is patched only transiently.
cd "$(dirname "$0")/.."
pat="${*:-C}"
for d in seeded/*/; do
  n=$(basename $d); ok=0; for p in $pat; do case $n in $p*) ok=1;; esac; done; [ $ok -eq 1 ] || continue
  ids=$(/venv/bin/python -c "import json; print(' '.join(json.load(open('$d/meta.json'))['caught_by']))")
  if ! git -C /repo apply --check $PWD/$d/patch.diff 2>/dev/null; then echo "$n NOAPPLY"; continue; fi
  git -C /repo apply $PWD/$d/patch.diff
  res=""
  for c in $ids; do ./check $c --tier quick >/dev/null 2>&1; rc=$?; res="$res $c:rc=$rc"; done
  git -C /repo checkout -- .
  case "$res" in *rc=1*) echo "$n CAUGHT$res";; *) echo "$n MISSED$res";; esac
done
