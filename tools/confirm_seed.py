#!/venv/bin/python
"""tools/confirm_seed.py <worktree> <out-dir-of-agent> <k> <seed-name> <caught-by...>
Confirms a seeded change in a scratch worktree (tests pass with it, demo fails with it and passes without) and stores it
under /verif/seeded/<seed-name>/ (patch.diff, demo.py, meta.json)."""
import json, os, shutil, subprocess, sys
wt, out, k, name = sys.argv[1:5]
caught = sys.argv[5:]
def sh(cmd, **kw):
    return subprocess.run(cmd, shell=True, cwd=wt, capture_output=True, text=True, **kw)
diff, demo, meta = (os.path.join(out, "m%s%s" % (k, s)) for s in (".diff", "_demo.py", ".json"))
assert sh("git status --porcelain --untracked-files=no").stdout.strip() == "", "worktree not clean"
r0 = sh("/venv/bin/python %s" % demo)
a = sh("git apply %s" % diff); assert a.returncode == 0, a.stderr
r1 = sh("/venv/bin/python %s" % demo)
t = sh("/venv/bin/python -m pytest -q -p no:cacheprovider -n 8 -x pint/testsuite 2>&1 | tail -1")
sh("git checkout -- .")
summary = t.stdout.strip()
ok = r0.returncode == 0 and r1.returncode != 0 and " passed" in summary and not __import__("re").search(r"\b\d+ (failed|error)", summary)
m = json.load(open(meta))
m.update({"seed": name, "confirmed": ok, "ran": {"demo_without_change_rc": r0.returncode, "demo_with_change_rc": r1.returncode,
          "demo_with_change_output": (r1.stdout + r1.stderr)[-600:], "testsuite_with_change": summary,
          "commands": ["python demo.py (clean worktree)", "git apply patch.diff; python demo.py",
                       "python -m pytest -q -p no:cacheprovider -n 8 -x pint/testsuite", "git checkout -- ."]},
          "base_commit": sh("git rev-parse HEAD").stdout.strip(), "caught_by": caught})
print(name, "confirmed" if ok else "NOT CONFIRMED", r0.returncode, r1.returncode, summary)
if ok:
    d = os.path.join("/verif/seeded", name); os.makedirs(d, exist_ok=True)
    shutil.copy(diff, os.path.join(d, "patch.diff")); shutil.copy(demo, os.path.join(d, "demo.py"))
    json.dump(m, open(os.path.join(d, "meta.json"), "w"), indent=1)
