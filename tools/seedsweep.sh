#!/bin/sh
# tools/seedsweep.sh [seeds...] : every registered check's quick command under several seeds (false-alarm hunt)
cd "$(dirname "$0")/.."
seeds="${*:-1 2 3}"
ids=$(/venv/bin/python -c "import json; print(' '.join(c['property_id'] for c in json.load(open('MANIFEST.json'))['checks']))")
for s in $seeds; do for c in $ids; do
  out=$(./check $c --tier quick --seed $s 2>&1); rc=$?
  echo "seed=$s $c rc=$rc $(echo "$out" | tail -1)"
  [ $rc -ne 0 ] && echo "$out" | grep -A1 "^VIOLATION\|MACHINERY" | head -12
done; done
